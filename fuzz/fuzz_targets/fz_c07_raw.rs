#![no_main]
//! coverage-guided driver for C07/raw_bytes: the fuzz input is the tape of that sub-check
use libfuzzer_sys::fuzz_target;

fuzz_target!(|data: &[u8]| {
    if let Err(m) = verif::fuzzapi::run_tape("C07", "raw_bytes", data) {
        panic!("VIOLATION property=C07 sub=raw_bytes: {}", m);
    }
});
