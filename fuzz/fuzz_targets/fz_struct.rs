#![no_main]
//! coverage-guided driver for every cheap tape sub-check of one property (VERIF_FUZZ_PROP) or of
//! all structural properties: the first input byte selects the sub-check, the rest is its tape
use libfuzzer_sys::fuzz_target;
use std::sync::OnceLock;

fn subs() -> &'static Vec<(&'static str, &'static str)> {
    static S: OnceLock<Vec<(&'static str, &'static str)>> = OnceLock::new();
    S.get_or_init(|| {
        let only = std::env::var("VERIF_FUZZ_PROP").ok();
        // crypto-heavy sub-checks are too slow for coverage-guided search
        let slow = ["C04", "C05", "C09", "C17"];
        verif::fuzzapi::tape_subs()
            .into_iter()
            .filter(|(p, _)| match &only {
                Some(o) => p == o,
                None => !slow.contains(p),
            })
            .collect()
    })
}

fuzz_target!(|data: &[u8]| {
    let s = subs();
    if data.is_empty() || s.is_empty() {
        return;
    }
    let (p, sub) = s[usize::from(data[0]) % s.len()];
    if let Err(m) = verif::fuzzapi::run_tape(p, sub, &data[1..]) {
        panic!("VIOLATION property={} sub={}: {}", p, sub, m);
    }
});
