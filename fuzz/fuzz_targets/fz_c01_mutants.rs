#![no_main]
//! coverage-guided driver for C01/mutants: the fuzz input is the tape of that sub-check
use libfuzzer_sys::fuzz_target;

fuzz_target!(|data: &[u8]| {
    if let Err(m) = verif::fuzzapi::run_tape("C01", "mutants", data) {
        panic!("VIOLATION property=C01 sub=mutants: {}", m);
    }
});
