#![no_main]
//! coverage-guided driver for C10/operations: the fuzz input is the tape of that sub-check
use libfuzzer_sys::fuzz_target;

fuzz_target!(|data: &[u8]| {
    if let Err(m) = verif::fuzzapi::run_tape("C10", "operations", data) {
        panic!("VIOLATION property=C10 sub=operations: {}", m);
    }
});
