#![no_main]
//! coverage-guided driver for C10/raw_text: the fuzz input is the tape of that sub-check
use libfuzzer_sys::fuzz_target;

fuzz_target!(|data: &[u8]| {
    if let Err(m) = verif::fuzzapi::run_tape("C10", "raw_text", data) {
        panic!("VIOLATION property=C10 sub=raw_text: {}", m);
    }
});
