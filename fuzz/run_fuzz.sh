#!/bin/bash
# run_fuzz.sh <ID>: the coverage-guided campaigns of the thorough tier for property <ID>.
# Pinned: fixed number of runs, fixed seed (VERIF_SEED), fresh deterministic seed corpus in a work
# directory that is created and deleted here. A crash artefact is converted into a replay file and
# re-executed through the release harness: exit 1 + VIOLATION only if it reproduces there,
# exit 2 (inconclusive) if not, exit 0 if the campaigns end without a crash.
set -u
ID="${1:-}"
SEED="${VERIF_SEED:-20260923}"
SCALE="${VERIF_FUZZ_SCALE:-100}"     # percent of the listed run counts
case "$ID" in
  C01) PLAN="fz_c01_raw:3000000:2000 fz_c01_mutants:600000:3000";;
  C07) PLAN="fz_c07_raw:1500000:12000";;
  C10) PLAN="fz_c10_raw:3000000:2000 fz_c10_text:2000000:200 fz_c10_ops:150000:5000";;
  C04|C05|C09|C17) exit 0;;            # crypto-heavy / exhaustive: no coverage-guided campaign
  C02|C03|C06|C08|C11|C12|C13|C14|C15|C16|C18|C19|C20) PLAN="fz_struct:800000:4000";;
  *) exit 0;;
esac
ROOT="${VERIF_ROOT:-/verif}"
cd "$ROOT/harness" || exit 2
export CARGO_NET_OFFLINE=true
if ! cargo +nightly fuzz build -O --fuzz-dir ../fuzz >$ROOT/fuzz/build.log 2>&1; then
  echo "INCONCLUSIVE property=$ID fuzz targets do not build (see $ROOT/fuzz/build.log)" >&2
  exit 2
fi
BIN=$ROOT/fuzz/target/x86_64-unknown-linux-gnu/release
HARNESS=$ROOT/harness/target/release/verif
WORK=$ROOT/fuzz/work/$ID.$$
rc=0
JOBS="${VERIF_FUZZ_JOBS:-8}"          # parallel libFuzzer instances per target (each gets runs/JOBS and its own seed)
MAXT="${VERIF_FUZZ_MAX_S:-600}"       # wall cap per instance; what was executed is what is reported
for item in $PLAN; do
  T=${item%%:*}; rest=${item#*:}; RUNS=${rest%%:*}; MAXLEN=${rest#*:}
  RUNS=$(( RUNS * SCALE / 100 / JOBS + 1 ))
  mkdir -p "$WORK/$T/seedcorpus"
  VERIF_FUZZ_PROP="$ID" $HARNESS gen-fuzz-corpus "$T" "$WORK/$T/seedcorpus" >/dev/null
  pids=""
  for j in $(seq 1 $JOBS); do
    mkdir -p "$WORK/$T/c$j" "$WORK/$T/art$j"
    cp "$WORK/$T/seedcorpus"/* "$WORK/$T/c$j/" 2>/dev/null
    ( VERIF_FUZZ_PROP="$ID" "$BIN/$T" -runs=$RUNS -seed=$(( (SEED + j) % 4294967295 + 1 )) -len_control=0 -max_len=$MAXLEN \
        -max_total_time=$MAXT -rss_limit_mb=6000 -malloc_limit_mb=2000 -timeout=120 -print_final_stats=1 \
        -artifact_prefix="$WORK/$T/art$j/" "$WORK/$T/c$j" > "$WORK/$T/log$j.txt" 2>&1; echo $? > "$WORK/$T/exit$j" ) &
    pids="$pids $!"
  done
  wait $pids
  execs=0; frc=0; art=""
  for j in $(seq 1 $JOBS); do
    e=$(grep -m1 "stat::number_of_executed_units" "$WORK/$T/log$j.txt" | awk '{print $2}')
    execs=$(( execs + ${e:-0} ))
    x=$(cat "$WORK/$T/exit$j" 2>/dev/null || echo 99)
    if [ "$x" != 0 ]; then
      frc=$x
      a=$(ls "$WORK/$T/art$j/" 2>/dev/null | head -1)
      [ -z "$art" ] && [ -n "$a" ] && art="$WORK/$T/art$j/$a"
      cp "$WORK/$T/log$j.txt" "$WORK/$T/log.txt"
    fi
  done
  echo "fuzz target=$T instances=$JOBS runs=$execs exit=$frc"
  if [ $frc -ne 0 ]; then
    if [ -n "$art" ]; then
      rp=$(VERIF_FUZZ_PROP="$ID" $HARNESS artifact "$T" "$art")
      if [ -n "$rp" ] && ! $HARNESS replay "$rp" >"$WORK/$T/replay.txt" 2>&1; then
        grep -m1 "^replay fails" "$WORK/$T/replay.txt"
        echo "VIOLATION property=$ID replay=$rp"
        rc=1
      else
        echo "INCONCLUSIVE property=$ID fuzz artefact of $T does not reproduce in the release harness (kept as $rp)" >&2
        [ $rc -eq 0 ] && rc=2
      fi
    else
      echo "INCONCLUSIVE property=$ID fuzz target $T ended with exit $frc without an artefact" >&2
      tail -5 "$WORK/$T/log.txt" >&2
      [ $rc -eq 0 ] && rc=2
    fi
  fi
done
rm -rf "$WORK"
rmdir $ROOT/fuzz/work 2>/dev/null
exit $rc
