#!/bin/bash
# import3.sh <out_dir> <ID> <first_n>: copies <out_dir>/<ID>/{patch,demo,meta,confirm}<i> (i = 1..3) whose
# confirmation succeeded to /verif/seeded/<ID>_<first_n + i - 1>/; tools/finalize_seeded.py then writes meta.json.
SRC="$1"; ID="$2"; FIRST="${3:-5}"
for i in ${ONLY:-1 2 3}; do
  S=$SRC/$ID
  [ -f $S/patch$i.diff ] || continue
  if ! grep -q "demo with patch: fails" $S/confirm$i.txt 2>/dev/null || grep -q "FAIL" $S/confirm$i.txt; then
    echo "$ID $i: NOT confirmed, skipped"; continue
  fi
  N=$((FIRST + i - 1))
  D=/verif/seeded/${ID}_$N
  mkdir -p $D
  cp $S/patch$i.diff $D/patch.diff
  cp $S/demo$i.rs $D/demo.rs
  cp $S/meta$i.json $D/agent_meta.json
  cp $S/confirm$i.txt $D/confirm.txt
  echo "$ID $i -> $D"
done
