#!/bin/bash
# run_seeded.sh <seeded_dir> [quick|thorough]  e.g. run_seeded.sh /verif/seeded/C03_1 quick
# Applies a kept seeded change to /repo, runs the property's check, and undoes it straight afterwards.
set -u
DIR="$1"; TIER="${2:-quick}"
ID=$(python3 -c "import json,sys;print(json.load(open('$DIR/meta.json'))['property'])")
cd /repo || exit 2
if [ -n "$(git status --porcelain --untracked-files=no)" ]; then echo "/repo is not clean" >&2; exit 2; fi
git apply "$DIR/patch.diff" || exit 2
cd /verif
start=$(date +%s)
./run.sh "$ID" "$TIER" > "$DIR/last_run_$TIER.log" 2>&1
rc=$?
end=$(date +%s)
git -C /repo checkout -- .
echo "$(basename $DIR) property=$ID tier=$TIER exit=$rc secs=$((end-start)) $(grep -m1 -E '^failure in' $DIR/last_run_$TIER.log | cut -c1-200)"
exit $rc
