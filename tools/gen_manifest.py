#!/usr/bin/env python3
"""Regenerates /verif/MANIFEST.json from the table below (one entry per claimed property)."""
import json, os, subprocess
V = os.path.dirname(os.path.dirname(os.path.abspath(__file__)))
props = [json.loads(l) for l in open(os.path.join(V, 'properties.jsonl'))]
listed = subprocess.run([os.path.join(V, 'harness/target/release/verif'), 'list'], capture_output=True, text=True).stdout.split('\n')
built = {l.split()[0]: l.split()[1] for l in listed if l.strip()}

TEXT = {
 'C01': ("Seeded generated-input search: canonical values of 20 consensus types are compared byte for byte with an independent reference encoder and round-tripped; layout-aware byte mutants of valid encodings must either be rejected or re-encode to exactly the input (which implies full consumption, one encoding per value and rejection of every non-canonical form); the eight named rejection classes are constructed on purpose; repository vectors anchor the reference.", "4 C01"),
 'C02': ("Seeded generated-input search with an independent SHA-256 and reference encoder: txid/wtxid/block hash equality on every generated shape plus every witness / non-witness single-field modification kind, each of which must leave / change the id; clear_witness checked for exactness and idempotence.", "4 C02"),
 'C03': ("Differential testing against an independent implementation of the three Elements sighash algorithms (anchored on the 20 pinned Elements Core vectors), on digests and exact signing messages, plus a metamorphic committed / not-committed table per (algorithm, hash type).", "4 C03"),
 'C11': ("Generated inputs over outpoints, contract hashes, nonces and amount kinds; the three representations (TxIn, PSET input, extracted transaction) and the AssetId constructors are compared with the harness's own derivation; JSON contracts are re-rendered with permuted keys / whitespace and, for the plain subset, hashed independently.", "4 C11"),
 'C12': ("Generated transactions and blocks with emphasised shapes; every size figure is compared with lengths of the independent reference encoding.", "4 C12"),
 'C13': ("Model-based testing over operation histories: one shared SighashCache against a fresh cache per query (and against the C03 reference), with witness_mut updates and One-vs-All probes interleaved.", "4 C13"),
 'C18': ("Complete enumeration of every leaf count up to the bound (with leaf-flip and leaf-swap perturbations) against the definitional level-by-level tree over the harness's own SHA-256 compression function, plus sampled counts up to 70000.", "4 C18"),
 'C19': ("Generated full / compact / null parameter sets and headers; both root implementations, the compact form and the header root are compared with the harness's two-level fast-merkle commitment; every single-parameter change must change the root.", "4 C19"),
}
NOTE = "Trusted base: secp256k1-zkp (curve points, proofs), the harness's reference implementations (self-tested at start-up against FIPS / repository / Elements Core vectors; a failing self-test is exit 2). Exploration is bounded by the case counts in the evidence file; it shows absence of violations only on what was generated."

checks = []
na = []
for p in props:
    pid = p['id']
    if pid in built and pid in TEXT:
        text, ref = TEXT[pid]
        checks.append({
            "property_id": pid,
            "quick_cmd": "./run.sh %s quick" % pid,
            "thorough_cmd": "./run.sh %s thorough" % pid,
            "evidence_file": "/verif/evidence/%s.json" % pid,
            "replay_cmd_template": "./run.sh %s replay {path}" % pid,
            "engine": "tape-pbt",
            "level_claimed": {"category": "exploration", "text": text, "design_ref": "DESIGN.md section " + ref},
            "level_note": NOTE,
            "technique": "property-based testing (proptest-driven byte tape, seeded, shrinking) against an independent reference / round-trip / metamorphic oracle; sub-checks: " + built[pid],
        })
    else:
        na.append({"property_id": pid, "reason": "check not yet built in this revision (in progress; PBT/fuzzing applies, see DESIGN.md)"})

m = {
 "version": 1,
 "setup_cmd": "./setup.sh",
 "hooks": {"guard": "--cfg elements_verif", "enable": "no hooks are needed: every property is observed through the public API; checks build /repo as a cargo path dependency of /verif/harness (rebuilt from the working tree on every run)",
           "baseline_off_cmd": "cd /repo && cargo test --workspace --no-fail-fast --offline", "source_commits": [], "add_only": True},
 "engines": [{"name": "tape-pbt", "path": "/verif/harness", "serves_properties": [c["property_id"] for c in checks],
              "kind_free_text": "Rust harness: proptest TestRunner over a byte tape (seeded by VERIF_SEED, 16 threads, shrinking), deterministic enumeration for finite families, panic/allocation guard, replay and evidence writer"}],
 "checks": checks,
 "not_applicable": na,
 "notes": "fix: commits in /repo and their reproducers are listed in /verif/known_findings.json; DESIGN.md describes each check.",
}
json.dump(m, open(os.path.join(V, 'MANIFEST.json'), 'w'), indent=1)
print("claimed:", [c["property_id"] for c in checks])
