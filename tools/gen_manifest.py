#!/usr/bin/env python3
"""Regenerates /verif/MANIFEST.json from the table below (one entry per claimed property)."""
import json, os, subprocess
V = os.path.dirname(os.path.dirname(os.path.abspath(__file__)))
props = [json.loads(l) for l in open(os.path.join(V, 'properties.jsonl'))]
listed = subprocess.run([os.path.join(V, 'harness/target/release/verif'), 'list'], capture_output=True, text=True).stdout.split('\n')
built = {l.split()[0]: l.split()[1] for l in listed if l.strip()}

TEXT = {
 'C01': ("Seeded generated-input search: canonical values of 20 consensus types are compared byte for byte with an independent reference encoder and round-tripped; layout-aware byte mutants of valid encodings must either be rejected or re-encode to exactly the input (which implies full consumption, one encoding per value and rejection of every non-canonical form); the eight named rejection classes are constructed on purpose; repository vectors anchor the reference; big values (long header fields, count ladders, every varint boundary enumerated), short-read / back-to-back decoding, library constructors.", "4 C01"),
 'C02': ("Seeded generated-input search with an independent SHA-256 and reference encoder: txid/wtxid/block hash equality on every generated shape plus every witness / non-witness single-field modification kind, each of which must leave / change the id; clear_witness checked for exactness and idempotence.", "4 C02"),
 'C03': ("Differential testing against an independent implementation of the three Elements sighash algorithms (anchored on the 20 pinned Elements Core vectors), on digests and exact signing messages, plus a metamorphic committed / not-committed table per (algorithm, hash type).", "4 C03"),
 'C04': ("Seeded generated-input search over balanced explicit transactions (asset mixes, confidential / explicit inputs, issuance pseudo-inputs, any non-empty marking, value magnitudes 1..2^60, blinder RNG from the tape); the oracle is the round trip the statement names: blind Ok, amount verification Ok, every marked output unblinds with the receiver key to the original secrets and the reported factors, which reproduce both commitments.", "4 C04"),
 'C05': ("Fault enumeration on generated verifying bases: every applicable position of every tamper class named by the statement must turn verification into an error (UtxoInputLenMismatch for a wrong count), plus a biconditional oracle (own per-asset balance, zero-value admissibility) on generated all-explicit transactions and exact-value / exact-asset proof negatives.", "4 C05"),
 'C06': ("Generated addresses over every payload kind, witness version, program length, blinder and network compared character for character with independent base58check / bech32(m) / blech32(m) encoders and round-tripped in both cases; 17 classes of near-valid strings built with the reference encoders are judged by an independent reference parser; every accepted string is checked for the payload invariant and for naming exactly one network.", "4 C06"),
 'C07': ("Generated well-formed PSETs over every optional field family round-trip through bytes and base64 (tap trees compared leaf by leaf, ELIP-100/102 accessors after a hop); raw key/value re-framings and byte mutants of valid encodings and of the repository vectors must either be rejected or satisfy the decode-encode fixpoint; duplicates, missing mandatory fields, count mismatches and invalid preimages must be rejected.", "4 C07"),
 'C08': ("Generated well-formed transactions through from_tx/extract_tx; generated PSETs against a field-by-field reference extraction; stateful histories of updater / signer / finalizer operations with the unique id compared after every step with the initial one and with the harness's unsigned-transaction id; complete enumeration of all 341 lock-time kind assignments against the BIP370 reference.", "4 C08"),
 'C09': ("Model-based testing over blinding histories: generated multi-party PSETs (1..4 parties, inter-party value flows, issuances), a tape-chosen permutation of the parties with a binary or base64 hop before every step, a second rotation of the same case; invariants after every step (scalar count) and at the end (scalars empty, fully blinded, amount verification, unblinding to the original secrets, stored exact-value / exact-asset proofs).", "4 C09"),
 'C10': ("Robustness fuzzing through the harness's panic / abort / memory-fault / allocation guard: 30 consensus decoders on random, mutated-valid, length-bomb and repository inputs with accessors applied to everything that decodes; text and slice parsers on mutated valid and random inputs; fallible operations on structurally valid but semantically arbitrary arguments; framing-aware PSET mutations (declared counts, pair operators), instruction-level scripts and pegin / pegout shapes, length bombs judged against the bound the decoder's own caps imply, serde deserializers of 30 types on token-level mutated JSON / CBOR documents. The oracle is 'returns' - any panic outside the documented conditions, abort, segfault or out-of-proportion allocation is a violation.", "4 C10"),
 'C11': ("Generated inputs over outpoints, contract hashes, nonces and amount kinds; the three representations (TxIn, PSET input, extracted transaction) and the AssetId constructors are compared with the harness's own derivation; JSON contracts are re-rendered with permuted keys / whitespace and, for the plain subset, hashed independently.", "4 C11"),
 'C12': ("Generated transactions and blocks with emphasised shapes; every size figure is compared with lengths of the independent reference encoding; big transactions / blocks with counts and lengths across every varint width.", "4 C12"),
 'C13': ("Model-based testing over operation histories: one shared SighashCache against a fresh cache per query (and against the C03 reference), with witness_mut updates and One-vs-All probes interleaved.", "4 C13"),
 'C14': ("Model-based testing over merge families: an ancestor PSET and 2..4 descendants built from a table of 62 id-neutral addition slots whose content is a function of the case seed (same slot => identical data, different key index => disjoint keys, collisions excluded by a family registry); oracles: merge Ok, id kept, every raw key/value pair of either operand present, commutativity, equality over orders / rotations / groupings, refusal of different ids (14 kinds of identity change), no panic for operands without a computable id, and the full table of xpub key-source relations in both orders.", "4 C14"),
 'C15': ("Complete enumeration of all 197 tree shapes up to 7 leaves and of every depth sequence of length <= 5 over depths 0..5 (with leaf/hidden masks), plus random trees up to 40 leaves with duplicates, hidden nodes, mutated histories and depth-limit chains, and Huffman weight vectors; oracles: independent merkle root / tweak / output key (P + t*G via point addition), control-block bytes, verification positives and ten negative mutations per leaf, acceptance iff valid DFS sequence, optimal Huffman cost and monotonicity.", "4 C15"),
 'C16': ("Generated builder programs against an independent builder / decoder / script-number model, and complete enumeration of every script of length 0..45 x first byte x second byte (three tail variants) plus perturbed exact templates for all witness versions and program lengths, against byte-form template predicates and an address-derivation model with script and text round trips.", "4 C16"),
 'C17': ("Complete enumeration of every one- and two-character replacement (data part incl. version character and checksum, and the human-readable part) for representative addresses of every checksum variant and length class, each of which must fail to parse under Address::from_str and under all three networks; fresh addresses are sampled with random corruptions.", "4 C17"),
 'C20': ("Generated values of every listed type (structural variety of C01 / C07) through three serde round trips (JSON text, serde_json::Value, CBOR) and through Display/FromStr; tap trees and PSETs additionally compared leaf by leaf.", "4 C20"),
 'C18': ("Complete enumeration of every leaf count up to the bound (with leaf-flip and leaf-swap perturbations) against the definitional level-by-level tree over the harness's own SHA-256 compression function, plus sampled counts up to 70000.", "4 C18"),
 'C19': ("Generated full / compact / null parameter sets and headers; both root implementations, the compact form and the header root are compared with the harness's two-level fast-merkle commitment; every single-parameter change must change the root.", "4 C19"),
}
NOTE = "Trusted base: secp256k1-zkp (curve points, proofs), the harness's reference implementations (self-tested at start-up against FIPS / repository / Elements Core vectors; a failing self-test is exit 2). Exploration is bounded by the case counts in the evidence file; it shows absence of violations only on what was generated."

checks = []
na = []
for p in props:
    pid = p['id']
    if pid in built and pid in TEXT:
        text, ref = TEXT[pid]
        checks.append({
            "property_id": pid,
            "quick_cmd": "./run.sh %s quick" % pid,
            "thorough_cmd": "./run.sh %s thorough" % pid,
            "evidence_file": "/verif/evidence/%s.json" % pid,
            "replay_cmd_template": "./run.sh %s replay {path}" % pid,
            "engine": "tape-pbt",
            "level_claimed": {"category": "exploration", "text": text, "design_ref": "DESIGN.md section " + ref},
            "level_note": NOTE,
            "technique": "property-based testing (proptest-driven byte tape, seeded, shrinking) against an independent reference / round-trip / metamorphic oracle; sub-checks: " + built[pid],
        })
    else:
        na.append({"property_id": pid, "reason": "check not yet built in this revision (in progress; PBT/fuzzing applies, see DESIGN.md)"})

m = {
 "version": 1,
 "setup_cmd": "./setup.sh",
 "hooks": {"guard": "--cfg elements_verif", "enable": "no hooks are needed: every property is observed through the public API; checks build /repo as a cargo path dependency of /verif/harness (rebuilt from the working tree on every run)",
           "baseline_off_cmd": "cd /repo && cargo test --workspace --no-fail-fast --offline", "source_commits": [], "add_only": True},
 "engines": [{"name": "tape-pbt", "path": "/verif/harness", "serves_properties": [c["property_id"] for c in checks],
              "kind_free_text": "Rust harness: proptest TestRunner over a byte tape (seeded by VERIF_SEED, 16 threads, shrinking), deterministic enumeration for finite families, panic/allocation guard, replay and evidence writer"}],
 "checks": checks,
 "not_applicable": na,
 "notes": "fix: commits in /repo and their reproducers are listed in /verif/known_findings.json; DESIGN.md describes each check.",
}
json.dump(m, open(os.path.join(V, 'MANIFEST.json'), 'w'), indent=1)
print("claimed:", [c["property_id"] for c in checks])
