#!/bin/bash
# import_seeded.sh <src_dir> <ID> <first_suffix>
# copies <src_dir>/<ID>/{patchI.diff,demoI.rs} (I = 1,2) to /verif/seeded/<ID>_<first_suffix + I - 1>/
# and records where they came from; tools/finalize_seeded.py then writes meta.json.
SRC="$1"; ID="$2"; FIRST="${3:-1}"
for i in 1 2; do
  S=$SRC/$ID
  [ -f $S/patch$i.diff ] || continue
  N=$((FIRST + i - 1))
  D=/verif/seeded/${ID}_$N
  mkdir -p $D
  cp $S/patch$i.diff $D/patch.diff
  cp $S/demo$i.rs $D/demo.rs
  echo "$S $i" > $D/.source
done
