#!/bin/bash
# import_seeded.sh <ID>: copies /tmp/seed_out/<ID>/{patchI.diff,demoI.rs,metaI.json} to /verif/seeded/<ID>_I/
ID="$1"
for i in 1 2; do
  S=/tmp/seed_out/$ID
  [ -f $S/patch$i.diff ] || continue
  D=/verif/seeded/${ID}_$i
  mkdir -p $D
  cp $S/patch$i.diff $D/patch.diff
  cp $S/demo$i.rs $D/demo.rs
  python3 - "$S/meta$i.json" "$D/meta.json" "$S/confirm$i.txt" <<'PY'
import json,sys,os
m=json.load(open(sys.argv[1]))
if os.path.exists(sys.argv[3]): m['confirmed_by_main_agent']=open(sys.argv[3]).read().strip().split('\n')
json.dump(m,open(sys.argv[2],'w'),indent=1)
PY
done
