#!/usr/bin/env python3
"""mutation_sweep.py <mutants.jsonl> <results.jsonl> [--workers N] [--threads T] [--tier quick]

For every mutant (tools/mutants.py gen): in a scratch worktree of /repo and a scratch copy of
/verif (both under /tmp/mut/w<k>, removed at the end) apply it, and

  1. cargo check            -> "nocompile"
  2. cargo test --lib (serde,base64), 300 s limit -> "killed_by_tests" / "tests_timeout"
  3. the quick check of every property whose anchors name the mutated file
       exit 1 + VIOLATION   -> detected by that property
       exit 0               -> missed by that property
       exit 2 / timeout     -> inconclusive (recorded)

One JSON line per mutant is appended to <results.jsonl>: {id, file, line, op, old, new, status,
detected_by: [...], missed_by: [...], inconclusive: [...], first_failure: {...}}.
Nothing is ever written to /repo or to /verif's tracked files.
"""
import json, os, subprocess, sys, threading, time, shutil, re

MUT = os.path.dirname(os.path.abspath(__file__)) + '/mutants.py'
ENV = dict(os.environ, CARGO_NET_OFFLINE='true')


def sh(cmd, cwd=None, timeout=None, env=None):
    try:
        p = subprocess.run(cmd, cwd=cwd, shell=isinstance(cmd, str), stdout=subprocess.PIPE, stderr=subprocess.STDOUT,
                           timeout=timeout, env=env or ENV, text=True, errors='replace')
        return p.returncode, p.stdout
    except subprocess.TimeoutExpired as e:
        # kill stragglers of this worker (cargo test children)
        return 124, (e.stdout or '') if isinstance(e.stdout, str) else ''


def setup_worker(k, verif_src):
    base = '/tmp/mut/w%d' % k
    if os.path.exists(base):
        subprocess.call(['git', '-C', '/repo', 'worktree', 'remove', '--force', base + '/repo'])
        shutil.rmtree(base, ignore_errors=True)
    os.makedirs(base)
    subprocess.check_call(['git', '-C', '/repo', 'worktree', 'add', '-q', '--detach', base + '/repo', 'HEAD'])
    subprocess.check_call(['rsync', '-a', '--exclude', 'target', '--exclude', '.git', '--exclude', 'seeded',
                           '--exclude', 'fuzz', verif_src + '/', base + '/verif/'])
    ct = base + '/verif/harness/Cargo.toml'
    s = open(ct).read().replace('path = "/repo"', 'path = "%s/repo"' % base)
    open(ct, 'w').write(s)
    rc, out = sh('cargo test --offline --lib --features serde,base64 --no-run', cwd=base + '/repo', timeout=1800)
    assert rc == 0, out[-2000:]
    rc, out = sh('./setup.sh', cwd=base + '/verif', timeout=1800)
    assert rc == 0, out[-2000:]
    return base


def teardown_worker(k):
    base = '/tmp/mut/w%d' % k
    subprocess.call(['git', '-C', '/repo', 'worktree', 'remove', '--force', base + '/repo'])
    shutil.rmtree(base, ignore_errors=True)


def run_mutant(base, m, threads, tier):
    repo = base + '/repo'
    res = dict(m)
    res.update(status=None, detected_by=[], missed_by=[], inconclusive=[], first_failure={})
    t0 = time.time()
    try:
        if 'patch' in m:
            # a seeded change (tools/seeded_sweep.sh): a patch file, already confirmed against the tests
            subprocess.check_call(['git', '-C', repo, 'apply', m['patch']])
        else:
            subprocess.check_call([sys.executable, MUT, 'apply', repo, json.dumps(m)])
        if m.get('skip_tests'):
            rc = 0
        else:
            rc, out = sh('cargo check --offline --lib --features serde,base64', cwd=repo, timeout=600)
        if rc != 0:
            res['status'] = 'nocompile'
            return res
        if m.get('skip_tests'):
            rc, out = 0, ''
        else:
            rc, out = sh('timeout -k 5 300 cargo test --offline --lib --features serde,base64', cwd=repo, timeout=900)
        if rc == 124:
            res['status'] = 'tests_timeout'
            return res
        if rc != 0:
            res['status'] = 'killed_by_tests'
            failed = re.findall(r'^test (\S+) \.\.\. FAILED', out, re.M)
            res['failed_tests'] = failed[:5]
            return res
        res['status'] = 'survived_tests'
        env = dict(ENV, VERIF_THREADS=str(threads))
        for pid in m['props']:
            rc, out = sh('timeout -k 5 900 ./run.sh %s %s' % (pid, tier), cwd=base + '/verif', timeout=1000, env=env)
            viol = re.search(r'^VIOLATION property=(\S+)', out, re.M)
            if rc == 1 and viol:
                res['detected_by'].append(pid)
                ff = re.search(r'^(failure in [^\n]{0,400}|regression replay [^\n]{0,400}|process stopped[^\n]{0,200})', out, re.M)
                res['first_failure'][pid] = ff.group(1) if ff else out[-300:]
                res.setdefault('violation_line', {})[pid] = viol.group(0)
            elif rc == 0:
                res['missed_by'].append(pid)
            else:
                res['inconclusive'].append(pid)
                res['first_failure'][pid] = 'rc=%d %s' % (rc, out[-300:])
        return res
    finally:
        subprocess.call(['git', '-C', repo, 'checkout', '--', '.'])
        res['secs'] = round(time.time() - t0, 1)


def main():
    mut_file, res_file = sys.argv[1], sys.argv[2]
    workers = int(sys.argv[sys.argv.index('--workers') + 1]) if '--workers' in sys.argv else 2
    threads = int(sys.argv[sys.argv.index('--threads') + 1]) if '--threads' in sys.argv else 8
    tier = sys.argv[sys.argv.index('--tier') + 1] if '--tier' in sys.argv else 'quick'
    verif_src = sys.argv[sys.argv.index('--verif') + 1] if '--verif' in sys.argv else '/verif'
    muts = [json.loads(l) for l in open(mut_file)]
    done = set()
    if os.path.exists(res_file):
        done = {json.loads(l)['id'] for l in open(res_file)}
    todo = [m for m in muts if m['id'] not in done]
    print('mutants: %d, already done: %d' % (len(muts), len(done)), flush=True)
    lock = threading.Lock()
    it = iter(todo)

    def worker(k):
        base = setup_worker(k, verif_src)
        try:
            while True:
                with lock:
                    m = next(it, None)
                if m is None:
                    break
                r = run_mutant(base, m, threads, tier)
                with lock:
                    with open(res_file, 'a') as fh:
                        fh.write(json.dumps(r) + '\n')
                    print('%s %s:%d %s -> %s det=%s miss=%s inc=%s %.0fs' % (r['id'], r.get('file'), r.get('line', 0), r.get('op'), r['status'],
                          ','.join(r['detected_by']), ','.join(r['missed_by']), ','.join(r['inconclusive']), r['secs']), flush=True)
        finally:
            teardown_worker(k)

    ts = [threading.Thread(target=worker, args=(k,)) for k in range(workers)]
    for t in ts:
        t.start()
    for t in ts:
        t.join()


if __name__ == '__main__':
    main()
