#!/usr/bin/env python3
"""Builds /verif/seeded/<ID>_<n>/meta.json from the breaker agent's meta, the main agent's
confirmation log and the last detection run."""
import json, os, re, glob
STRENGTHENED = {
 'C04_1': "missed by the first version of the check: the balanced-transaction generator only issued assets (never tokens only); generator extended with tokens-only issuances (gen/ct.rs)",
 'C05_2': "missed at first for the same reason as C04_1; same generator extension",
 'C07_1': "missed at first: tap-tree leaf scripts were always shorter than 253 bytes; generator now draws leaf scripts on both sides of the 0xfd boundary (gen/pset.rs)",
 'C17_1': "missed at first: the HRP replacement alphabet was the representative's own letter case only; alphabet extended to [a-zA-Z0-9-_.! ]",
 'C04_3': "round 2; missed at first: spent outputs were either fully explicit or fully blinded; the generator now also draws partially blinded spent outputs (confidential asset with explicit amount, explicit asset with confidential amount) (gen/ct.rs)",
 'C05_3': "round 2; missed at first: zero-value outputs were only placed on standard templates or on OP_RETURN / oversize / empty scripts; explicit_balance now also places them on scripts that merely cannot succeed (reserved or invalid first opcode, OP_RETURN not first, exactly 10000 bytes), which must be rejected",
 'C05_4': "round 2; missed at first: all verifying bases came from Transaction::blind (fully blinded outputs only); new sub-check tamper_hybrid builds bases from the zkp primitives with amount-only and asset-only blinded outputs",
 'C06_3': "round 2; missed at first: no near-valid class had a human-readable part containing the separator character; class hrp-containing-separator added to near_valid",
 'C19_2': "missed at first: extension spaces had at most 8 entries; generator now also draws 252/253/254/300 entries (gen/mod.rs)",
}
for d in sorted(glob.glob('/verif/seeded/C*_*')):
    name = os.path.basename(d)
    pid, n = name.split('_')
    rnd = 1 if int(n) <= 2 else (2 if int(n) <= 4 else (3 if int(n) <= 7 else 4))
    meta = {}
    if os.path.exists(d + '/agent_meta.json'):
        meta = json.load(open(d + '/agent_meta.json'))
    elif os.path.exists(d + '/meta.json'):
        meta = json.load(open(d + '/meta.json'))
    out = {
        "property": pid,
        "title": meta.get("title"),
        "files_changed": meta.get("files_changed"),
        "what_it_breaks": meta.get("what_it_breaks"),
        "needs_to_manifest": meta.get("needs_to_manifest"),
        "why_existing_tests_pass": meta.get("why_existing_tests_pass"),
        "kind": meta.get("kind"),
        "origin": "round %d: written by a fresh sub-agent that was given only the text of property %s and a scratch git worktree of /repo under /tmp (nothing from /verif)" % (rnd, pid),
    }
    conf = d + '/confirm.txt'
    if os.path.exists(conf):
        lines = [l.strip() for l in open(conf) if l.strip()]
        # de-duplicate (one confirmation was started twice)
        seen = []
        for l in lines:
            if l not in seen: seen.append(l)
        out["confirmed_by_main_agent"] = {"how": "tools/confirm_seeded.sh (round 3: tools/confirm3.sh) in a separate scratch worktree (removed afterwards): git apply --check; demo as tests/demo_seed.rs on HEAD; patch applied; cargo build (default and serde,base64); cargo test --lib (both feature sets); demo again", "result": seen}
    elif "confirmed_by_main_agent" in meta:
        out["confirmed_by_main_agent"] = meta["confirmed_by_main_agent"]
    old = json.load(open(d + '/meta.json')) if os.path.exists(d + '/meta.json') else {}
    for k in ('detection', 'history', 'confirmed_by_main_agent'):
        if k in old and k not in out:
            out[k] = old[k]
    log = d + '/last_run_quick.log'
    if os.path.exists(log):
        txt = open(log).read()
        viol = re.search(r'^VIOLATION .*$', txt, re.M)
        fail = re.search(r'^(failure in [^\n]{0,300}|regression replay [^\n]{0,300})', txt, re.M)
        out["detection"] = {"command": "tools/run_seeded.sh /verif/seeded/%s quick  (git -C /repo apply patch.diff; ./run.sh %s quick; git -C /repo checkout -- .)" % (name, pid),
                            "detected": bool(viol), "violation_line": viol.group(0) if viol else None,
                            "first_failure": fail.group(1) if fail else None}
    if name in STRENGTHENED:
        out["history"] = STRENGTHENED[name]
    json.dump(out, open(d + '/meta.json', 'w'), indent=1)
print("finalized", len(glob.glob('/verif/seeded/C*_*')))
