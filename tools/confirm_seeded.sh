#!/bin/bash
# confirm_seeded.sh <seed_out_dir> <ID> <i>
# Independently re-confirms a seeded change in a scratch worktree (outside /repo and /verif):
# the patch applies, builds, the library's tests pass with it, the demo fails with it and passes without.
set -u
OUT="$1"; ID="$2"; I="$3"
WT=/tmp/wt_confirm_$$
D="$OUT/$ID"
export CARGO_NET_OFFLINE=true
git -C /repo worktree add -q "$WT" HEAD || exit 2
res() { echo "$1" >> "$D/confirm$I.txt"; }
: > "$D/confirm$I.txt"
cd "$WT"
if ! git apply --check "$D/patch$I.diff" 2>/dev/null; then res "apply: FAIL"; git -C /repo worktree remove --force "$WT"; exit 1; fi
res "apply: ok"
cp "$D/demo$I.rs" tests/demo_seed.rs
if cargo test --offline --features serde,base64 --test demo_seed >/tmp/confirm_$$.log 2>&1; then res "demo on HEAD: pass"; else res "demo on HEAD: FAIL"; fi
git apply "$D/patch$I.diff"
if cargo build --offline >/dev/null 2>&1 && cargo build --offline --features serde,base64 >/dev/null 2>&1; then res "build with patch: ok"; else res "build with patch: FAIL"; fi
if cargo test --offline --lib >/tmp/confirm_$$.log 2>&1; then res "lib tests (default) with patch: pass ($(grep -c ' ... ok' /tmp/confirm_$$.log))"; else res "lib tests (default) with patch: FAIL"; fi
if cargo test --offline --lib --features serde,base64 >/tmp/confirm_$$.log 2>&1; then res "lib tests (serde,base64) with patch: pass ($(grep -c ' ... ok' /tmp/confirm_$$.log))"; else res "lib tests (serde,base64) with patch: FAIL"; fi
if cargo test --offline --features serde,base64 --test demo_seed >/tmp/confirm_$$.log 2>&1; then res "demo with patch: pass (NOT A BREAKING CHANGE)"; else res "demo with patch: fails (as required)"; fi
cd /
git -C /repo worktree remove --force "$WT"
rm -f /tmp/confirm_$$.log
cat "$D/confirm$I.txt"
