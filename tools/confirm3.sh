#!/bin/bash
# confirm3.sh <out_dir> <ID> <i>   (round 3 and later)
# Independently re-confirms a seeded change in a scratch worktree outside /repo and /verif (kept
# between calls for its build cache; remove with `confirm3.sh --cleanup`): the patch applies,
# builds, the library's tests pass with it, the demo passes without it and fails with it.
set -u
BASE=${CONFIRM_BASE:-/tmp/seed_confirm}
WT=$BASE/wt
if [ "${1:-}" = "--cleanup" ]; then
  git -C /repo worktree remove --force "$WT" 2>/dev/null; rm -rf "$BASE"; git -C /repo worktree prune; exit 0
fi
OUT="$1"; ID="$2"; I="$3"
D="$OUT/$ID"
export CARGO_NET_OFFLINE=true
export CARGO_TARGET_DIR=$BASE/target
mkdir -p $BASE
[ -d "$WT" ] || git -C /repo worktree add -q --detach "$WT" HEAD || exit 2
cd "$WT" || exit 2
git checkout -q -- . ; git clean -fdq tests src
res() { echo "$1" >> "$D/confirm$I.txt"; }
: > "$D/confirm$I.txt"
if ! git apply --check "$D/patch$I.diff" 2>/dev/null; then res "apply: FAIL"; cat "$D/confirm$I.txt"; exit 1; fi
res "apply: ok"
cp "$D/demo$I.rs" tests/demo_seed.rs
if timeout 1200 cargo test --offline --features serde,base64 --test demo_seed >$BASE/log.txt 2>&1; then res "demo on HEAD: pass"; else res "demo on HEAD: FAIL"; fi
git apply "$D/patch$I.diff"
if cargo build --offline >/dev/null 2>&1 && cargo build --offline --features serde,base64 >/dev/null 2>&1; then res "build with patch: ok"; else res "build with patch: FAIL"; fi
if timeout 1200 cargo test --offline --lib >$BASE/log.txt 2>&1; then res "lib tests (default) with patch: pass ($(grep -c ' ... ok' $BASE/log.txt))"; else res "lib tests (default) with patch: FAIL"; fi
if timeout 1200 cargo test --offline --lib --features serde,base64 >$BASE/log.txt 2>&1; then res "lib tests (serde,base64) with patch: pass ($(grep -c ' ... ok' $BASE/log.txt))"; else res "lib tests (serde,base64) with patch: FAIL"; fi
if timeout 1200 cargo test --offline --features serde,base64 --test demo_seed >$BASE/log.txt 2>&1; then res "demo with patch: pass (NOT A BREAKING CHANGE)"; else res "demo with patch: fails (as required)"; grep -m3 -E "panicked at|assertion" $BASE/log.txt | cut -c1-300 >> "$D/confirm$I.txt"; fi
git checkout -q -- . ; git clean -fdq tests src
cat "$D/confirm$I.txt"
