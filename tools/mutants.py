#!/usr/bin/env python3
"""Mechanical mutation sweep over the library sources named in the properties' anchors.

  mutants.py gen <repo> <out.jsonl> [--seed N] [--per-file K]
      enumerate single-line mutants of the non-test code of every anchor file, shuffle them
      deterministically and keep at most K per file
  mutants.py apply <repo> <mutant-json>      rewrite the line in <repo>
  mutants.py revert <repo> <mutant-json>     git checkout the file

A mutant is {id, file, line, op, old, new, props} where props = the properties whose anchors name
the file.  The sweep itself is tools/mutation_sweep.py.
"""
import json, os, re, sys, random, hashlib, collections, subprocess

PROPS = '/verif/properties.jsonl'

def file_props():
    m = collections.defaultdict(list)
    for l in open(PROPS):
        d = json.loads(l)
        for f in d['anchors']['files']:
            m[f].append(d['id'])
    return m

SKIP_LINE = re.compile(r'^\s*(//|#\[|#!\[|use |pub use |extern |mod |pub mod |\*|/\*)')
SKIP_CONTENT = re.compile(r'(write!|writeln!|format!|panic!|assert|unreachable!|unimplemented!|f\.write_str|'
                          r'"[^"]*"\s*=>|=>\s*"|\.expect\(|deprecated|f\.debug|fmt::|Formatter|todo!)')

REL = [(r'(?<![<>=!-])<=(?!=)', ' < '), (r'(?<![<>=!-])>=(?!=)', ' > '),
       (r'(?<![<>=!&|-])\s<\s(?![<=])', ' <= '), (r'(?<![<>=!&|-])\s>\s(?![>=])', ' >= '),
       (r'==', '!='), (r'!=', '==')]
ARITH = [(r'(?<![+\w])\s\+\s(?![+=])', ' - '), (r'(?<![-\w>])\s-\s(?![-=>])', ' + '),
         (r'\s\+=\s', ' -= '), (r'\s-=\s', ' += '), (r'\s\*\s(?![=*])', ' + '),
         (r'\s<<\s', ' >> '), (r'\s>>\s', ' << '), (r'\s\|\s(?!\|)', ' & '), (r'\s&\s(?!&)', ' | '),
         (r'\s\|=\s', ' &= '), (r'\s\^\s', ' | '), (r'\s%\s', ' / '), (r'\s/\s(?!/)', ' * ')]
BOOL = [(r'&&', '||'), (r'\|\|', '&&'), (r'\btrue\b', 'false'), (r'\bfalse\b', 'true')]


def mutations_of(line):
    """yield (op, new_line)"""
    code = line.split('//')[0] if '//' in line and '"' not in line else line
    # relational / arithmetic / boolean operator replacement (every occurrence separately)
    for name, table in (('rel', REL), ('arith', ARITH), ('bool', BOOL)):
        for pat, rep in table:
            for m in re.finditer(pat, code):
                new = code[:m.start()] + rep + code[m.end():]
                yield (name + ':' + m.group(0).strip() + '->' + rep.strip(), new + line[len(code):])
    # integer literal tweaks
    for m in re.finditer(r'(?<![\w.])(0x[0-9a-fA-F_]+|\d[\d_]*)(?![\w.]*\w)', code):
        tok = m.group(1)
        try:
            v = int(tok.replace('_', ''), 0)
        except ValueError:
            continue
        for nv in {v + 1, v - 1 if v > 0 else 1, 0 if v > 1 else 2}:
            if nv == v or nv < 0:
                continue
            ns = hex(nv) if tok.startswith('0x') else str(nv)
            yield ('const:%s->%s' % (tok, ns), code[:m.start(1)] + ns + code[m.end(1):] + line[len(code):])
    # negate an if / while condition, force a branch
    m = re.match(r'^(\s*)(\}?\s*(?:else\s+)?if\s+)(?!let\b)(.+?)(\s*\{\s*)$', code)
    if m:
        yield ('cond:negate', '%s%s!(%s)%s' % (m.group(1), m.group(2), m.group(3), m.group(4)))
        yield ('cond:false', '%s%sfalse && (%s)%s' % (m.group(1), m.group(2), m.group(3), m.group(4)))
        yield ('cond:true', '%s%strue || (%s)%s' % (m.group(1), m.group(2), m.group(3), m.group(4)))
    # delete a whole statement line (calls / assignments ending in ';' that do not bind with let / return)
    st = code.strip()
    if st.endswith(';') and not re.match(r'^(let |return|break|continue|pub |const |static |type |fn |impl |\}|use )', st) \
            and st.count('(') == st.count(')') and st.count('{') == st.count('}'):
        yield ('stmt:delete', re.match(r'^\s*', code).group(0) + '();' + ' // ' + st)
    # method swaps that are type-compatible
    for a, b in (('.min(', '.max('), ('.max(', '.min('), ('.is_some()', '.is_none()'), ('.is_none()', '.is_some()'),
                 ('.is_empty()', '.is_empty() == false'), ('.first()', '.last()'), ('.last()', '.first()'),
                 ('saturating_sub', 'wrapping_sub'), ('checked_add', 'checked_sub'), ('.rev()', ''),
                 ('to_le_bytes', 'to_be_bytes'), ('from_le_bytes', 'from_be_bytes'), ('.iter().skip(1)', '.iter()'),
                 ('.any(', '.all('), ('.all(', '.any('), ('.and_then(', '.or_else(|| None).and_then('),
                 ('sort_unstable', 'reverse'), ('.sort()', '.reverse()'), ('Some(', 'None.or(Some('),
                 ('.0', '.1'), ('.1', '.0')):
        idx = code.find(a)
        while idx != -1:
            if a in ('.0', '.1'):
                # only tuple field access, not float / version literals
                after = code[idx + 2:idx + 3]
                before = code[idx - 1:idx]
                if after.isalnum() or after == '_' or not (before.isalnum() or before in ')_]'):
                    idx = code.find(a, idx + 1)
                    continue
            yield ('swap:%s->%s' % (a, b), code[:idx] + b + code[idx + len(a):] + line[len(code):])
            idx = code.find(a, idx + 1)


def non_test_range(lines):
    """index of the first line of the trailing #[cfg(test)] module (or len)"""
    for i, l in enumerate(lines):
        if l.strip() == '#[cfg(test)]' and i + 1 < len(lines) and re.match(r'\s*(pub\s+)?mod\s+\w+', lines[i + 1]):
            if l.startswith('#'):        # top-level test module
                return i
    return len(lines)


def gen(repo, out, seed, per_file):
    fp = file_props()
    rng = random.Random(seed)
    allm = []
    for f in sorted(fp):
        path = os.path.join(repo, f)
        if not os.path.exists(path):
            continue
        lines = open(path).read().split('\n')
        end = non_test_range(lines)
        cands = []
        in_test_fn = False
        for i in range(end):
            l = lines[i]
            if SKIP_LINE.match(l) or SKIP_CONTENT.search(l) or not l.strip():
                continue
            seen = set()
            for op, new in mutations_of(l):
                if new == l or new in seen:
                    continue
                seen.add(new)
                cands.append({'file': f, 'line': i + 1, 'op': op, 'old': l, 'new': new, 'props': fp[f]})
        rng.shuffle(cands)
        # spread over lines: at most 2 mutants per line among the kept ones
        per_line = collections.Counter()
        kept = []
        for c in cands:
            if per_line[c['line']] >= 2:
                continue
            per_line[c['line']] += 1
            kept.append(c)
            if len(kept) >= per_file:
                break
        print('%-28s candidates=%5d kept=%4d' % (f, len(cands), len(kept)), file=sys.stderr)
        allm.extend(kept)
    rng.shuffle(allm)
    with open(out, 'w') as fh:
        for n, c in enumerate(allm):
            c['id'] = 'm%04d_%s' % (n, hashlib.sha1((c['file'] + str(c['line']) + c['new']).encode()).hexdigest()[:8])
            fh.write(json.dumps(c) + '\n')
    print('wrote', len(allm), 'mutants to', out, file=sys.stderr)


def apply(repo, m):
    path = os.path.join(repo, m['file'])
    lines = open(path).read().split('\n')
    if lines[m['line'] - 1] != m['old']:
        raise SystemExit('line mismatch in %s:%d' % (m['file'], m['line']))
    lines[m['line'] - 1] = m['new']
    open(path, 'w').write('\n'.join(lines))


def revert(repo, m):
    subprocess.check_call(['git', '-C', repo, 'checkout', '--', m['file']])


if __name__ == '__main__':
    cmd = sys.argv[1]
    if cmd == 'gen':
        repo, out = sys.argv[2], sys.argv[3]
        seed = int(sys.argv[sys.argv.index('--seed') + 1]) if '--seed' in sys.argv else 1
        per_file = int(sys.argv[sys.argv.index('--per-file') + 1]) if '--per-file' in sys.argv else 40
        gen(repo, out, seed, per_file)
    elif cmd in ('apply', 'revert'):
        m = json.loads(sys.argv[3])
        (apply if cmd == 'apply' else revert)(sys.argv[2], m)
