#!/bin/bash
# ./run.sh <ID> quick|thorough [sub]   |  ./run.sh <ID> replay <file>
# Rebuilds the harness (and with it `elements` from /repo's current working tree, a cargo
# path dependency), runs the check and maps the result to the exit-code contract:
#   0 property held on everything explored; 1 + "VIOLATION property=<id> replay=<path>";
#   2 inconclusive (build failure, watchdog, harness error) - never a violation.
set -u
ORIG_PWD="$(pwd)"
ROOT="$(cd "$(dirname "$0")" && pwd)"
export VERIF_ROOT="$ROOT"
cd "$ROOT/harness" || exit 2
export CARGO_NET_OFFLINE=true
ID="${1:-}"; MODE="${2:-quick}"; ARG="${3:-}"
[ -n "$ID" ] || { echo "usage: run.sh <ID> quick|thorough|replay [arg]" >&2; exit 2; }
mkdir -p $ROOT/replays $ROOT/evidence
LOG=$(mktemp $ROOT/harness/target/build.XXXXXX.log 2>/dev/null || mktemp)
if ! cargo build --release --offline >"$LOG" 2>&1; then
  echo "INCONCLUSIVE property=$ID harness or /repo does not build:" >&2
  grep -E "^error" -A8 "$LOG" | head -60 >&2
  rm -f "$LOG"
  exit 2
fi
rm -f "$LOG"
BIN=./target/release/verif
rm -f $ROOT/replays/emergency.json
case "$MODE" in
  quick|thorough)
    frc=0
    export VERIF_FUZZ_SUMMARY=""
    if [ "$MODE" = thorough ] && [ -x $ROOT/fuzz/run_fuzz.sh ] && [ -z "$ARG" ] && [ "${VERIF_NO_FUZZ:-0}" != 1 ]; then
      # coverage-guided campaigns first (same check functions behind libFuzzer targets)
      export VERIF_FUZZ_SUMMARY="$ROOT/fuzz/campaign_$ID.txt"
      $ROOT/fuzz/run_fuzz.sh "$ID" | tee "$VERIF_FUZZ_SUMMARY"
      frc=${PIPESTATUS[0]}
      [ $frc -eq 1 ] && exit 1
    fi
    VERIF_TIER="$MODE" $BIN check "$ID" "$MODE" $ARG
    rc=$?
    [ $rc -eq 0 ] && [ $frc -eq 2 ] && rc=2
    ;;
  replay)
    case "$ARG" in /*) ;; *) ARG="$ORIG_PWD/$ARG";; esac
    $BIN replay "$ARG"
    rc=$?
    ;;
  *) echo "unknown mode $MODE" >&2; exit 2;;
esac
if [ $rc -eq 77 ] || [ $rc -eq 78 ] || [ $rc -eq 79 ]; then
  # the allocator guard (77), the SIGABRT handler (78) or the SIGSEGV/SIGBUS handler (79) stopped the
  # process on the current case
  dst="$ROOT/replays/${ID}_emergency_$$.json"
  mv $ROOT/replays/emergency.json "$dst" 2>/dev/null
  echo "process stopped by the allocation / abort / memory-fault guard (code $rc)"
  echo "VIOLATION property=$ID replay=$dst"
  exit 1
fi
if [ $rc -ne 0 ] && [ $rc -ne 1 ]; then
  echo "INCONCLUSIVE property=$ID exit=$rc" >&2
  exit 2
fi
exit $rc
