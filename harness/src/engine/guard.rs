//! Panic / abort / allocation guard.
//!
//! * a counting global allocator records, per guarded call, the largest single request and
//!   the peak of live bytes above the level at entry;
//! * `guard(len, f)` runs `f` under `catch_unwind` and turns a panic or an out-of-proportion
//!   allocation into a `Failure`;
//! * a request above `HARD_LIMIT` (which could take the process down) writes the current case
//!   to `/verif/replays/` with raw `libc::write` and `_exit(77)`s; SIGABRT does the same with 78.

use std::alloc::{GlobalAlloc, Layout, System};
use std::cell::{Cell, RefCell};
use std::panic::{self, AssertUnwindSafe};
use std::sync::atomic::{AtomicBool, AtomicPtr, AtomicUsize, Ordering};
use std::sync::Once;

use super::Failure;

pub const SINGLE_LIMIT: usize = 64 << 20;
pub const LIVE_BASE_LIMIT: usize = 128 << 20;
pub const HARD_LIMIT: usize = 1 << 30;

thread_local! {
    /// (tape ptr, tape len, label ptr, label len) of the case this thread is executing
    static TLS_CUR: Cell<(usize, usize, usize, usize)> = const { Cell::new((0, 0, 0, 0)) };
    static ACTIVE: Cell<bool> = const { Cell::new(false) };
    static MAX_REQ: Cell<usize> = const { Cell::new(0) };
    static LIVE: Cell<isize> = const { Cell::new(0) };
    static PEAK: Cell<isize> = const { Cell::new(0) };
    static QUIET: Cell<bool> = const { Cell::new(false) };
    static PANIC_INFO: RefCell<Option<(String, String)>> = const { RefCell::new(None) };
}

// Emergency record of "the case currently executing" (best effort; one slot per process is
// enough because an emergency ends the process).
static CUR_PTR: AtomicPtr<u8> = AtomicPtr::new(std::ptr::null_mut());
static CUR_LEN: AtomicUsize = AtomicUsize::new(0);
static CUR_LABEL_PTR: AtomicPtr<u8> = AtomicPtr::new(std::ptr::null_mut());
static CUR_LABEL_LEN: AtomicUsize = AtomicUsize::new(0);
static IN_EMERGENCY: AtomicBool = AtomicBool::new(false);
static PROP_PTR: AtomicPtr<u8> = AtomicPtr::new(std::ptr::null_mut());
static PROP_LEN: AtomicUsize = AtomicUsize::new(0);
/// NUL-terminated path of the emergency replay file (leaked at init; read from signal handlers)
static EMERGENCY_PATH: AtomicPtr<u8> = AtomicPtr::new(std::ptr::null_mut());

/// name of the property being checked (for the emergency replay file)
pub fn set_property(id: &'static str) {
    PROP_PTR.store(id.as_ptr() as *mut u8, Ordering::SeqCst);
    PROP_LEN.store(id.len(), Ordering::SeqCst);
}

pub struct CountingAlloc;

#[inline]
fn note_alloc(size: usize) {
    // try_with: TLS may be gone during thread teardown
    let _ = ACTIVE.try_with(|a| {
        if a.get() {
            if size > HARD_LIMIT {
                emergency(77, size);
            }
            MAX_REQ.with(|m| {
                if size > m.get() {
                    m.set(size)
                }
            });
            LIVE.with(|l| {
                let v = l.get() + size as isize;
                l.set(v);
                PEAK.with(|p| {
                    if v > p.get() {
                        p.set(v)
                    }
                });
            });
        }
    });
}
#[inline]
fn note_dealloc(size: usize) {
    let _ = ACTIVE.try_with(|a| {
        if a.get() {
            LIVE.with(|l| l.set(l.get() - size as isize));
        }
    });
}

unsafe impl GlobalAlloc for CountingAlloc {
    unsafe fn alloc(&self, layout: Layout) -> *mut u8 {
        note_alloc(layout.size());
        System.alloc(layout)
    }
    unsafe fn alloc_zeroed(&self, layout: Layout) -> *mut u8 {
        note_alloc(layout.size());
        System.alloc_zeroed(layout)
    }
    unsafe fn dealloc(&self, ptr: *mut u8, layout: Layout) {
        note_dealloc(layout.size());
        System.dealloc(ptr, layout)
    }
    unsafe fn realloc(&self, ptr: *mut u8, layout: Layout, new_size: usize) -> *mut u8 {
        note_dealloc(layout.size());
        note_alloc(new_size);
        System.realloc(ptr, layout, new_size)
    }
}

fn raw_write(fd: i32, b: &[u8]) {
    unsafe {
        libc::write(fd, b.as_ptr() as *const libc::c_void, b.len());
    }
}

fn write_usize(fd: i32, mut v: usize) {
    let mut buf = [0u8; 24];
    let mut i = buf.len();
    if v == 0 {
        i -= 1;
        buf[i] = b'0';
    }
    while v > 0 {
        i -= 1;
        buf[i] = b'0' + (v % 10) as u8;
        v /= 10;
    }
    raw_write(fd, &buf[i..]);
}

/// Write the current case with raw syscalls and leave the process.
fn emergency(code: i32, size: usize) -> ! {
    if IN_EMERGENCY.swap(true, Ordering::SeqCst) {
        unsafe { libc::_exit(code) }
    }
    unsafe {
        let path = EMERGENCY_PATH.load(Ordering::SeqCst);
        let fd = libc::open(
            if path.is_null() { b"/verif/replays/emergency.json\0".as_ptr() as *const libc::c_char } else { path as *const libc::c_char },
            libc::O_WRONLY | libc::O_CREAT | libc::O_TRUNC,
            0o644,
        );
        for &f in &[fd, 2] {
            if f < 0 {
                continue;
            }
            raw_write(f, b"{\"emergency\":");
            write_usize(f, code as usize);
            raw_write(f, b",\"request_bytes\":");
            write_usize(f, size);
            raw_write(f, b",\"kind\":\"tape\",\"property\":\"");
            let pp = PROP_PTR.load(Ordering::SeqCst);
            if !pp.is_null() {
                raw_write(f, std::slice::from_raw_parts(pp, PROP_LEN.load(Ordering::SeqCst)));
            }
            raw_write(f, b"\",\"sub\":\"");
            // prefer the faulting thread's own record
            let (tp, tl, tlp, tll) = TLS_CUR.try_with(|c| c.get()).unwrap_or((0, 0, 0, 0));
            let (lp, ll) = if tlp != 0 { (tlp as *mut u8, tll) } else { (CUR_LABEL_PTR.load(Ordering::SeqCst), CUR_LABEL_LEN.load(Ordering::SeqCst)) };
            if !lp.is_null() {
                raw_write(f, std::slice::from_raw_parts(lp, ll));
            }
            raw_write(f, b"\",\"tape_hex\":\"");
            let (p, l) = if tp != 0 { (tp as *mut u8, tl) } else { (CUR_PTR.load(Ordering::SeqCst), CUR_LEN.load(Ordering::SeqCst)) };
            if !p.is_null() {
                let s = std::slice::from_raw_parts(p, l);
                const HEX: &[u8; 16] = b"0123456789abcdef";
                for b in s {
                    raw_write(f, &[HEX[(b >> 4) as usize], HEX[(b & 15) as usize]]);
                }
            }
            raw_write(f, b"\"}\n");
        }
        if fd >= 0 {
            libc::close(fd);
        }
        libc::_exit(code)
    }
}

extern "C" fn on_abort(_sig: i32) {
    emergency(78, 0)
}
extern "C" fn on_segv(_sig: i32) {
    emergency(79, 0)
}

/// Register the case about to run (for the emergency record). The slices must outlive the case.
pub fn set_current(label: &'static str, tape: &[u8]) {
    TLS_CUR.with(|c| c.set((tape.as_ptr() as usize, tape.len(), label.as_ptr() as usize, label.len())));
    CUR_LABEL_PTR.store(label.as_ptr() as *mut u8, Ordering::SeqCst);
    CUR_LABEL_LEN.store(label.len(), Ordering::SeqCst);
    CUR_PTR.store(tape.as_ptr() as *mut u8, Ordering::SeqCst);
    CUR_LEN.store(tape.len(), Ordering::SeqCst);
}
pub fn clear_current() {
    TLS_CUR.with(|c| c.set((0, 0, 0, 0)));
    CUR_PTR.store(std::ptr::null_mut(), Ordering::SeqCst);
    CUR_LEN.store(0, Ordering::SeqCst);
}

static INIT: Once = Once::new();

/// Install the panic hook (records message + location, silent while a case runs) and the
/// SIGABRT handler.
pub fn init() {
    INIT.call_once(|| {
        let mut path = format!("{}/replays/emergency.json", super::verif_dir()).into_bytes();
        path.push(0);
        EMERGENCY_PATH.store(Box::leak(path.into_boxed_slice()).as_mut_ptr(), Ordering::SeqCst);
        let default = panic::take_hook();
        panic::set_hook(Box::new(move |info| {
            let msg = if let Some(s) = info.payload().downcast_ref::<&str>() {
                (*s).to_string()
            } else if let Some(s) = info.payload().downcast_ref::<String>() {
                s.clone()
            } else {
                "<non-string panic payload>".to_string()
            };
            let loc = info
                .location()
                .map(|l| format!("{}:{}:{}", l.file(), l.line(), l.column()))
                .unwrap_or_else(|| "<unknown>".into());
            let quiet = QUIET.with(|q| q.get());
            PANIC_INFO.with(|p| *p.borrow_mut() = Some((msg, loc)));
            if !quiet {
                default(info);
            }
        }));
        unsafe {
            libc::signal(libc::SIGABRT, on_abort as *const () as usize);
            // memory faults inside the code under test (e.g. an FFI call with a bad pointer): record the
            // case and leave with code 79. SA_ONSTACK: use the alternate stacks std set up per thread.
            let mut sa: libc::sigaction = std::mem::zeroed();
            sa.sa_sigaction = on_segv as *const () as usize;
            sa.sa_flags = libc::SA_ONSTACK;
            libc::sigemptyset(&mut sa.sa_mask);
            libc::sigaction(libc::SIGSEGV, &sa, std::ptr::null_mut());
            libc::sigaction(libc::SIGBUS, &sa, std::ptr::null_mut());
        }
    });
}

pub fn set_quiet(q: bool) {
    QUIET.with(|c| c.set(q));
}

pub fn take_panic_info() -> Option<(String, String)> {
    PANIC_INFO.with(|p| p.borrow_mut().take())
}

/// True when the location string points into the harness itself rather than the code under test
pub fn location_is_harness(loc: &str) -> bool {
    loc.starts_with("src/") || loc.contains("/verif/harness/")
}

/// Run `f` (a call into the library under test) guarded. `input_len` scales the allocation bound.
pub fn guard<T>(what: &str, input_len: usize, f: impl FnOnce() -> T) -> Result<T, Failure> {
    let nested = ACTIVE.with(|a| a.replace(true));
    if !nested {
        MAX_REQ.with(|m| m.set(0));
        LIVE.with(|l| l.set(0));
        PEAK.with(|p| p.set(0));
    }
    let r = panic::catch_unwind(AssertUnwindSafe(f));
    let max_req = MAX_REQ.with(|m| m.get());
    let peak = PEAK.with(|p| p.get());
    if !nested {
        ACTIVE.with(|a| a.set(false));
    }
    match r {
        Err(_) => {
            let (msg, loc) = take_panic_info().unwrap_or(("<no info>".into(), "<unknown>".into()));
            Err(Failure::panic(format!("{}: panic `{}` at {}", what, msg, loc), loc))
        }
        Ok(v) => {
            if nested {
                return Ok(v);
            }
            let live_limit = LIVE_BASE_LIMIT + 64 * input_len;
            if max_req > SINGLE_LIMIT {
                Err(Failure::new(format!(
                    "{}: single allocation request of {} bytes for an input of {} bytes",
                    what, max_req, input_len
                )))
            } else if peak > live_limit as isize {
                Err(Failure::new(format!(
                    "{}: live heap grew by {} bytes for an input of {} bytes",
                    what, peak, input_len
                )))
            } else {
                Ok(v)
            }
        }
    }
}

/// (largest single allocation request, peak live growth) recorded during the most recent outermost
/// `guard` call of this thread. Lets a check apply a bound tighter than `SINGLE_LIMIT` where the
/// legal maximum of the code under test is known (C10 `alloc_caps`, `serde_inputs`).
pub fn last_alloc_stats() -> (usize, isize) {
    (MAX_REQ.with(|m| m.get()), PEAK.with(|p| p.get()))
}
