//! Engine: tape runner (proptest-driven, seeded, shrinking), parallel driver, indexed
//! (exhaustive) runner, replay, evidence writer, known-findings handling.

pub mod guard;
pub mod tape;

use std::cell::Cell;
use std::collections::{BTreeMap, HashSet};
use std::hash::{Hash, Hasher};
use std::panic::{self, AssertUnwindSafe};
use std::sync::atomic::{AtomicBool, Ordering};
use std::sync::Arc;
use std::time::Instant;

use proptest::collection::vec;
use proptest::prelude::any;
use proptest::test_runner::{Config, RngAlgorithm, TestCaseError, TestError, TestRng, TestRunner};
use serde_json::{json, Value};

pub use tape::Tape;

/// root of the verification tree (corpus, known findings, replays, evidence): `/verif`, or the
/// directory named by `VERIF_ROOT` (set by run.sh to its own directory, so that a snapshot of
/// /verif started with `vp run` keeps its output to itself)
pub fn verif_dir() -> &'static str {
    static DIR: std::sync::OnceLock<String> = std::sync::OnceLock::new();
    DIR.get_or_init(|| match std::env::var("VERIF_ROOT") {
        Ok(d) if !d.is_empty() => d,
        _ => "/verif".to_string(),
    })
}

#[derive(Debug, Clone)]
pub struct Failure {
    pub msg: String,
    /// Some(location) when the failure is a panic
    pub panic_loc: Option<String>,
}

/// cap the length of failure messages (values and encodings can be large)
pub fn clip(mut s: String) -> String {
    const MAX: usize = 1800;
    if s.len() > MAX {
        let mut cut = MAX;
        while !s.is_char_boundary(cut) {
            cut -= 1;
        }
        let total = s.len();
        s.truncate(cut);
        s.push_str(&format!("... [{} bytes of message clipped]", total - cut));
    }
    s
}

impl Failure {
    pub fn new(msg: impl Into<String>) -> Self {
        Failure { msg: clip(msg.into()), panic_loc: None }
    }
    pub fn panic(msg: String, loc: String) -> Self {
        Failure { msg, panic_loc: Some(loc) }
    }
}

pub type R = Result<(), Failure>;

#[macro_export]
macro_rules! fail {
    ($($arg:tt)*) => { return Err($crate::engine::Failure::new(format!($($arg)*))) };
}
#[macro_export]
macro_rules! ensure {
    ($cond:expr, $($arg:tt)*) => { if !($cond) { return Err($crate::engine::Failure::new(format!($($arg)*))); } };
}
#[macro_export]
macro_rules! ensure_eq {
    ($a:expr, $b:expr, $($arg:tt)*) => {{
        let (a, b) = (&$a, &$b);
        if a != b {
            return Err($crate::engine::Failure::new(format!("{}: left={:?} right={:?}", format!($($arg)*), a, b)));
        }
    }};
}

#[derive(Clone, Copy, PartialEq, Eq, Debug)]
pub enum Tier {
    Quick,
    Thorough,
}
impl Tier {
    pub fn name(self) -> &'static str {
        match self {
            Tier::Quick => "quick",
            Tier::Thorough => "thorough",
        }
    }
    pub fn pick<T>(self, q: T, t: T) -> T {
        match self {
            Tier::Quick => q,
            Tier::Thorough => t,
        }
    }
}

/// Per-thread statistics collector handed to every check.
pub struct Ctx {
    pub tier: Tier,
    counting: bool,
    pub evals: u64,
    nontrivial: HashSet<u64>,
    classes: BTreeMap<String, u64>,
    samples: BTreeMap<String, Vec<Value>>,
    known_hits: BTreeMap<String, u64>,
    known_active: Arc<HashSet<String>>,
    pub excluded: u64,
}

impl Ctx {
    pub fn new(tier: Tier, known_active: Arc<HashSet<String>>) -> Self {
        Ctx {
            tier,
            counting: true,
            evals: 0,
            nontrivial: HashSet::new(),
            classes: BTreeMap::new(),
            samples: BTreeMap::new(),
            known_hits: BTreeMap::new(),
            known_active,
            excluded: 0,
        }
    }
    /// one oracle evaluation executed
    pub fn eval(&mut self) {
        if self.counting {
            self.evals += 1;
        }
    }
    pub fn evals_n(&mut self, n: u64) {
        if self.counting {
            self.evals += n;
        }
    }
    /// count a case in a class of the histogram
    pub fn class(&mut self, name: &str) {
        if self.counting {
            *self.classes.entry(name.to_string()).or_insert(0) += 1;
        }
    }
    pub fn class_n(&mut self, name: &str, n: u64) {
        if self.counting {
            *self.classes.entry(name.to_string()).or_insert(0) += n;
        }
    }
    /// register a non-trivial case by the hash of its structural signature
    pub fn nontrivial<H: Hash>(&mut self, sig: &H) {
        if self.counting {
            let mut h = std::collections::hash_map::DefaultHasher::new();
            sig.hash(&mut h);
            if self.nontrivial.len() < 4_000_000 {
                self.nontrivial.insert(h.finish());
            }
        }
    }
    /// keep up to two rendered samples per class
    pub fn sample(&mut self, class: &str, f: impl FnOnce() -> Value) {
        if self.counting {
            if self.samples.len() >= 24 && !self.samples.contains_key(class) {
                return;
            }
            let e = self.samples.entry(class.to_string()).or_default();
            if e.len() < 2 {
                e.push(f());
            }
        }
    }
    pub fn wants_sample(&self, class: &str) -> bool {
        self.counting && self.samples.get(class).map_or(true, |v| v.len() < 2)
    }
    /// Is `key` listed as a *known* (recorded, not fixed) finding? Checks call this to decide
    /// whether a failure matching that finding's signature is to be suppressed (and counted).
    pub fn is_known(&mut self, key: &str) -> bool {
        if self.known_active.contains(key) {
            if self.counting {
                *self.known_hits.entry(key.to_string()).or_insert(0) += 1;
            }
            true
        } else {
            false
        }
    }
    pub fn exclude(&mut self) {
        if self.counting {
            self.excluded += 1;
        }
    }
    fn merge(&mut self, o: Ctx) {
        self.evals += o.evals;
        self.excluded += o.excluded;
        self.nontrivial.extend(o.nontrivial);
        for (k, v) in o.classes {
            *self.classes.entry(k).or_insert(0) += v;
        }
        for (k, v) in o.known_hits {
            *self.known_hits.entry(k).or_insert(0) += v;
        }
        for (k, v) in o.samples {
            let e = self.samples.entry(k).or_default();
            for s in v {
                if e.len() < 2 {
                    e.push(s);
                }
            }
        }
    }
}

pub type TapeFn = fn(&mut Tape, &mut Ctx) -> R;
pub type IndexFn = fn(u64, u64, &mut Ctx) -> R;

pub enum Kind {
    /// generated search: proptest drives a byte tape, shrinks on failure
    Tape { max_len: usize, quick: u64, thorough: u64, f: TapeFn },
    /// deterministic enumeration of a finite family: f(index, seed, ctx) for index in 0..count(tier)
    Index { count: fn(Tier) -> u64, exhaustive: bool, f: IndexFn },
}

pub struct Sub {
    pub name: &'static str,
    pub kind: Kind,
}

pub struct Known {
    pub key: &'static str,
    pub what: &'static str,
    /// canonical reproducer: true iff the defect is still present
    pub repro: fn() -> bool,
}

pub struct Property {
    pub id: &'static str,
    pub rule: &'static str,
    pub assumptions: &'static [&'static str],
    pub subs: Vec<Sub>,
    pub known: Vec<Known>,
}

pub fn splitmix(mut x: u64) -> u64 {
    x = x.wrapping_add(0x9E37_79B9_7F4A_7C15);
    let mut z = x;
    z = (z ^ (z >> 30)).wrapping_mul(0xBF58_476D_1CE4_E5B9);
    z = (z ^ (z >> 27)).wrapping_mul(0x94D0_49BB_1331_11EB);
    z ^ (z >> 31)
}
pub fn mix(seed: u64, a: u64, b: u64) -> u64 {
    splitmix(splitmix(seed ^ splitmix(a)) ^ splitmix(b.wrapping_mul(0x1234_5678_9abc_def1)))
}
/// deterministic pseudo-random bytes for indexed checks
pub fn seeded_bytes(seed: u64, index: u64, n: usize) -> Vec<u8> {
    let mut out = Vec::with_capacity(n + 8);
    let mut s = mix(seed, index, 0x51ed);
    while out.len() < n {
        s = splitmix(s);
        out.extend_from_slice(&s.to_le_bytes());
    }
    out.truncate(n);
    out
}

pub fn hex(b: &[u8]) -> String {
    let mut s = String::with_capacity(b.len() * 2);
    for x in b {
        s.push_str(&format!("{:02x}", x));
    }
    s
}
pub fn unhex(s: &str) -> Option<Vec<u8>> {
    let s = s.trim();
    if s.len() % 2 != 0 {
        return None;
    }
    (0..s.len() / 2).map(|i| u8::from_str_radix(&s[2 * i..2 * i + 2], 16).ok()).collect()
}

fn threads() -> usize {
    std::env::var("VERIF_THREADS").ok().and_then(|v| v.parse().ok()).unwrap_or(16).max(1)
}

/// Result of running one case with full isolation.
fn run_tape_case(f: TapeFn, label: &'static str, tape: &[u8], ctx: &mut Ctx) -> R {
    guard::set_current(label, tape);
    guard::set_quiet(true);
    let r = panic::catch_unwind(AssertUnwindSafe(|| {
        let mut t = Tape::new(tape);
        f(&mut t, ctx)
    }));
    guard::set_quiet(false);
    guard::clear_current();
    match r {
        Ok(r) => r,
        Err(_) => {
            let (msg, loc) = guard::take_panic_info().unwrap_or(("<no info>".into(), "<unknown>".into()));
            Err(Failure::panic(format!("panic `{}` at {}", msg, loc), loc))
        }
    }
}
fn run_index_case(f: IndexFn, label: &'static str, idx: u64, seed: u64, ctx: &mut Ctx) -> R {
    let tag = idx.to_le_bytes();
    guard::set_current(label, &tag);
    guard::set_quiet(true);
    let r = panic::catch_unwind(AssertUnwindSafe(|| f(idx, seed, ctx)));
    guard::set_quiet(false);
    guard::clear_current();
    match r {
        Ok(r) => r,
        Err(_) => {
            let (msg, loc) = guard::take_panic_info().unwrap_or(("<no info>".into(), "<unknown>".into()));
            Err(Failure::panic(format!("panic `{}` at {}", msg, loc), loc))
        }
    }
}

pub struct Violation {
    pub sub: &'static str,
    pub replay: Value,
    pub failure: Failure,
}

struct SubReport {
    name: &'static str,
    kind: &'static str,
    cases: u64,
    evals: u64,
    exhaustive: bool,
    wall_s: f64,
}

fn run_tape_sub(
    prop: &'static str,
    sub: &'static str,
    f: TapeFn,
    max_len: usize,
    cases: u64,
    seed: u64,
    tier: Tier,
    known: &Arc<HashSet<String>>,
) -> (Ctx, u64, Option<Violation>) {
    let nthreads = threads().min(cases.max(1) as usize);
    let stop = Arc::new(AtomicBool::new(false));
    let sub_tag = sub.bytes().fold(0u64, |a, b| a.wrapping_mul(131).wrapping_add(b as u64));
    let mut handles = Vec::new();
    for ti in 0..nthreads {
        let stop = stop.clone();
        let known = known.clone();
        let per = cases / nthreads as u64 + u64::from((ti as u64) < cases % nthreads as u64);
        handles.push(std::thread::Builder::new().stack_size(64 << 20).spawn(move || {
            let mut ctx = Ctx::new(tier, known);
            let tseed = mix(seed, sub_tag, ti as u64);
            let mut seed_bytes = [0u8; 32];
            for i in 0..4 {
                seed_bytes[i * 8..i * 8 + 8].copy_from_slice(&splitmix(tseed.wrapping_add(i as u64)).to_le_bytes());
            }
            let rng = TestRng::from_seed(RngAlgorithm::ChaCha, &seed_bytes);
            let cfg = Config {
                cases: per as u32,
                failure_persistence: None,
                // slow (crypto-heavy) sub-checks get a smaller shrinking budget
                max_shrink_iters: if cases <= 5_000 { 400 } else { 3000 },
                max_local_rejects: 0,
                max_global_rejects: 0,
                ..Config::default()
            };
            let mut runner = TestRunner::new_with_rng(cfg, rng);
            let failed = Cell::new(false);
            let executed = Cell::new(0u64);
            let ctx_cell = std::cell::RefCell::new(&mut ctx);
            // the case that ran just before the first failing one on this thread, and the first failure itself:
            // needed when the failure depends on state the library carries from one call to the next
            let prev_tape: std::cell::RefCell<Vec<u8>> = std::cell::RefCell::new(Vec::new());
            let first_fail: std::cell::RefCell<Option<(Vec<u8>, Vec<u8>, Failure)>> = std::cell::RefCell::new(None);
            let res = runner.run(&vec(any::<u8>(), 0..=max_len), |tape| {
                if !failed.get() && stop.load(Ordering::Relaxed) {
                    return Ok(());
                }
                let mut c = ctx_cell.borrow_mut();
                c.counting = !failed.get();
                if c.counting {
                    executed.set(executed.get() + 1);
                }
                match run_tape_case(f, sub, &tape, &mut c) {
                    Ok(()) => {
                        if !failed.get() {
                            *prev_tape.borrow_mut() = tape;
                        }
                        Ok(())
                    }
                    Err(e) => {
                        if !failed.get() {
                            *first_fail.borrow_mut() = Some((tape.clone(), prev_tape.borrow().clone(), e.clone()));
                        }
                        failed.set(true);
                        stop.store(true, Ordering::Relaxed);
                        Err(TestCaseError::fail(e.msg))
                    }
                }
            });
            drop(ctx_cell);
            let viol = match res {
                Ok(()) => None,
                Err(TestError::Fail(_, tape)) => {
                    ctx.counting = false;
                    match run_tape_case(f, sub, &tape, &mut ctx) {
                        Err(failure) => Some(Violation {
                            sub,
                            replay: json!({"property": prop, "sub": sub, "kind": "tape", "tape_hex": hex(&tape),
                                           "seed": seed, "thread": ti, "message": failure.msg.clone()}),
                            failure,
                        }),
                        Ok(()) => {
                            // The shrunk case passes when run on its own: the failure depends on what the library
                            // was asked before (state kept between calls). Report the first failure as observed and
                            // keep the preceding case of the same thread in the replay file.
                            let (t1, t0, mut failure) = first_fail.borrow_mut().take().unwrap_or_else(|| {
                                (tape.clone(), Vec::new(), Failure::new("failure did not reproduce on the shrunk tape"))
                            });
                            failure.msg = clip(format!(
                                "{}\n [history-dependent: the same case passes when it is run first in a thread; it failed after other \
                                 cases had been evaluated in the same thread, so the library's answer depends on earlier calls. \
                                 The replay file runs the preceding case of that thread first.]",
                                failure.msg
                            ));
                            Some(Violation {
                                sub,
                                replay: json!({"property": prop, "sub": sub, "kind": "tape", "tape_hex": hex(&t1),
                                               "history_tapes_hex": [hex(&t0)], "seed": seed, "thread": ti,
                                               "message": failure.msg.clone()}),
                                failure,
                            })
                        }
                    }
                }
                Err(TestError::Abort(r)) => Some(Violation {
                    sub,
                    replay: json!({"property": prop, "sub": sub, "kind": "abort"}),
                    failure: Failure::panic(format!("proptest aborted: {}", r), "src/engine".into()),
                }),
            };
            (ctx, executed.get(), viol)
        }).expect("spawn"));
    }
    let mut total = Ctx::new(tier, known.clone());
    let mut executed = 0;
    let mut viol = None;
    for h in handles {
        let (c, e, v) = h.join().expect("worker thread");
        total.merge(c);
        executed += e;
        if viol.is_none() {
            viol = v;
        }
    }
    (total, executed, viol)
}

fn run_index_sub(
    prop: &'static str,
    sub: &'static str,
    f: IndexFn,
    count: u64,
    seed: u64,
    tier: Tier,
    known: &Arc<HashSet<String>>,
) -> (Ctx, u64, Option<Violation>) {
    let nthreads = threads().min(count.max(1) as usize);
    let stop = Arc::new(AtomicBool::new(false));
    let next = Arc::new(std::sync::atomic::AtomicU64::new(0));
    let mut handles = Vec::new();
    for _ in 0..nthreads {
        let stop = stop.clone();
        let next = next.clone();
        let known = known.clone();
        handles.push(std::thread::Builder::new().stack_size(64 << 20).spawn(move || {
            let mut ctx = Ctx::new(tier, known);
            let mut done = 0u64;
            let mut viol: Option<(u64, Failure)> = None;
            loop {
                if stop.load(Ordering::Relaxed) {
                    break;
                }
                let idx = next.fetch_add(1, Ordering::Relaxed);
                if idx >= count {
                    break;
                }
                done += 1;
                if let Err(e) = run_index_case(f, sub, idx, seed, &mut ctx) {
                    stop.store(true, Ordering::Relaxed);
                    viol = Some((idx, e));
                    break;
                }
            }
            (ctx, done, viol)
        }).expect("spawn"));
    }
    let mut total = Ctx::new(tier, known.clone());
    let mut executed = 0;
    let mut best: Option<(u64, Failure)> = None;
    for h in handles {
        let (c, e, v) = h.join().expect("worker thread");
        total.merge(c);
        executed += e;
        if let Some((i, f)) = v {
            if best.as_ref().map_or(true, |(bi, _)| i < *bi) {
                best = Some((i, f));
            }
        }
    }
    let viol = best.map(|(idx, failure)| Violation {
        sub,
        replay: json!({"property": prop, "sub": sub, "kind": "index", "index": idx, "seed": seed,
                       "message": failure.msg.clone()}),
        failure,
    });
    (total, executed, viol)
}

/// Load the committed known-findings file; returns the set of keys with status "known" for `prop`.
pub fn load_known(prop: &str) -> HashSet<String> {
    let path = format!("{}/known_findings.json", verif_dir());
    let mut out = HashSet::new();
    if let Ok(s) = std::fs::read_to_string(&path) {
        if let Ok(v) = serde_json::from_str::<Value>(&s) {
            if let Some(arr) = v.get("findings").and_then(|f| f.as_array()) {
                for e in arr {
                    if e.get("property").and_then(|p| p.as_str()) == Some(prop)
                        && e.get("status").and_then(|p| p.as_str()) == Some("known")
                    {
                        if let Some(k) = e.get("key").and_then(|k| k.as_str()) {
                            out.insert(k.to_string());
                        }
                    }
                }
            }
        }
    }
    out
}

fn write_replay(prop: &str, v: &Value) -> String {
    let dir = format!("{}/replays", verif_dir());
    let _ = std::fs::create_dir_all(&dir);
    let sub = v.get("sub").and_then(|s| s.as_str()).unwrap_or("x");
    let body = serde_json::to_string_pretty(v).unwrap_or_default();
    let mut h = std::collections::hash_map::DefaultHasher::new();
    body.hash(&mut h);
    let path = format!("{}/{}_{}_{:08x}.json", dir, prop, sub, h.finish() as u32);
    let _ = std::fs::write(&path, body);
    path
}

/// Run one replay value; Ok(()) if the case passes.
pub fn replay_value(p: &Property, v: &Value, tier: Tier) -> Result<(), Failure> {
    let subname = v.get("sub").and_then(|s| s.as_str()).unwrap_or("");
    let sub = p
        .subs
        .iter()
        .find(|s| s.name == subname)
        .ok_or_else(|| Failure::panic(format!("replay: unknown sub-check {}", subname), "src/engine".into()))?;
    let known = Arc::new(load_known(p.id));
    let mut ctx = Ctx::new(tier, known);
    match (&sub.kind, v.get("kind").and_then(|k| k.as_str())) {
        (Kind::Tape { f, .. }, Some("tape")) => {
            let tape = v
                .get("tape_hex")
                .and_then(|t| t.as_str())
                .and_then(unhex)
                .ok_or_else(|| Failure::panic("replay: bad tape_hex".into(), "src/engine".into()))?;
            // cases that ran before the failing one in the same thread (history-dependent failures)
            if let Some(hist) = v.get("history_tapes_hex").and_then(|h| h.as_array()) {
                for h in hist {
                    if let Some(ht) = h.as_str().and_then(unhex) {
                        let _ = run_tape_case(*f, sub.name, &ht, &mut ctx);
                    }
                }
            }
            run_tape_case(*f, sub.name, &tape, &mut ctx)
        }
        (Kind::Index { f, .. }, Some("index")) => {
            let idx = v.get("index").and_then(|i| i.as_u64()).unwrap_or(0);
            let seed = v.get("seed").and_then(|i| i.as_u64()).unwrap_or(0);
            run_index_case(*f, sub.name, idx, seed, &mut ctx)
        }
        _ => Err(Failure::panic("replay: kind mismatch".into(), "src/engine".into())),
    }
}

pub fn default_seed() -> u64 {
    std::env::var("VERIF_SEED").ok().and_then(|v| v.trim().parse::<u64>().ok()).unwrap_or(20260923)
}

/// Run a property's check. Returns the process exit code.
pub fn run_property(p: &Property, tier: Tier, seed: u64, only_sub: Option<&str>) -> i32 {
    guard::init();
    guard::set_property(p.id);
    let t0 = Instant::now();
    let known = Arc::new(load_known(p.id));
    let mut total = Ctx::new(tier, known.clone());
    let mut reports: Vec<SubReport> = Vec::new();
    let mut violation: Option<Violation> = None;

    // watchdog: a hang is inconclusive (exit 2), never a violation
    let limit_s: u64 = std::env::var("VERIF_WATCHDOG_S")
        .ok()
        .and_then(|v| v.parse().ok())
        .unwrap_or(tier.pick(1500, 6 * 3600));
    let pid_label = p.id;
    std::thread::spawn(move || {
        std::thread::sleep(std::time::Duration::from_secs(limit_s));
        eprintln!("INCONCLUSIVE property={} watchdog after {} s", pid_label, limit_s);
        std::process::exit(2);
    });

    // 1. committed regression replays for this property (bypass the library)
    let regress_dir = format!("{}/replays/regress", verif_dir());
    let mut regress_run = 0u64;
    if only_sub.is_none() {
        if let Ok(rd) = std::fs::read_dir(&regress_dir) {
            let mut files: Vec<_> = rd.filter_map(|e| e.ok()).map(|e| e.path()).collect();
            files.sort();
            for path in files {
                let Ok(s) = std::fs::read_to_string(&path) else { continue };
                let Ok(v) = serde_json::from_str::<Value>(&s) else { continue };
                if v.get("property").and_then(|x| x.as_str()) != Some(p.id) {
                    continue;
                }
                regress_run += 1;
                if let Err(e) = replay_value(p, &v, tier) {
                    if e.panic_loc.as_deref().map_or(false, guard::location_is_harness) {
                        eprintln!("HARNESS-ERROR property={} regress {}: {}", p.id, path.display(), e.msg);
                        return 2;
                    }
                    println!("regression replay {} fails: {}", path.display(), e.msg);
                    println!("VIOLATION property={} replay={}", p.id, path.display());
                    write_evidence(p, tier, seed, &total, &reports, t0, 1, regress_run);
                    return 1;
                }
            }
        }
    }

    // 2. sub-checks
    for (si, sub) in p.subs.iter().enumerate() {
        if let Some(o) = only_sub {
            if o != sub.name {
                continue;
            }
        }
        let st = Instant::now();
        let sseed = mix(seed, si as u64 + 1, 0xabc);
        let (ctx, executed, viol, kind, exhaustive) = match &sub.kind {
            Kind::Tape { max_len, quick, thorough, f } => {
                let cases = scale_cases(tier.pick(*quick, *thorough));
                let (c, e, v) = run_tape_sub(p.id, sub.name, *f, *max_len, cases, sseed, tier, &known);
                (c, e, v, "tape-pbt", false)
            }
            Kind::Index { count, exhaustive, f } => {
                let n = count(tier);
                let (c, e, v) = run_index_sub(p.id, sub.name, *f, n, sseed, tier, &known);
                (c, e, v, "enumeration", *exhaustive)
            }
        };
        reports.push(SubReport {
            name: sub.name,
            kind,
            cases: executed,
            evals: ctx.evals,
            exhaustive: exhaustive && viol.is_none(),
            wall_s: st.elapsed().as_secs_f64(),
        });
        total.merge(ctx);
        if let Some(v) = viol {
            violation = Some(v);
            break;
        }
    }

    // 3. known findings: print one line per listed finding that still reproduces
    for k in &p.known {
        if known.contains(k.key) {
            guard::set_quiet(true);
            let still = panic::catch_unwind(AssertUnwindSafe(|| (k.repro)())).unwrap_or(true);
            guard::set_quiet(false);
            if still {
                println!("KNOWN-FINDING: property={} {} [{}]", p.id, k.what, k.key);
            } else {
                println!("note: known finding {} no longer reproduces", k.key);
            }
        }
    }

    let code = match &violation {
        None => 0,
        Some(v) => {
            if v.failure.panic_loc.as_deref().map_or(false, guard::location_is_harness) {
                eprintln!("HARNESS-ERROR property={} sub={}: {}", p.id, v.sub, v.failure.msg);
                2
            } else {
                let path = write_replay(p.id, &v.replay);
                println!("failure in {}/{}: {}", p.id, v.sub, v.failure.msg);
                println!("VIOLATION property={} replay={}", p.id, path);
                1
            }
        }
    };
    write_evidence(p, tier, seed, &total, &reports, t0, if code == 1 { 1 } else { 0 }, regress_run);
    if code == 0 {
        println!(
            "OK property={} tier={} seed={} evaluations={} distinct_nontrivial={} wall_s={:.1}",
            p.id,
            tier.name(),
            seed,
            total.evals,
            total.nontrivial.len(),
            t0.elapsed().as_secs_f64()
        );
    }
    code
}

/// lines "fuzz target=<t> runs=<n> exit=<c>" written by /verif/fuzz/run_fuzz.sh for this run
fn fuzz_summary() -> Vec<Value> {
    let mut out = Vec::new();
    if let Ok(p) = std::env::var("VERIF_FUZZ_SUMMARY") {
        if let Ok(s) = std::fs::read_to_string(&p) {
            for l in s.lines().filter(|l| l.starts_with("fuzz target=")) {
                let mut o = serde_json::Map::new();
                for kv in l.split_whitespace().skip(1) {
                    if let Some((k, v)) = kv.split_once('=') {
                        o.insert(k.to_string(), v.parse::<u64>().map(Value::from).unwrap_or_else(|_| Value::from(v)));
                    }
                }
                out.push(Value::Object(o));
            }
        }
    }
    out
}

fn scale_cases(n: u64) -> u64 {
    // VERIF_SCALE (percent) lets a developer shorten or deepen a run; default 100
    let pct: u64 = std::env::var("VERIF_SCALE").ok().and_then(|v| v.parse().ok()).unwrap_or(100);
    (n * pct / 100).max(1)
}

#[allow(clippy::too_many_arguments)]
fn write_evidence(
    p: &Property,
    tier: Tier,
    seed: u64,
    total: &Ctx,
    reports: &[SubReport],
    t0: Instant,
    violations: i64,
    regress_run: u64,
) {
    let mut samples: Vec<Value> = Vec::new();
    for (class, v) in &total.samples {
        for s in v {
            samples.push(json!({"class": class, "case": s}));
        }
    }
    let all_exhaustive = !reports.is_empty() && reports.iter().all(|r| r.exhaustive);
    if samples.is_empty() {
        // nothing was generated (the run stopped at a committed regression replay, or only a sub-check without
        // samples was selected): say so instead of leaving the list empty
        samples.push(json!({"class": "none", "case": {"note": "no generated case was sampled in this run",
            "regression_replays_run": regress_run, "violations": violations}}));
    }
    let ev = json!({
        "property_id": p.id,
        "tier": tier.name(),
        "seed": seed,
        "level": "exploration",
        "coverage": {
            "evaluations": total.evals,
            "distinct_nontrivial": total.nontrivial.len(),
            "rule": p.rule,
            "samples": samples,
            "classes": total.classes,
            "subchecks": reports.iter().map(|r| json!({
                "name": r.name, "driver": r.kind, "cases": r.cases, "oracle_evaluations": r.evals,
                "family_enumerated_completely": r.exhaustive, "wall_s": (r.wall_s * 100.0).round() / 100.0
            })).collect::<Vec<_>>(),
            "exhaustive": all_exhaustive,
            "known_finding_hits": total.known_hits,
            "excluded_by_construction": total.excluded,
            "regression_replays_run": regress_run,
            "fuzz_campaigns": fuzz_summary(),
            "threads": threads(),
        },
        "assumptions": p.assumptions,
        "wall_s": (t0.elapsed().as_secs_f64() * 100.0).round() / 100.0,
        "violations": violations,
    });
    let dir = format!("{}/evidence", verif_dir());
    let _ = std::fs::create_dir_all(&dir);
    let _ = std::fs::write(format!("{}/{}.json", dir, p.id), serde_json::to_string_pretty(&ev).unwrap_or_default());
}
