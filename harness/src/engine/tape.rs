//! The *tape*: a byte string that drives every generator.
//!
//! Every random choice a generator makes is read from the tape, so a check is a
//! pure function of (tape, code under test).  An exhausted tape yields zeros and
//! every generator maps 0 to its simplest alternative, so shrinking the tape
//! (proptest removes chunks and lowers bytes) shrinks the generated structure.
//! Choices are mapped monotonically (`v * n >> bits`), never with `%`.

#[derive(Clone)]
pub struct Tape<'a> {
    data: &'a [u8],
    pos: usize,
}

impl<'a> Tape<'a> {
    pub fn new(data: &'a [u8]) -> Self {
        Tape { data, pos: 0 }
    }
    pub fn exhausted(&self) -> bool {
        self.pos >= self.data.len()
    }
    pub fn consumed(&self) -> usize {
        self.pos.min(self.data.len())
    }
    pub fn remaining(&self) -> usize {
        self.data.len().saturating_sub(self.pos)
    }
    pub fn u8(&mut self) -> u8 {
        let b = self.data.get(self.pos).copied().unwrap_or(0);
        self.pos += 1;
        b
    }
    pub fn u16(&mut self) -> u16 {
        u16::from(self.u8()) << 8 | u16::from(self.u8())
    }
    pub fn u32(&mut self) -> u32 {
        u32::from(self.u16()) << 16 | u32::from(self.u16())
    }
    pub fn u64(&mut self) -> u64 {
        u64::from(self.u32()) << 32 | u64::from(self.u32())
    }
    pub fn bool(&mut self) -> bool {
        self.u8() & 1 == 1
    }
    /// true with probability num/256
    pub fn chance(&mut self, num: u32) -> bool {
        u32::from(self.u8()) >= 256 - num.min(256)
    }
    /// uniform-ish in 0..n (n >= 1), monotone in the tape bytes; 0 for an exhausted tape
    pub fn below(&mut self, n: usize) -> usize {
        if n <= 1 {
            return 0;
        }
        if n <= 256 {
            (usize::from(self.u8()) * n) >> 8
        } else if n <= 65536 {
            (usize::from(self.u16()) * n) >> 16
        } else {
            ((u128::from(self.u64()) * n as u128) >> 64) as usize
        }
    }
    /// inclusive range
    pub fn range(&mut self, lo: usize, hi: usize) -> usize {
        lo + self.below(hi - lo + 1)
    }
    pub fn choose<T: Copy>(&mut self, xs: &[T]) -> T {
        xs[self.below(xs.len())]
    }
    pub fn bytes(&mut self, n: usize) -> Vec<u8> {
        (0..n).map(|_| self.u8()).collect()
    }
    pub fn arr32(&mut self) -> [u8; 32] {
        let mut a = [0u8; 32];
        for b in a.iter_mut() {
            *b = self.u8();
        }
        a
    }
    pub fn arr20(&mut self) -> [u8; 20] {
        let mut a = [0u8; 20];
        for b in a.iter_mut() {
            *b = self.u8();
        }
        a
    }
    /// Cheap filler: `n` bytes derived from one tape byte (for large vectors)
    pub fn filler(&mut self, n: usize) -> Vec<u8> {
        let s = self.u8();
        (0..n).map(|i| s.wrapping_add((i as u8).wrapping_mul(31))).collect()
    }
    /// Edge-biased u32
    pub fn edgy_u32(&mut self) -> u32 {
        match self.below(8) {
            0 => 0,
            1 => 1,
            2 => u32::MAX,
            3 => {
                let k = self.below(32) as u32;
                (1u32 << k).wrapping_sub(1)
            }
            4 => 1u32 << self.below(32),
            5 => (1u32 << self.below(32)).wrapping_add(1),
            6 => u32::from(self.u8()),
            _ => self.u32(),
        }
    }
    /// Edge-biased u64
    pub fn edgy_u64(&mut self) -> u64 {
        match self.below(8) {
            0 => 0,
            1 => 1,
            2 => u64::MAX,
            3 => (1u64 << self.below(64)).wrapping_sub(1),
            4 => 1u64 << self.below(64),
            5 => (1u64 << self.below(64)).wrapping_add(1),
            6 => u64::from(self.u8()),
            _ => self.u64(),
        }
    }
    /// Length biased towards small, with the varint boundary values available.
    /// `big` allows lengths that cross the 0xfd / 0x10000 compact-size boundaries.
    pub fn len(&mut self, small_max: usize, big: bool) -> usize {
        let k = self.below(if big { 20 } else { 12 });
        match k {
            0..=2 => 0,
            3..=5 => self.below(small_max.min(4) + 1),
            6..=11 => self.below(small_max + 1),
            12 => 0xfc,
            13 => 0xfd,
            14 => 0xfe,
            15 => 0xff,
            16 => 0x100,
            17 => 0xffff,
            18 => 0x10000,
            _ => 0x10001,
        }
    }
}
