pub mod engine;
pub mod props;
pub mod refimpl;

#[global_allocator]
static ALLOC: engine::guard::CountingAlloc = engine::guard::CountingAlloc;
pub mod gen;
pub mod fuzzapi;
