//! Entry points for the coverage-guided driver (/verif/fuzz): the fuzz input *is* the tape of a
//! tape sub-check. A failure is returned as Err(message); the fuzz target turns it into a crash.
use std::collections::HashSet;
use std::sync::{Arc, OnceLock};

use crate::engine::{guard, load_known, Ctx, Kind, Property, Tape, Tier};

struct Entry {
    prop: Property,
    known: Arc<HashSet<String>>,
}

fn registry() -> &'static Vec<Entry> {
    static R: OnceLock<Vec<Entry>> = OnceLock::new();
    R.get_or_init(|| {
        guard::init();
        crate::props::all()
            .into_iter()
            .map(|f| f())
            .filter(|p| !p.subs.is_empty())
            .map(|p| {
                let known = Arc::new(load_known(p.id));
                Entry { prop: p, known }
            })
            .collect()
    })
}

/// list of (property, sub) pairs that can be driven by a tape
pub fn tape_subs() -> Vec<(&'static str, &'static str)> {
    let mut v = Vec::new();
    for e in registry() {
        for s in &e.prop.subs {
            if let Kind::Tape { .. } = s.kind {
                v.push((e.prop.id, s.name));
            }
        }
    }
    v
}

pub fn run_tape(prop: &str, sub: &str, data: &[u8]) -> Result<(), String> {
    let Some(e) = registry().iter().find(|e| e.prop.id == prop) else { return Err(format!("unknown property {}", prop)) };
    let Some(s) = e.prop.subs.iter().find(|s| s.name == sub) else { return Err(format!("unknown sub {}", sub)) };
    let Kind::Tape { f, .. } = &s.kind else { return Err("not a tape sub-check".into()) };
    let mut ctx = Ctx::new(Tier::Thorough, e.known.clone());
    guard::set_quiet(true);
    let r = std::panic::catch_unwind(std::panic::AssertUnwindSafe(|| {
        let mut t = Tape::new(data);
        f(&mut t, &mut ctx)
    }));
    guard::set_quiet(false);
    match r {
        Ok(Ok(())) => Ok(()),
        Ok(Err(fail)) => Err(fail.msg),
        Err(_) => {
            let (m, l) = guard::take_panic_info().unwrap_or(("?".into(), "?".into()));
            Err(format!("panic `{}` at {}", m, l))
        }
    }
}

/// (property, sub) behind a fuzz target; fz_struct selects by the first input byte
pub fn target_sub(target: &str, first: Option<u8>) -> Option<(&'static str, &'static str)> {
    Some(match target {
        "fz_c01_raw" => ("C01", "raw_bytes"),
        "fz_c01_mutants" => ("C01", "mutants"),
        "fz_c07_raw" => ("C07", "raw_bytes"),
        "fz_c10_raw" => ("C10", "raw_bytes"),
        "fz_c10_text" => ("C10", "raw_text"),
        "fz_c10_ops" => ("C10", "operations"),
        "fz_struct" => {
            let subs = struct_subs();
            if subs.is_empty() {
                return None;
            }
            subs[usize::from(first?) % subs.len()]
        }
        _ => return None,
    })
}

/// the sub-checks `fz_struct` multiplexes (same selection rule as the fuzz target)
pub fn struct_subs() -> Vec<(&'static str, &'static str)> {
    let only = std::env::var("VERIF_FUZZ_PROP").ok();
    let slow = ["C04", "C05", "C09", "C17"];
    tape_subs()
        .into_iter()
        .filter(|(p, _)| match &only {
            Some(o) => p == o,
            None => !slow.contains(p),
        })
        .collect()
}

pub fn artifact_to_replay(target: &str, file: &str) -> Option<String> {
    let data = std::fs::read(file).ok()?;
    let (prop, sub) = target_sub(target, data.first().copied())?;
    let tape: &[u8] = if target == "fz_struct" { &data[1..] } else { &data[..] };
    let v = serde_json::json!({"property": prop, "sub": sub, "kind": "tape", "tape_hex": crate::engine::hex(tape),
        "seed": 0, "message": format!("libFuzzer artefact of target {}", target)});
    let dir = format!("{}/replays", crate::engine::verif_dir());
    let _ = std::fs::create_dir_all(&dir);
    let name = std::path::Path::new(file).file_name()?.to_string_lossy().to_string();
    let path = format!("{}/{}_{}_fuzz_{}.json", dir, prop, sub, &name[name.len().saturating_sub(12)..]);
    std::fs::write(&path, serde_json::to_string_pretty(&v).ok()?).ok()?;
    Some(path)
}

/// deterministic seed corpus for a target: valid encodings / texts behind their selector byte,
/// repository vectors, and random tapes of assorted lengths for the tape targets
pub fn gen_corpus(target: &str, dir: &str, seed: u64) -> usize {
    use crate::engine::seeded_bytes;
    use crate::props::{c01, c07};
    let _ = std::fs::create_dir_all(dir);
    let mut n = 0usize;
    let mut put = |bytes: &[u8]| {
        let _ = std::fs::write(format!("{}/seed{:04}", dir, n), bytes);
        n += 1;
    };
    match target {
        "fz_c01_raw" | "fz_c10_raw" => {
            for (k, (_name, b)) in c01::corpus_tx_files().into_iter().enumerate() {
                let is_block = b.len() > 4 && k == 12;
                let sel: u8 = if target == "fz_c01_raw" { if is_block { 5 } else { 0 } } else if is_block { 1 } else { 0 };
                if b.len() < 20_000 {
                    let mut v = vec![sel];
                    v.extend_from_slice(&b);
                    put(&v);
                }
            }
            for ty in 0..c01::TYPES.len() {
                for r in 0..6u64 {
                    let tape = seeded_bytes(seed, (ty as u64) << 8 | r, 400);
                    let mut t = Tape::new(&tape);
                    let any = c01::gen_any(&mut t, ty);
                    let (enc, _) = any.ref_encode();
                    if enc.len() < 6000 {
                        // C10 decoder numbering differs from the C01 type numbering for a few types
                        let sel = if target == "fz_c01_raw" {
                            ty as u8
                        } else {
                            match ty {
                                0 => 0,
                                5 => 1,
                                6 => 2,
                                7 => 3,
                                2 => 5,
                                1 => 6,
                                3 => 7,
                                4 => 8,
                                8 => 9,
                                9 => 10,
                                10 => 11,
                                11 => 12,
                                12 => 13,
                                13 => 14,
                                14 => 15,
                                15 => 16,
                                16 => 17,
                                17 => 18,
                                19 => 19,
                                _ => 18,
                            }
                        };
                        let mut v = vec![sel];
                        v.extend_from_slice(&enc);
                        put(&v);
                    }
                }
            }
            if target == "fz_c10_raw" {
                for (_n, b) in c07::corpus_psets() {
                    if b.len() < 8000 {
                        let mut v = vec![4u8];
                        v.extend_from_slice(&b);
                        put(&v);
                    }
                }
            }
        }
        "fz_c07_raw" => {
            for (_n, b) in c07::corpus_psets() {
                if b.len() < 12_000 {
                    put(&b);
                }
            }
            for r in 0..40u64 {
                let tape = seeded_bytes(seed, r, 2500);
                let mut t = Tape::new(&tape);
                let p = crate::gen::pset::gen_pset(&mut t, &crate::gen::pset::PsetOpts { max_in: 2, max_out: 2, extractable: false });
                let b = elements::encode::serialize(&p);
                if b.len() < 12_000 {
                    put(&b);
                }
            }
        }
        "fz_c10_text" => {
            for r in 0..80u64 {
                let tape = seeded_bytes(seed, r, 600);
                let mut t = Tape::new(&tape);
                let a = crate::props::c06::gen_ref_addr(&mut t);
                put(a.encode().as_bytes());
            }
            for s in ["a1", "lq1qq", "SIGHASH_ALL", "0x41", "[elements]0000000000000000000000000000000000000000000000000000000000000000:1", "cHNldP8BAgQCAAAAAQQBAAEFAQAB+wQCAAAAAA=="] {
                put(s.as_bytes());
            }
        }
        _ => {
            // tape targets
            for r in 0..64u64 {
                let len = [0usize, 8, 40, 120, 300, 700, 1500, 3000][(r % 8) as usize];
                put(&seeded_bytes(seed, r, len));
            }
        }
    }
    n
}
