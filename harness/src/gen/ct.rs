//! Balanced explicit transactions with spent outputs and their secrets (shared by C04, C05, C10).
use std::collections::BTreeMap;

use elements::confidential::{Asset, AssetBlindingFactor, Nonce, Value, ValueBlindingFactor};
use elements::secp256k1_zkp::{PublicKey, SecretKey};
use elements::{AssetId, AssetIssuance, LockTime, OutPoint, Script, Sequence, Transaction, TxIn, TxInWitness, TxOut, TxOutSecrets, TxOutWitness};

use super::{gen_tweak, gen_txid, gen_vout, pool, secp};
use crate::engine::Tape;

pub struct CtCase {
    /// all outputs explicit; outputs to blind carry the receiver's blinding key in the nonce
    pub tx: Transaction,
    pub spent: Vec<TxOut>,
    /// secrets in the order amount verification builds its domain: input, its issuance, its token, next input ...
    pub secrets: Vec<TxOutSecrets>,
    /// output index -> receiver blinding secret key
    pub receivers: BTreeMap<usize, SecretKey>,
    pub rng_seed: [u8; 32],
    pub n_assets: usize,
    pub has_issuance: bool,
    pub has_conf_input: bool,
    /// a spent output with exactly one of asset / amount confidential
    pub has_partial_input: bool,
}

/// A blinding factor that is a valid non-zero scalar and differs between call sites (`salt`) even
/// on an exhausted tape: sha256(32 tape bytes || salt || counter). (Equal asset blinding factors on
/// an input and an output of the same asset give identical generators, for which no surjection
/// proof exists; real blinders draw them at random, so the generator must not collide either.)
pub fn fresh_scalar(t: &mut Tape, salt: u32) -> [u8; 32] {
    let mut seed = t.arr32().to_vec();
    seed.extend_from_slice(&salt.to_le_bytes());
    for ctr in 0u8..=255 {
        seed.push(ctr);
        let h = crate::refimpl::sha256::sha256(&seed);
        seed.pop();
        if SecretKey::from_slice(&h).is_ok() {
            return h;
        }
    }
    [1u8; 32]
}
pub fn abf_from(t: &mut Tape, salt: u32) -> AssetBlindingFactor {
    AssetBlindingFactor::from_slice(&fresh_scalar(t, salt)).unwrap_or_else(|_| AssetBlindingFactor::zero())
}
pub fn vbf_from(t: &mut Tape, salt: u32) -> ValueBlindingFactor {
    ValueBlindingFactor::from_slice(&fresh_scalar(t, salt ^ 0x8000_0000)).unwrap_or_else(|_| ValueBlindingFactor::zero())
}

/// asset and token id of an input's issuance by the harness's own derivation (C11 reference), so that
/// the balanced-transaction generator does not depend on `TxIn::issuance_ids`
pub fn ref_issuance_ids(i: &TxIn) -> (AssetId, AssetId) {
    use crate::refimpl::sha256 as r;
    use elements::hashes::Hash as _;
    let word = |n: u8| {
        let mut a = [0u8; 32];
        a[0] = n;
        a
    };
    let entropy = if i.asset_issuance.asset_blinding_nonce == elements::secp256k1_zkp::ZERO_TWEAK {
        let mut b = i.previous_output.txid.to_byte_array().to_vec();
        b.extend_from_slice(&i.previous_output.vout.to_le_bytes());
        r::fast_merkle_root(&[r::sha256d(&b), i.asset_issuance.asset_entropy])
    } else {
        i.asset_issuance.asset_entropy
    };
    let blinded = matches!(i.asset_issuance.amount, Value::Confidential(_));
    (
        AssetId::from_byte_array(r::fast_merkle_root(&[entropy, word(0)])),
        AssetId::from_byte_array(r::fast_merkle_root(&[entropy, word(if blinded { 2 } else { 1 })])),
    )
}

/// value magnitudes from 1 up to 2^60, edge-biased
pub fn gen_amount(t: &mut Tape) -> u64 {
    match t.below(8) {
        0 => 1,
        1 => 2,
        2 => 1 + t.u8() as u64,
        3 => 1u64 << t.below(61),
        4 => (1u64 << t.range(1, 60)) - 1,
        5 => (1u64 << t.range(1, 60)) + 1,
        6 => 100_000_000 * (1 + t.below(21_000_000) as u64),
        _ => 1 + (t.u64() >> 4),
    }
}

pub fn std_script(t: &mut Tape) -> Script {
    match t.below(4) {
        0 => {
            let mut v = vec![0x76, 0xa9, 0x14];
            v.extend_from_slice(&t.arr20());
            v.extend_from_slice(&[0x88, 0xac]);
            Script::from(v)
        }
        1 => {
            let mut v = vec![0xa9, 0x14];
            v.extend_from_slice(&t.arr20());
            v.push(0x87);
            Script::from(v)
        }
        2 => {
            let mut v = vec![0x00, 0x14];
            v.extend_from_slice(&t.arr20());
            Script::from(v)
        }
        _ => {
            let mut v = vec![0x51, 0x20];
            v.extend_from_slice(&t.arr32());
            Script::from(v)
        }
    }
}

/// split `total` (>= parts) into `parts` positive amounts
fn split(t: &mut Tape, total: u64, parts: usize) -> Vec<u64> {
    let mut out = Vec::with_capacity(parts);
    let mut rest = total;
    for k in 0..parts {
        let remaining_parts = (parts - k - 1) as u64;
        if remaining_parts == 0 {
            out.push(rest);
        } else {
            let max = rest - remaining_parts; // leave at least 1 for each remaining part
            let v = match t.below(4) {
                0 => 1,
                1 => max,
                _ => 1 + ((u128::from(t.u64()) * u128::from(max)) >> 64) as u64,
            }
            .clamp(1, max);
            out.push(v);
            rest -= v;
        }
    }
    out
}

/// `mark`: how outputs are marked for blinding: None = from the tape (at least one), Some(false) = none
pub fn gen_ct_case(t: &mut Tape, allow_unmarked: bool) -> CtCase {
    let p = pool();
    let n_assets = 1 + t.below(3);
    let n_in = 1 + t.below(4);
    let mut totals: BTreeMap<AssetId, u128> = BTreeMap::new();
    let mut input = Vec::new();
    let mut spent = Vec::new();
    let mut secrets = Vec::new();
    let mut has_issuance = false;
    let mut has_conf_input = false;
    let mut has_partial_input = false;
    for in_idx in 0..n_in {
        let asset = p.assets[t.below(n_assets)];
        let value = gen_amount(t);
        // one byte decides the form of the spent output: bit 0 = confidential, and a byte of
        // 0xc0 and above makes it *partially* blinded (odd: confidential asset with an explicit
        // amount, i.e. abf != 0 and vbf = 0; even: explicit asset with a confidential amount)
        let form = t.u8();
        let conf = form & 1 == 1;
        let partial = form >= 0xc0;
        let (abf, vbf) = match (conf, partial) {
            (true, false) => (abf_from(t, in_idx as u32), vbf_from(t, in_idx as u32)),
            (true, true) => (abf_from(t, in_idx as u32), ValueBlindingFactor::zero()),
            (false, true) => (AssetBlindingFactor::zero(), vbf_from(t, in_idx as u32)),
            (false, false) => (AssetBlindingFactor::zero(), ValueBlindingFactor::zero()),
        };
        let utxo = if conf || partial {
            has_conf_input = true;
            if partial {
                has_partial_input = true;
            }
            TxOut {
                asset: if abf == AssetBlindingFactor::zero() { Asset::Explicit(asset) } else { Asset::new_confidential(secp(), asset, abf) },
                value: if vbf == ValueBlindingFactor::zero() {
                    Value::Explicit(value)
                } else {
                    Value::new_confidential_from_assetid(secp(), value, asset, vbf, abf)
                },
                nonce: if t.bool() { Nonce::Confidential(p.pubkeys[t.below(p.pubkeys.len())]) } else { Nonce::Null },
                script_pubkey: std_script(t),
                witness: TxOutWitness::empty(),
            }
        } else {
            TxOut { asset: Asset::Explicit(asset), value: Value::Explicit(value), nonce: Nonce::Null, script_pubkey: std_script(t), witness: TxOutWitness::empty() }
        };
        *totals.entry(asset).or_insert(0) += u128::from(value);
        secrets.push(TxOutSecrets::new(asset, abf, value, vbf));
        spent.push(utxo);
        let mut txin = TxIn {
            previous_output: OutPoint { txid: gen_txid(t), vout: gen_vout(t) },
            is_pegin: false,
            script_sig: Script::new(),
            sequence: Sequence(t.edgy_u32()),
            asset_issuance: AssetIssuance::null(),
            witness: TxInWitness::empty(),
        };
        // explicit issuance / reissuance pseudo-inputs
        match t.below(6) {
            0 => {
                has_issuance = true;
                // asset only, asset + tokens, or tokens only (null amount)
                let (amount, keys) = match t.below(3) {
                    0 => (Some(gen_amount(t)), None),
                    1 => (Some(gen_amount(t)), Some(gen_amount(t))),
                    _ => (None, Some(gen_amount(t))),
                };
                txin.asset_issuance = AssetIssuance {
                    asset_blinding_nonce: elements::secp256k1_zkp::ZERO_TWEAK,
                    asset_entropy: t.arr32(),
                    amount: amount.map_or(Value::Null, Value::Explicit),
                    inflation_keys: keys.map_or(Value::Null, Value::Explicit),
                };
                let (asset_id, token_id) = ref_issuance_ids(&txin);
                if let Some(amount) = amount {
                    *totals.entry(asset_id).or_insert(0) += u128::from(amount);
                    secrets.push(TxOutSecrets::new(asset_id, AssetBlindingFactor::zero(), amount, ValueBlindingFactor::zero()));
                }
                if let Some(k) = keys {
                    *totals.entry(token_id).or_insert(0) += u128::from(k);
                    secrets.push(TxOutSecrets::new(token_id, AssetBlindingFactor::zero(), k, ValueBlindingFactor::zero()));
                }
            }
            1 => {
                has_issuance = true;
                let amount = gen_amount(t);
                txin.asset_issuance = AssetIssuance {
                    asset_blinding_nonce: gen_tweak(t),
                    asset_entropy: t.arr32(),
                    amount: Value::Explicit(amount),
                    inflation_keys: Value::Null,
                };
                let (asset_id, _) = ref_issuance_ids(&txin);
                *totals.entry(asset_id).or_insert(0) += u128::from(amount);
                secrets.push(TxOutSecrets::new(asset_id, AssetBlindingFactor::zero(), amount, ValueBlindingFactor::zero()));
            }
            _ => {}
        }
        input.push(txin);
    }
    // outputs: every asset total split into positive parts
    struct Out {
        asset: AssetId,
        value: u64,
        fee: bool,
        marked: bool,
        script: Script,
    }
    let mut outs: Vec<Out> = Vec::new();
    for (asset, total) in &totals {
        // totals stay far below 2^64 (at most 4 inputs + issuances of < 2^61 each)
        let total = u64::try_from(*total).unwrap_or(u64::MAX);
        let max_parts = total.min(3) as usize;
        let parts = 1 + t.below(max_parts);
        for v in split(t, total, parts) {
            let fee = t.chance(40);
            outs.push(Out { asset: *asset, value: v, fee, marked: !fee && t.chance(150), script: if fee { Script::new() } else { std_script(t) } });
        }
    }
    if !allow_unmarked && !outs.iter().any(|o| o.marked) {
        let k = t.below(outs.len());
        outs[k].fee = false;
        outs[k].marked = true;
        if outs[k].script.is_empty() {
            outs[k].script = std_script(t);
        }
    }
    // tape-driven order
    for i in (1..outs.len()).rev() {
        let k = t.below(i + 1);
        outs.swap(i, k);
    }
    let mut receivers = BTreeMap::new();
    let mut output = Vec::new();
    for (i, o) in outs.iter().enumerate() {
        let nonce = if o.marked {
            let k = t.below(p.seckeys.len());
            receivers.insert(i, p.seckeys[k]);
            Nonce::Confidential(PublicKey::from_secret_key(secp(), &p.seckeys[k]))
        } else {
            Nonce::Null
        };
        output.push(TxOut { asset: Asset::Explicit(o.asset), value: Value::Explicit(o.value), nonce, script_pubkey: o.script.clone(), witness: TxOutWitness::empty() });
    }
    let tx = Transaction { version: 2, lock_time: LockTime::ZERO, input, output };
    CtCase { tx, spent, secrets, receivers, rng_seed: t.arr32(), n_assets: totals.len(), has_issuance, has_conf_input, has_partial_input }
}
