//! Generators added for C08 / C11 / C19 after review g6. Variants of shared generators live here
//! under new names so that the tape consumption of the shared ones (and with it every committed
//! replay of other properties) stays untouched.
use elements::dynafed;
use elements::hashes::Hash as _;
use elements::{locktime, Script, Sequence, Transaction, TxIn, TxOut};
use elements::confidential::Value;

use super::{gen_locktime, gen_script, gen_txin, gen_txout, TxOpts};
use crate::engine::Tape;

// ---- C19: dynafed parameters whose fields cross the compact-size boundaries ---------------------

/// Length classes of one dynafed field (label for the histogram)
pub fn len_class(n: usize) -> &'static str {
    match n {
        0 => "0",
        1..=0xfc => "1..0xfc",
        0xfd..=0xffff => "0xfd..0xffff",
        _ => ">=0x10000",
    }
}

/// length of a script / fedpeg field / extension entry: mostly small, regularly on both sides of
/// the one-byte compact-size limit (0xfc, 0xfd, 0xfe, 0xff, 0x100, the 300..1100 bytes of real
/// Liquid multisig scripts), rarely at the three-byte limit (0xffff, 0x10000, 0x10001).
/// An exhausted tape gives 0.
pub fn len_dyn(t: &mut Tape, small_max: usize) -> usize {
    match t.below(32) {
        0..=5 => 0,
        6..=9 => t.below(small_max.min(4) + 1),
        10..=21 => t.below(small_max + 1),
        22 => 0xfc,
        23 => 0xfd,
        24 => 0xfe,
        25 => 0xff,
        26 => 0x100,
        27 | 28 => 0xfd + t.below(850),
        29 => 0x100 + t.below(0x300),
        30 => {
            // the expensive classes: a 64 KiB field is hashed about twenty times per case
            if t.chance(48) {
                t.choose(&[0xffffusize, 0x10000, 0x10001])
            } else {
                0xfd
            }
        }
        _ => t.below(small_max + 1),
    }
}

/// `n` bytes: from the tape when short, cheap filler (one tape byte) when long
pub fn bytes_dyn(t: &mut Tape, n: usize) -> Vec<u8> {
    if n > 80 {
        t.filler(n)
    } else {
        t.bytes(n)
    }
}

/// script-shaped bytes (templates of `gen_script`) or a field of `len_dyn` length
fn script_dyn(t: &mut Tape) -> Vec<u8> {
    if t.chance(96) {
        gen_script(t, false).into_bytes()
    } else {
        let n = len_dyn(t, 80);
        bytes_dyn(t, n)
    }
}

/// like `gen_full_params`, but signblockscript, fedpeg program, fedpegscript and (for small
/// counts) extension entries reach lengths >= 0xfd and >= 0x10000
pub fn gen_full_params_big(t: &mut Tape) -> dynafed::FullParams {
    let signblockscript = Script::from(script_dyn(t));
    let limit = t.edgy_u32();
    let fp = elements::bitcoin::ScriptBuf::from_bytes(script_dyn(t));
    let n = len_dyn(t, 300);
    let fedpegscript = bytes_dyn(t, n);
    let k = if t.chance(8) { t.choose(&[0xfcusize, 0xfd, 0xfe, 300]) } else { t.below(9) };
    let ext = (0..k)
        .map(|_| {
            if k > 8 {
                let l = t.below(3);
                t.filler(l)
            } else {
                let l = len_dyn(t, 70);
                bytes_dyn(t, l)
            }
        })
        .collect();
    dynafed::FullParams::new(signblockscript, limit, fp, fedpegscript, ext)
}

/// like `gen_params`; compact forms carry an elided root from {all-zero, all-ones, random}
pub fn gen_params_big(t: &mut Tape) -> dynafed::Params {
    match t.below(4) {
        0 => dynafed::Params::Null,
        1 => dynafed::Params::Compact {
            signblockscript: Script::from(script_dyn(t)),
            signblock_witness_limit: t.edgy_u32(),
            elided_root: dynafed::ElidedRoot::from_byte_array(match t.below(8) {
                0 => [0u8; 32],
                1 => [0xff; 32],
                _ => t.arr32(),
            }),
        },
        _ => dynafed::Params::Full(gen_full_params_big(t)),
    }
}

// ---- C08: transactions with >= 0xfd inputs / outputs -------------------------------------------

/// A well-formed transaction whose input and / or output count lies on either side of the 0xfd
/// compact-size boundary (0xfc, 0xfd, 0xfe, 0x100, 0x101). Up to four distinct elements are
/// drawn from the tape; the vectors cycle through them, element `k` carrying `k` in its sequence /
/// explicit value so that any dropped, duplicated or reordered element is visible.
pub fn gen_tx_bigcount(t: &mut Tape) -> Transaction {
    let o = TxOpts { big: false, wellformed: true, ..TxOpts::default() };
    let version = if t.bool() { t.edgy_u32() } else { 2 };
    let lock_time = gen_locktime(t);
    let which = t.below(3); // 0: many inputs, 1: many outputs, 2: both
    let big = |t: &mut Tape| t.choose(&[0xfdusize, 0xfc, 0xfe, 0x100, 0x101]);
    let small = |t: &mut Tape| t.below(3);
    let nin = if which != 1 { big(t) } else { small(t) };
    let nout = if which != 0 { big(t) } else { small(t) };
    let nb_in = 1 + t.below(4);
    let base_in: Vec<TxIn> = (0..nb_in).map(|_| gen_txin(t, &o)).collect();
    let nb_out = 1 + t.below(4);
    let base_out: Vec<TxOut> = (0..nb_out).map(|_| gen_txout(t, &o)).collect();
    let input = (0..nin)
        .map(|k| {
            let mut i = base_in[k % nb_in].clone();
            i.sequence = Sequence(k as u32);
            i
        })
        .collect();
    let output = (0..nout)
        .map(|k| {
            let mut x = base_out[k % nb_out].clone();
            if let Value::Explicit(_) = x.value {
                x.value = Value::Explicit(k as u64);
            } else {
                // confidential value: mark the position in the script instead
                let mut b = x.script_pubkey.to_bytes();
                b.truncate(40);
                b.extend_from_slice(&(k as u16).to_le_bytes());
                x.script_pubkey = Script::from(b);
            }
            x
        })
        .collect();
    Transaction { version, lock_time, input, output }
}

// ---- C08: lock-time values with the boundary constants, no silent substitution -----------------

/// same draws as `pset::gen_time`; an `Err` for a value inside the documented domain
/// (500_000_000 ..= u32::MAX) is reported instead of being replaced
pub fn gen_time_checked(t: &mut Tape) -> Result<locktime::Time, String> {
    let n = match t.below(4) {
        0 => 500_000_000,
        1 => u32::MAX,
        _ => 500_000_000 + (t.u32() % 3_000_000_000),
    };
    locktime::Time::from_consensus(n).map_err(|e| format!("locktime::Time::from_consensus({}) rejects a value of its documented domain [500000000, 2^32): {}", n, e))
}
/// same draws as `pset::gen_height`; domain 0 ..= 499_999_999
pub fn gen_height_checked(t: &mut Tape) -> Result<locktime::Height, String> {
    let n = match t.below(4) {
        0 => 0,
        1 => 499_999_999,
        _ => t.u32() % 500_000_000,
    };
    locktime::Height::from_consensus(n).map_err(|e| format!("locktime::Height::from_consensus({}) rejects a value of its documented domain [0, 500000000): {}", n, e))
}
