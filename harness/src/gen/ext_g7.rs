//! Generators added for the C10 / C15 / C20 strengthening (review g7): structured hostile inputs that
//! get *past* the first gate of the code under test.
//!
//! * pegout scripts with two or more pushes in every push encoding, pegin witnesses of 5 / 6 / 7 items
//!   with the boundary lengths of each item;
//! * scripts made of whole instructions whose last PUSHDATA1/2/4 header or payload ends exactly on /
//!   one or two bytes before the boundary;
//! * PSET encodings edited at the level of key-value pairs (framing stays intact): declared input /
//!   output counts above the number of maps that follow, values resized, keys repeated, key data added;
//! * JSON and CBOR documents of valid values mutated at the token level (serde deserializers);
//! * consistent single-blinder PSETs with true secrets plus exactly one perturbation (blind_last /
//!   blind_non_last bodies), and merge siblings that differ in every field outside the unique id.
//!
//! Everything is a function of the tape; an exhausted tape gives the simplest member of each family.
use std::collections::HashMap;

use elements::confidential::{Asset, AssetBlindingFactor, Nonce, Value, ValueBlindingFactor};
use elements::pset::{Input, Output, PartiallySignedTransaction as Pset};
use elements::secp256k1_zkp::PublicKey;
use elements::{bitcoin, AssetId, OutPoint, Script, TxOut, TxOutSecrets, TxOutWitness};

use super::ct::{self, abf_from, vbf_from};
use super::pset as gp;
use super::{gen_txid, gen_vout, pool, secp};
use crate::engine::Tape;
use crate::refimpl::enc::compact_size;
use crate::refimpl::psetraw::{RawMap, RawPair};

// ---------------------------------------------------------------------------------------------
// scripts
// ---------------------------------------------------------------------------------------------

/// append a push of `data` in the given form: 0 = direct (falls back to PUSHDATA1/2 when the length
/// does not fit), 1 = PUSHDATA1, 2 = PUSHDATA2, 3 = PUSHDATA4 (falls forward when the length does not fit)
pub fn push_form(out: &mut Vec<u8>, data: &[u8], form: usize) {
    let n = data.len();
    let form = match form {
        0 if n <= 75 => 0,
        0 | 1 if n <= 0xff => 1,
        0..=2 if n <= 0xffff => 2,
        _ => 3,
    };
    match form {
        0 => out.push(n as u8),
        1 => {
            out.push(0x4c);
            out.push(n as u8);
        }
        2 => {
            out.push(0x4d);
            out.extend_from_slice(&(n as u16).to_le_bytes());
        }
        _ => {
            out.push(0x4e);
            out.extend_from_slice(&(n as u32).to_le_bytes());
        }
    }
    out.extend_from_slice(data);
}

/// `OP_RETURN <genesis hash> <script pubkey> [extra ...]` in every shape around the pegout rules:
/// first push of 32 / 31 / 33 / 0 bytes, second push of 1 / 22 / 34 / 0 / 75 / 76 / 256 bytes in all four push
/// encodings, 0..3 trailing items (pushes, OP_0, OP_1NEGATE, OP_1..16, OP_NOP, OP_RESERVED, a truncated push).
/// Returns the script and a class label.
pub fn gen_pegout_script(t: &mut Tape) -> (Script, &'static str) {
    let mut v = vec![0x6a];
    let l1 = t.choose(&[32usize, 32, 32, 31, 33, 0]);
    let f1 = t.below(2);
    let d1 = t.bytes(l1);
    push_form(&mut v, &d1, f1);
    let l2 = t.choose(&[1usize, 22, 34, 0, 75, 76, 0x100]);
    let f2 = t.below(4);
    let d2 = if l2 > 80 { t.filler(l2) } else { t.bytes(l2) };
    push_form(&mut v, &d2, f2);
    let extra = t.below(4);
    let mut label = match (l1, l2) {
        (32, 0) => "pegout-script:empty-second-push",
        (32, _) => "pegout-script:wellformed-head",
        _ => "pegout-script:first-push-not-32",
    };
    for _ in 0..extra {
        match t.below(8) {
            0 | 1 => {
                let n = t.below(40);
                let d = t.bytes(n);
                let f = t.below(4);
                push_form(&mut v, &d, f);
            }
            2 => v.push(0x00),
            3 => {
                v.push(0x4f);
                label = "pegout-script:numeric-or-reserved-in-remainder";
            }
            4 => {
                v.push(0x51 + t.below(16) as u8);
                label = "pegout-script:numeric-or-reserved-in-remainder";
            }
            5 => {
                v.push(0x61);
                label = "pegout-script:non-push-in-remainder";
            }
            6 => {
                v.push(0x50);
                label = "pegout-script:numeric-or-reserved-in-remainder";
            }
            _ => {
                // a push that promises more than is there (must be last)
                let n = 2 + t.below(70);
                v.push(n as u8);
                let k = t.below(n);
                v.extend_from_slice(&t.bytes(k));
                label = "pegout-script:truncated-push-in-remainder";
                break;
            }
        }
    }
    (Script::from(v), label)
}

/// A pegin witness: 6 (sometimes 5 or 7) items; value of 8 / 7 / 9 bytes, asset and genesis hash of
/// 32 / 31 / 33 bytes, any claim script, a serialized bitcoin transaction or junk, and a transaction
/// inclusion proof of >= 80 bytes (a well-formed merkle block, or 80 / 81 / 160 / 79 raw bytes).
pub fn gen_pegin_witness(t: &mut Tape) -> (Vec<Vec<u8>>, &'static str) {
    let n_items = t.choose(&[6usize, 6, 6, 6, 5, 7]);
    let l0 = t.choose(&[8usize, 8, 8, 7, 9]);
    let l1 = t.choose(&[32usize, 32, 32, 31, 33]);
    let l2 = t.choose(&[32usize, 32, 32, 31, 33]);
    let mut items: Vec<Vec<u8>> = Vec::new();
    items.push(t.bytes(l0));
    items.push(if t.bool() {
        let mut a = elements::encode::serialize(&pool().assets[t.below(pool().assets.len())]);
        a.resize(l1, 0);
        a
    } else {
        t.bytes(l1)
    });
    items.push(t.bytes(l2));
    let cl = t.below(40);
    items.push(t.bytes(cl));
    // mainchain transaction
    items.push(match t.below(3) {
        0 => bitcoin::consensus::serialize(&gp::gen_btc_tx(t)),
        1 => {
            let mut b = bitcoin::consensus::serialize(&gp::gen_btc_tx(t));
            if !b.is_empty() {
                let k = t.below(b.len());
                b.truncate(k);
            }
            b
        }
        _ => {
            let n = t.below(60);
            t.bytes(n)
        }
    });
    // inclusion proof
    let proof_kind = t.below(6);
    let proof: Vec<u8> = match proof_kind {
        0 | 1 => {
            // block header || n_tx || hashes || flag bytes
            let mut p = t.bytes(80);
            let n_hashes = t.below(4);
            p.extend_from_slice(&(1 + t.below(8) as u32).to_le_bytes());
            p.push(n_hashes as u8);
            for _ in 0..n_hashes {
                p.extend_from_slice(&t.arr32());
            }
            let fl = t.below(3);
            p.push(fl as u8);
            p.extend_from_slice(&t.bytes(fl));
            p
        }
        2 => t.bytes(80),
        3 => t.bytes(81),
        4 => t.filler(160),
        _ => t.bytes(79),
    };
    items.push(proof);
    let label = if n_items != 6 {
        "pegin-witness:not-6-items"
    } else if proof_kind == 5 {
        "pegin-witness:proof-79-bytes"
    } else if l0 != 8 || l1 != 32 || l2 != 32 {
        "pegin-witness:6-items:bad-field-length"
    } else {
        "pegin-witness:6-items:wellformed-lengths"
    };
    match n_items {
        5 => {
            items.pop();
        }
        7 => {
            let n = t.below(10);
            items.push(t.bytes(n));
        }
        _ => {}
    }
    (items, label)
}

/// A script of 0..6 whole instructions (opcodes, direct pushes, PUSHDATA1/2/4 with declared length L
/// from {0,1,75,76,255,256,65535,65536, 2^32-1 ...} and a payload of L+d bytes, d in {0,-1,-2,+1}), possibly cut
/// inside the header of the last instruction. Payloads above 300 bytes are only *declared*, never materialized.
pub fn gen_instr_script(t: &mut Tape) -> (Vec<u8>, &'static str) {
    let n = t.below(7);
    let mut v: Vec<u8> = Vec::new();
    let mut label = "instr-script:all-complete";
    let mut last_start = 0usize;
    let mut last_header = 0usize;
    for k in 0..n {
        last_start = v.len();
        let last = k + 1 == n;
        match t.below(6) {
            0 => {
                v.push(t.choose(&[0x51u8, 0x00, 0x4f, 0x61, 0x6a, 0x75, 0xac, 0xae, 0xff, 0x50, 0x60]));
                last_header = 1;
            }
            1 => {
                let l = t.choose(&[1usize, 2, 20, 32, 33, 75]);
                v.push(l as u8);
                last_header = 1;
                let d = if last { t.choose(&[0isize, -1, -2, 1]) } else { 0 };
                let have = (l as isize + d).max(0) as usize;
                v.extend_from_slice(&t.bytes(have));
                if d < 0 {
                    label = "instr-script:direct-push-short";
                }
            }
            w => {
                // PUSHDATA1 / 2 / 4
                let width = match w {
                    2 | 3 => 1usize,
                    4 => 2,
                    _ => 4,
                };
                let decl: u64 = match width {
                    1 => t.choose(&[0u64, 1, 75, 76, 255, 2, 80]),
                    2 => t.choose(&[0u64, 1, 75, 76, 255, 256, 300, 65535]),
                    _ => t.choose(&[0u64, 1, 76, 256, 300, 65536, 0x7fff_ffff, 0xffff_fffe, 0xffff_ffff]),
                };
                v.push(match width {
                    1 => 0x4c,
                    2 => 0x4d,
                    _ => 0x4e,
                });
                v.extend_from_slice(&decl.to_le_bytes()[..width]);
                last_header = 1 + width;
                if decl <= 300 {
                    let d = if last { t.choose(&[0isize, -1, -2, 1]) } else { 0 };
                    let have = (decl as isize + d).max(0) as usize;
                    let payload = if have > 80 { t.filler(have) } else { t.bytes(have) };
                    v.extend_from_slice(&payload);
                    if d < 0 && decl > 0 {
                        label = match width {
                            1 => "instr-script:pushdata1-payload-short",
                            2 => "instr-script:pushdata2-payload-short",
                            _ => "instr-script:pushdata4-payload-short",
                        };
                    }
                } else {
                    // far more declared than present: a few bytes follow, or exactly none
                    let have = t.below(4);
                    v.extend_from_slice(&t.bytes(have));
                    label = match width {
                        2 => "instr-script:pushdata2-declares-65535",
                        _ => "instr-script:pushdata4-declares-huge",
                    };
                    break;
                }
            }
        }
    }
    if n > 0 && last_header > 1 && t.chance(80) {
        // cut inside the header of the last instruction: after the opcode, after 1.. length bytes
        let keep = t.below(last_header);
        v.truncate(last_start + keep.max(1).min(last_header - 1).max(1));
        label = "instr-script:cut-inside-pushdata-header";
    }
    (v, label)
}

// ---------------------------------------------------------------------------------------------
// PSET encodings edited at the level of key-value pairs
// ---------------------------------------------------------------------------------------------

pub const DECLARED_COUNTS: [u64; 10] = [0, 10_000, 10_001, 65_536, 0x7fff_ffff, 0xffff_ffff, 0x1_0000_0000, 1 << 63, u64::MAX, 9_999];

/// set the declared input (`output == false`) or output count of the global map to `value`
/// (`u64::MAX - 1` stands for "number of maps present + 1"); the maps themselves are kept.
/// Returns false when the global map has no such pair.
pub fn set_declared_count(maps: &mut [RawMap], output: bool, value: u64) -> bool {
    let Some(global) = maps.first_mut() else { return false };
    let ty = if output { 0x05u8 } else { 0x04u8 };
    for p in global.iter_mut() {
        if p.key == [ty] {
            let mut v = Vec::new();
            compact_size(&mut v, value);
            p.value = v;
            return true;
        }
    }
    false
}

pub const PAIR_OPS: [&str; 12] = [
    "value-resized",
    "pair-duplicated",
    "type-byte-changed",
    "key-data-appended",
    "separator-deleted",
    "pair-moved-to-other-map",
    "xpub-value-length",
    "pset-proprietary-shape",
    "pair-deleted",
    "value-bytes-changed",
    "key-data-truncated",
    "empty-map-inserted",
];

fn pick_pair(t: &mut Tape, maps: &[RawMap]) -> Option<(usize, usize)> {
    let nonempty: Vec<usize> = (0..maps.len()).filter(|i| !maps[*i].is_empty()).collect();
    if nonempty.is_empty() {
        return None;
    }
    let m = nonempty[t.below(nonempty.len())];
    Some((m, t.below(maps[m].len())))
}

/// one framing-preserving edit of a PSET split into maps of raw pairs; returns the operator name
pub fn pset_pair_mutation(t: &mut Tape, maps: &mut Vec<RawMap>) -> &'static str {
    let op = t.below(PAIR_OPS.len());
    match op {
        0 => {
            if let Some((m, k)) = pick_pair(t, maps) {
                let v = &mut maps[m][k].value;
                let len = v.len();
                let new = match t.below(8) {
                    0 => 0,
                    1 => 1,
                    2 => len.saturating_sub(1),
                    3 => len + 1,
                    4 => 33,
                    5 => 64,
                    6 => 65,
                    _ => t.below(80),
                };
                let fill = t.u8();
                v.resize(new, fill);
            }
        }
        1 => {
            if let Some((m, k)) = pick_pair(t, maps) {
                let mut p = maps[m][k].clone();
                if t.bool() {
                    // same key, other value
                    let n = t.below(8);
                    p.value = t.bytes(n);
                }
                let at = t.below(maps[m].len() + 1);
                maps[m].insert(at, p);
            }
        }
        2 => {
            if let Some((m, k)) = pick_pair(t, maps) {
                if let Some(b) = maps[m][k].key.first_mut() {
                    *b = if t.bool() { t.below(0x20) as u8 } else { t.choose(&[0xfcu8, 0xfb, 0xfd, 0xfe, 0xff]) };
                }
            }
        }
        3 => {
            if let Some((m, k)) = pick_pair(t, maps) {
                let n = 1 + t.below(40);
                let extra = t.bytes(n);
                maps[m][k].key.extend_from_slice(&extra);
            }
        }
        4 => {
            // two adjacent maps become one
            if maps.len() >= 2 {
                let i = t.below(maps.len() - 1);
                let next = maps.remove(i + 1);
                maps[i].extend(next);
            }
        }
        5 => {
            if let Some((m, k)) = pick_pair(t, maps) {
                let p = maps[m].remove(k);
                let to = t.below(maps.len());
                let at = t.below(maps[to].len() + 1);
                maps[to].insert(at, p);
            }
        }
        6 => {
            // global xpub record: 78-byte key data, value of 0 / 1 / 2 / 3 / 4 / 5 / 8 bytes
            if !maps.is_empty() {
                let pl = pool();
                let mut key = vec![0x01u8];
                key.extend_from_slice(&[0x04, 0x88, 0xb2, 0x1e]);
                key.push(t.u8());
                key.extend_from_slice(&t.bytes(4));
                key.extend_from_slice(&t.bytes(4));
                key.extend_from_slice(&t.arr32());
                key.extend_from_slice(&pl.pubkeys[t.below(pl.pubkeys.len())].serialize());
                if t.chance(40) {
                    key.pop();
                }
                let vl = t.choose(&[0usize, 1, 2, 3, 4, 5, 8, 7]);
                let value = t.bytes(vl);
                let at = t.below(maps[0].len() + 1);
                maps[0].insert(at, RawPair { key, value });
            }
        }
        7 => {
            // `pset` proprietary record with a subtype that is assigned in that map and a key / value of the wrong
            // (or the right) shape
            if !maps.is_empty() {
                let m = t.below(maps.len());
                let mut key = vec![0xfcu8, 0x04];
                key.extend_from_slice(b"pset");
                key.push(if m == 0 { t.below(3) as u8 } else { t.below(0x18) as u8 });
                let kl = t.choose(&[0usize, 0, 32, 1, 31, 33]);
                key.extend_from_slice(&t.bytes(kl));
                let vl = t.choose(&[0usize, 1, 8, 32, 33, 4, 9]);
                let value = t.bytes(vl);
                let at = t.below(maps[m].len() + 1);
                maps[m].insert(at, RawPair { key, value });
            }
        }
        8 => {
            if let Some((m, k)) = pick_pair(t, maps) {
                maps[m].remove(k);
            }
        }
        9 => {
            if let Some((m, k)) = pick_pair(t, maps) {
                let v = &mut maps[m][k].value;
                if !v.is_empty() {
                    for _ in 0..1 + t.below(3) {
                        let i = t.below(v.len());
                        v[i] = if t.bool() { t.u8() } else { t.choose(&[0u8, 1, 0xfd, 0xfe, 0xff, 0x80]) };
                    }
                }
            }
        }
        10 => {
            if let Some((m, k)) = pick_pair(t, maps) {
                let key = &mut maps[m][k].key;
                if key.len() > 1 {
                    let keep = 1 + t.below(key.len() - 1);
                    key.truncate(keep);
                }
            }
        }
        _ => {
            let at = t.below(maps.len() + 1);
            maps.insert(at, Vec::new());
        }
    }
    PAIR_OPS[op]
}

// ---------------------------------------------------------------------------------------------
// CBOR: a minimal item walker and token-level mutation
// ---------------------------------------------------------------------------------------------

#[derive(Clone, Debug)]
pub struct CborHead {
    pub at: usize,
    pub major: u8,
    /// length of the head in bytes (1, 2, 3, 5 or 9)
    pub head_len: usize,
    /// argument (length / count / value); `None` for the indefinite form
    pub arg: Option<u64>,
    /// end of the whole item (exclusive) when the walker could follow it
    pub end: Option<usize>,
    /// text of the map key this item is the value of (one level), if any
    pub key: Option<String>,
    /// text of the map key whose value is the array this item is an element of, if any
    pub elem_of_key: Option<String>,
}

fn cbor_head(b: &[u8], at: usize) -> Option<(u8, usize, Option<u64>)> {
    let first = *b.get(at)?;
    let major = first >> 5;
    let ai = first & 0x1f;
    Some(match ai {
        0..=23 => (major, 1, Some(u64::from(ai))),
        24 => (major, 2, Some(u64::from(*b.get(at + 1)?))),
        25 => (major, 3, Some(u64::from(u16::from_be_bytes([*b.get(at + 1)?, *b.get(at + 2)?])))),
        26 => {
            let mut a = [0u8; 4];
            for (i, x) in a.iter_mut().enumerate() {
                *x = *b.get(at + 1 + i)?;
            }
            (major, 5, Some(u64::from(u32::from_be_bytes(a))))
        }
        27 => {
            let mut a = [0u8; 8];
            for (i, x) in a.iter_mut().enumerate() {
                *x = *b.get(at + 1 + i)?;
            }
            (major, 9, Some(u64::from_be_bytes(a)))
        }
        31 => (major, 1, None),
        _ => return None,
    })
}

/// walk one item starting at `at`; records every head reached; returns the end offset if the item is complete
fn cbor_walk(b: &[u8], at: usize, depth: usize, key: Option<String>, elem_of_key: Option<String>, out: &mut Vec<CborHead>) -> Option<usize> {
    if depth > 140 || out.len() > 200_000 {
        return None;
    }
    let (major, head_len, arg) = cbor_head(b, at)?;
    let idx = out.len();
    out.push(CborHead { at, major, head_len, arg, end: None, key: key.clone(), elem_of_key });
    let body = at + head_len;
    let end = match major {
        0 | 1 => Some(body),
        2 | 3 => match arg {
            Some(n) => {
                let n = usize::try_from(n).ok()?;
                let e = body.checked_add(n)?;
                if e <= b.len() {
                    Some(e)
                } else {
                    None
                }
            }
            None => {
                // chunks until break
                let mut p = body;
                loop {
                    if *b.get(p)? == 0xff {
                        break Some(p + 1);
                    }
                    p = cbor_walk(b, p, depth + 1, None, None, out)?;
                }
            }
        },
        4 => {
            let mut p = body;
            match arg {
                Some(n) => {
                    {
                        // (a count that the bytes that follow cannot satisfy is still followed as far as it goes: a
                        // deserializer reads the elements one by one and reaches everything up to the end of input)
                        let mut ok = true;
                        for _ in 0..n.min(b.len() as u64 + 1) {
                            match cbor_walk(b, p, depth + 1, None, key.clone(), out) {
                                Some(e) => p = e,
                                None => {
                                    ok = false;
                                    break;
                                }
                            }
                        }
                        if ok {
                            Some(p)
                        } else {
                            None
                        }
                    }
                }
                None => loop {
                    if *b.get(p)? == 0xff {
                        break Some(p + 1);
                    }
                    p = cbor_walk(b, p, depth + 1, None, key.clone(), out)?;
                },
            }
        }
        5 => {
            let mut p = body;
            let n = arg.unwrap_or(u64::MAX);
            {
                let mut k = 0u64;
                loop {
                    if arg.is_none() {
                        if *b.get(p)? == 0xff {
                            break Some(p + 1);
                        }
                    } else if k == n {
                        break Some(p);
                    }
                    // key
                    let kstart = out.len();
                    let ke = cbor_walk(b, p, depth + 1, None, None, out)?;
                    let ktext = match out.get(kstart) {
                        Some(h) if h.major == 3 && h.arg.is_some() => std::str::from_utf8(&b[h.at + h.head_len..ke]).ok().map(|s| s.to_string()),
                        _ => None,
                    };
                    p = cbor_walk(b, ke, depth + 1, ktext, None, out)?;
                    k += 1;
                }
            }
        }
        6 => cbor_walk(b, body, depth + 1, key, None, out),
        _ => Some(body),
    };
    out[idx].end = end;
    end
}

pub fn cbor_heads(b: &[u8]) -> Vec<CborHead> {
    let mut out = Vec::new();
    let _ = cbor_walk(b, 0, 0, None, None, &mut out);
    out
}

/// Signature of the candidate library defect found while building this check (dynafed::Params
/// `HexBytes::visit_seq` pre-allocates the declared CBOR array length): an *array* head in the position of a
/// `fedpegscript` value or of an `extension_space` element that declares more elements than bytes follow.
pub fn cbor_has_params_hexbytes_array_bomb(b: &[u8]) -> bool {
    cbor_heads(b).iter().any(|h| {
        h.major == 4
            && h.arg.map_or(false, |n| n > (b.len().saturating_sub(h.at + h.head_len)) as u64)
            && (h.key.as_deref() == Some("fedpegscript") || h.elem_of_key.as_deref() == Some("extension_space"))
    })
}

/// Signature of the second candidate library defect found while building this check: a CBOR byte string shorter
/// than 33 bytes (or of indefinite length) where a Pedersen commitment / generator is read - the second element of an
/// array that starts with the tag 2 (`confidential::Value` / `Asset`), or the value of one of the PSET commitment
/// fields. The deserializer hands it to `secp256k1_zkp::{PedersenCommitment, Generator}::from_slice`, which reads 33
/// bytes whatever the length (out-of-bounds read; SIGSEGV for an empty string coming from a reader).
pub fn cbor_has_short_commitment_bytes(b: &[u8]) -> bool {
    let heads = cbor_heads(b);
    let short = |h: &CborHead| h.major == 2 && h.arg.map_or(true, |n| n < 33);
    // the item itself, looking through tags
    let untagged = |mut j: usize| {
        while heads.get(j).map_or(false, |h| h.major == 6) {
            j += 1;
        }
        heads.get(j)
    };
    for (i, a) in heads.iter().enumerate() {
        if a.major == 4 && a.arg.map_or(true, |n| n >= 2) {
            if let Some(f) = untagged(i + 1) {
                if f.major == 0 && f.arg == Some(2) {
                    if let Some(fe) = f.end {
                        if let Some(j) = heads.iter().position(|h| h.at == fe) {
                            if untagged(j).map_or(false, short) {
                                return true;
                            }
                        }
                    }
                }
            }
        }
        if matches!(a.key.as_deref(), Some("amount_comm" | "asset_comm" | "issuance_value_comm" | "issuance_inflation_keys_comm")) && untagged(i).map_or(false, short) {
            return true;
        }
    }
    false
}

fn cbor_enc_head(major: u8, form: usize, value: u64) -> Vec<u8> {
    let m = major << 5;
    match form {
        0 => vec![m | (value.min(23) as u8)],
        1 => vec![m | 24, value as u8],
        2 => {
            let mut v = vec![m | 25];
            v.extend_from_slice(&(value as u16).to_be_bytes());
            v
        }
        3 => {
            let mut v = vec![m | 26];
            v.extend_from_slice(&(value as u32).to_be_bytes());
            v
        }
        4 => {
            let mut v = vec![m | 27];
            v.extend_from_slice(&value.to_be_bytes());
            v
        }
        _ => vec![m | 31],
    }
}

pub const CBOR_OPS: [&str; 10] = [
    "length-rewritten-huge",
    "length-rewritten-indefinite",
    "major-type-changed",
    "item-replaced",
    "truncated",
    "map-entry-duplicated",
    "item-deleted",
    "bytes-changed",
    "length+-1",
    "byte-string-as-array",
];

/// one token-level mutation of a CBOR document; returns the operator name
pub fn mutate_cbor(t: &mut Tape, b: &mut Vec<u8>) -> &'static str {
    let heads = cbor_heads(b);
    let op = t.below(CBOR_OPS.len());
    if heads.is_empty() {
        b.extend_from_slice(&[0x9b, 0, 0, 1, 0, 0, 0, 0, 0]);
        return CBOR_OPS[3];
    }
    // heads with a length / count argument
    let sized: Vec<&CborHead> = heads.iter().filter(|h| (2..=5).contains(&h.major)).collect();
    match op {
        0 | 1 | 8 => {
            if sized.is_empty() {
                return CBOR_OPS[op];
            }
            // containers and arrays first: they are where a deserializer pre-allocates
            let arrays: Vec<&&CborHead> = sized.iter().filter(|h| h.major == 4).collect();
            let h: &CborHead = if !arrays.is_empty() && t.chance(128) { arrays[t.below(arrays.len())] } else { sized[t.below(sized.len())] };
            let new = match op {
                0 => {
                    let (form, val) = match t.below(6) {
                        0 => (3, 0xffff_ffffu64),
                        1 => (4, 1u64 << 32),
                        2 => (4, 1u64 << 40),
                        3 => (4, 1u64 << 63),
                        4 => (4, u64::MAX),
                        _ => (3, 0x0100_0000),
                    };
                    cbor_enc_head(h.major, form, val)
                }
                1 => cbor_enc_head(h.major, 5, 0),
                _ => {
                    let v = h.arg.unwrap_or(0);
                    let v = if t.bool() { v.wrapping_add(1) } else { v.saturating_sub(1) };
                    cbor_enc_head(h.major, if v < 24 { 0 } else if v < 256 { 1 } else { 2 }, v)
                }
            };
            b.splice(h.at..h.at + h.head_len, new);
        }
        2 => {
            let h = &heads[t.below(heads.len())];
            let nm = t.below(8) as u8;
            b[h.at] = (nm << 5) | (b[h.at] & 0x1f);
        }
        3 | 6 => {
            let cands: Vec<&CborHead> = heads.iter().filter(|h| h.end.is_some()).collect();
            if cands.is_empty() {
                return CBOR_OPS[op];
            }
            let h = cands[t.below(cands.len())];
            let end = h.end.unwrap_or(h.at + h.head_len);
            let rep: Vec<u8> = if op == 6 {
                vec![]
            } else {
                match t.below(14) {
                    0 => vec![0x00],
                    1 => vec![0xf6],
                    2 => vec![0x80],
                    3 => vec![0x9b, 0, 0, 1, 0, 0, 0, 0, 0],
                    4 => vec![0x40],
                    5 => vec![0x60],
                    6 => vec![0xa0],
                    7 => vec![0xf5],
                    8 => vec![0x1b, 0xff, 0xff, 0xff, 0xff, 0xff, 0xff, 0xff, 0xff],
                    9 => vec![0xfb, 0x7f, 0xf0, 0, 0, 0, 0, 0, 0],
                    10 => vec![0xc2, 0x40],
                    11 => vec![0x5b, 0, 0, 1, 0, 0, 0, 0, 0],
                    12 => vec![0x9f],
                    _ => vec![0x39, 0xff, 0xff],
                }
            };
            b.splice(h.at..end, rep);
        }
        4 => {
            let k = t.below(b.len());
            b.truncate(k);
        }
        5 => {
            // duplicate a (key, value) pair of a small definite map in place and raise its count
            let maps: Vec<usize> = (0..heads.len()).filter(|i| heads[*i].major == 5 && heads[*i].head_len == 1 && heads[*i].arg.map_or(false, |n| (1..23).contains(&n)) && heads[*i].end.is_some()).collect();
            if maps.is_empty() {
                return CBOR_OPS[op];
            }
            let mi = maps[t.below(maps.len())];
            let m = &heads[mi];
            // first entry: key is the head right after, value the next sibling
            if let Some(k) = heads.get(mi + 1) {
                if let Some(ke) = k.end {
                    if let Some(v) = heads.iter().find(|h| h.at == ke) {
                        if let Some(ve) = v.end {
                            let entry: Vec<u8> = b[k.at..ve].to_vec();
                            b.splice(ve..ve, entry);
                            b[m.at] += 1;
                        }
                    }
                }
            }
        }
        9 => {
            // a byte string written in array notation (the hand-written visitors that accept "bytes in either hex
            // or array format" take this path), with a declared count that is right, or far above what follows
            let strings: Vec<&CborHead> = heads.iter().filter(|h| h.major == 2 && h.arg.is_some() && h.end.is_some()).collect();
            if strings.is_empty() {
                return CBOR_OPS[op];
            }
            // prefer the values of the dynafed fields that are read that way
            let pref: Vec<&&CborHead> = strings.iter().filter(|h| h.key.as_deref() == Some("fedpegscript") || h.elem_of_key.as_deref() == Some("extension_space")).collect();
            let h: &CborHead = if !pref.is_empty() && t.chance(200) { pref[t.below(pref.len())] } else { strings[t.below(strings.len())] };
            let end = h.end.unwrap_or(h.at + h.head_len);
            let payload: Vec<u8> = b[h.at + h.head_len..end].iter().copied().take(40).collect();
            let n = payload.len() as u64;
            let (form, count) = match t.below(8) {
                0 | 1 | 2 => (if n < 24 { 0 } else { 1 }, n),
                3 => (if n + 1 < 24 { 0 } else { 1 }, n + 1),
                4 => (3, 1 << 20),
                5 => (3, 0xffff_ffff),
                6 => (4, 1 << 40),
                _ => (4, 1 << 63),
            };
            let mut rep = cbor_enc_head(4, form, count);
            for x in payload {
                if x < 24 {
                    rep.push(x);
                } else {
                    rep.push(0x18);
                    rep.push(x);
                }
            }
            b.splice(h.at..end, rep);
        }
        _ => {
            for _ in 0..1 + t.below(3) {
                if b.is_empty() {
                    break;
                }
                let i = t.below(b.len());
                b[i] = if t.bool() { t.u8() } else { b[i] ^ (1 << t.below(8)) };
            }
        }
    }
    CBOR_OPS[op]
}

// ---------------------------------------------------------------------------------------------
// JSON: token-level mutation of a value tree, with an own writer that can repeat a key
// ---------------------------------------------------------------------------------------------

use serde_json::Value as J;

fn json_count(v: &J) -> usize {
    1 + match v {
        J::Array(a) => a.iter().map(json_count).sum(),
        J::Object(o) => o.values().map(json_count).sum(),
        _ => 0,
    }
}

fn json_node_mut(v: &mut J, mut n: usize) -> Option<&mut J> {
    // pre-order index
    fn go<'a>(v: &'a mut J, n: &mut usize) -> Option<&'a mut J> {
        if *n == 0 {
            return Some(v);
        }
        *n -= 1;
        match v {
            J::Array(a) => {
                for x in a.iter_mut() {
                    if let Some(r) = go(x, n) {
                        return Some(r);
                    }
                }
                None
            }
            J::Object(o) => {
                for (_, x) in o.iter_mut() {
                    if let Some(r) = go(x, n) {
                        return Some(r);
                    }
                }
                None
            }
            _ => None,
        }
    }
    go(v, &mut n)
}

fn json_write(v: &J, dup_at: &mut isize, out: &mut String) {
    match v {
        J::Array(a) => {
            out.push('[');
            for (i, x) in a.iter().enumerate() {
                if i > 0 {
                    out.push(',');
                }
                json_write(x, dup_at, out);
            }
            out.push(']');
        }
        J::Object(o) => {
            *dup_at -= 1;
            let dup = *dup_at == 0;
            out.push('{');
            let mut first = true;
            for (k, x) in o.iter() {
                if !first {
                    out.push(',');
                }
                first = false;
                out.push_str(&J::String(k.clone()).to_string());
                out.push(':');
                json_write(x, dup_at, out);
            }
            if dup {
                if let Some((k, x)) = o.iter().next() {
                    out.push(',');
                    out.push_str(&J::String(k.clone()).to_string());
                    out.push(':');
                    out.push_str(&x.to_string());
                }
            }
            out.push('}');
        }
        other => out.push_str(&other.to_string()),
    }
}

pub const JSON_OPS: [&str; 11] = [
    "field-dropped",
    "field-duplicated",
    "node-replaced",
    "sequence-tag-changed",
    "truncated",
    "deep-nesting",
    "string-edited",
    "number-edited",
    "field-renamed-to-sibling-type-field",
    "unchanged",
    "hex-string-as-array",
];

/// one token-level mutation of a JSON document given as a value tree; returns the text and the operator name
pub fn mutate_json(t: &mut Tape, v: &J) -> (String, &'static str) {
    let mut v = v.clone();
    let op = t.below(JSON_OPS.len());
    let total = json_count(&v);
    let mut dup_at: isize = -1;
    match op {
        0 => {
            // drop a field of some object
            let start = t.below(total);
            for k in 0..total {
                if let Some(J::Object(o)) = json_node_mut(&mut v, (start + k) % total) {
                    if !o.is_empty() {
                        let keys: Vec<String> = o.keys().cloned().collect();
                        let key = &keys[t.below(keys.len())];
                        o.remove(key);
                        break;
                    }
                }
            }
        }
        1 => {
            dup_at = 1 + t.below(4) as isize;
        }
        2 => {
            let n = t.below(total);
            let rep = match t.below(12) {
                0 => J::Null,
                1 => J::from(0),
                2 => J::from(u64::MAX),
                3 => J::from(-1),
                4 => J::Array(vec![]),
                5 => J::Array(vec![J::from(1), J::from("00")]),
                6 => J::String(String::new()),
                7 => J::String("00".into()),
                8 => J::Bool(true),
                9 => J::Object(Default::default()),
                10 => J::from(1.5),
                _ => J::Array(vec![J::Array(vec![J::Array(vec![])])]),
            };
            if let Some(x) = json_node_mut(&mut v, n) {
                *x = rep;
            }
        }
        3 => {
            // first element of an array that is a small integer: the tag of the confidential encodings
            let start = t.below(total);
            for k in 0..total {
                if let Some(J::Array(a)) = json_node_mut(&mut v, (start + k) % total) {
                    if a.first().map_or(false, |x| x.as_u64().map_or(false, |n| n < 16)) {
                        a[0] = J::from(t.choose(&[0u64, 1, 2, 3, 4, 255, 256]));
                        if t.bool() {
                            a.pop();
                        }
                        break;
                    }
                }
            }
        }
        6 => {
            let start = t.below(total);
            for k in 0..total {
                if let Some(J::String(s)) = json_node_mut(&mut v, (start + k) % total) {
                    let mut c: Vec<char> = s.chars().collect();
                    match t.below(5) {
                        0 => {
                            c.pop();
                        }
                        1 => c.push(t.choose(&['0', 'g', 'z', '\u{e9}', ' '])),
                        2 if !c.is_empty() => {
                            let i = t.below(c.len());
                            c[i] = t.choose(&['0', 'f', 'G', 'x', '1', '\0']);
                        }
                        3 => c.clear(),
                        _ => {
                            let n = t.below(300);
                            c.extend(std::iter::repeat('a').take(n));
                        }
                    }
                    *s = c.into_iter().collect();
                    break;
                }
            }
        }
        7 => {
            let start = t.below(total);
            for k in 0..total {
                if let Some(x) = json_node_mut(&mut v, (start + k) % total) {
                    if x.is_number() {
                        *x = match t.below(6) {
                            0 => J::from(u64::MAX),
                            1 => J::from(-1),
                            2 => J::from(256),
                            3 => J::from(1u64 << 32),
                            4 => J::from(0.5),
                            _ => J::from(t.u8()),
                        };
                        break;
                    }
                }
            }
        }
        8 => {
            // give one field the name of another field of the same object (two values compete for one name)
            let start = t.below(total);
            for k in 0..total {
                if let Some(J::Object(o)) = json_node_mut(&mut v, (start + k) % total) {
                    if o.len() >= 2 {
                        let keys: Vec<String> = o.keys().cloned().collect();
                        let a = t.below(keys.len());
                        let mut b = t.below(keys.len() - 1);
                        if b >= a {
                            b += 1;
                        }
                        if let Some(x) = o.remove(&keys[a]) {
                            o.insert(keys[b].clone(), x);
                        }
                        break;
                    }
                }
            }
        }
        10 => {
            // a hex string written in array notation (accepted by the visitors that take "hex or array")
            let start = t.below(total);
            for k in 0..total {
                if let Some(x) = json_node_mut(&mut v, (start + k) % total) {
                    let bytes: Option<Vec<u8>> = match x {
                        J::String(h) if h.len() % 2 == 0 && h.len() <= 200 => (0..h.len() / 2).map(|i| h.get(2 * i..2 * i + 2).and_then(|p| u8::from_str_radix(p, 16).ok())).collect(),
                        _ => None,
                    };
                    if let Some(bytes) = bytes {
                        let mut a: Vec<J> = bytes.into_iter().map(J::from).collect();
                        match t.below(4) {
                            0 => a.push(J::from(256)),
                            1 => a.push(J::from(-1)),
                            2 => a.push(J::from("00")),
                            _ => {}
                        }
                        *x = J::Array(a);
                        break;
                    }
                }
            }
        }
        _ => {}
    }
    let mut s = String::new();
    json_write(&v, &mut dup_at, &mut s);
    match op {
        4 => {
            let mut k = t.below(s.len() + 1);
            while !s.is_char_boundary(k) {
                k -= 1;
            }
            s.truncate(k);
        }
        5 => {
            let n = t.choose(&[100usize, 127, 128, 129, 1000, 10_000]);
            let open = if t.bool() { "[" } else { "{\"a\":" };
            let mut d = open.repeat(n);
            d.push_str(&s);
            s = d;
        }
        _ => {}
    }
    (s, JSON_OPS[op])
}

// ---------------------------------------------------------------------------------------------
// consistent single-blinder PSETs
// ---------------------------------------------------------------------------------------------

pub struct BlindCase {
    pub pset: Pset,
    pub secrets: HashMap<usize, TxOutSecrets>,
    pub seed: [u8; 32],
    /// indices of the outputs marked for blinding
    pub marked: Vec<usize>,
    /// inputs owned by the last blinder (the others belong to a first, non-last blinder); the marked output
    /// with the highest index always names one of these, so that both roles have something to do
    pub last_party: Vec<usize>,
}

impl BlindCase {
    /// the secrets one of the two parties holds
    pub fn secrets_of(&self, last_party: bool) -> HashMap<usize, TxOutSecrets> {
        self.secrets.iter().filter(|(i, _)| self.last_party.contains(i) == last_party).map(|(i, s)| (*i, *s)).collect()
    }
}

fn amount(t: &mut Tape) -> u64 {
    (ct::gen_amount(t) & ((1 << 50) - 1)).max(1)
}

/// One party owning every input: 1..3 inputs over 1..2 assets (explicit or confidential spent outputs, true
/// secrets), optionally an explicit issuance with `blinded_issuance = 0`, outputs that balance every asset:
/// `n_marked` (0..3) outputs carrying a blinding key and the index of one of the inputs, a fee output, plain
/// outputs. `blind_non_last` followed by `blind_last`, or `blind_last` alone, succeed on the unperturbed case.
pub fn gen_blind_case(t: &mut Tape) -> BlindCase {
    let p = pool();
    let n_in = 1 + t.below(3);
    let n_assets = 1 + t.below(2);
    let mut pset = Pset::new_v2();
    let mut secrets = HashMap::new();
    let mut totals: Vec<(AssetId, u64)> = Vec::new();
    for idx in 0..n_in {
        let asset = p.assets[t.below(n_assets)];
        let value = amount(t);
        let conf = t.chance(150);
        let (abf, vbf) = if conf { (abf_from(t, 7100 + idx as u32), vbf_from(t, 7100 + idx as u32)) } else { (AssetBlindingFactor::zero(), ValueBlindingFactor::zero()) };
        let utxo = if conf {
            TxOut {
                asset: Asset::new_confidential(secp(), asset, abf),
                value: Value::new_confidential_from_assetid(secp(), value, asset, vbf, abf),
                nonce: Nonce::Null,
                script_pubkey: ct::std_script(t),
                witness: TxOutWitness::empty(),
            }
        } else {
            TxOut { asset: Asset::Explicit(asset), value: Value::Explicit(value), nonce: Nonce::Null, script_pubkey: ct::std_script(t), witness: TxOutWitness::empty() }
        };
        let mut inp = Input::from_prevout(OutPoint { txid: gen_txid(t), vout: gen_vout(t) & 0xffff });
        inp.witness_utxo = Some(utxo);
        if idx == 0 && t.chance(50) {
            let a = amount(t);
            inp.issuance_value_amount = Some(a);
            inp.issuance_asset_entropy = Some(t.arr32());
            inp.blinded_issuance = Some(0);
            let (asset_id, _) = ct::ref_issuance_ids(&elements::TxIn {
                previous_output: OutPoint { txid: inp.previous_txid, vout: inp.previous_output_index },
                is_pegin: false,
                script_sig: Script::new(),
                sequence: elements::Sequence::MAX,
                asset_issuance: inp.asset_issuance(),
                witness: Default::default(),
            });
            totals.push((asset_id, a));
        }
        pset.add_input(inp);
        secrets.insert(idx, TxOutSecrets::new(asset, abf, value, vbf));
        match totals.iter_mut().find(|(a, _)| *a == asset) {
            Some(e) => e.1 += value,
            None => totals.push((asset, value)),
        }
    }
    let n_marked = t.choose(&[1usize, 2, 3, 2, 0]);
    let mut marked = Vec::new();
    // marked outputs first take one unit of value each from the assets in turn, the rest goes to fee / plain outputs
    let mut outs: Vec<(AssetId, u64, bool, bool)> = Vec::new(); // asset, value, marked, fee
    for k in 0..n_marked {
        let ai = k % totals.len();
        let (asset, left) = &mut totals[ai];
        if *left == 0 {
            continue;
        }
        let take = if *left == 1 { 1 } else { 1 + ((u128::from(t.u64()) * u128::from(*left - 1)) >> 64) as u64 };
        *left -= take;
        outs.push((*asset, take, true, false));
    }
    for (asset, left) in &totals {
        if *left > 0 {
            outs.push((*asset, *left, false, t.bool()));
        }
    }
    // tape order
    for i in (1..outs.len()).rev() {
        let j = t.below(i + 1);
        outs.swap(i, j);
    }
    // input 0 belongs to the non-last blinder when there are two or more inputs, the last input to the last blinder
    let last_party: Vec<usize> = (0..n_in).filter(|i| n_in == 1 || *i + 1 == n_in || (*i > 0 && t.bool())).collect();
    for (k, (asset, value, mark, fee)) in outs.iter().enumerate() {
        let spk = if *fee { Script::new() } else { ct::std_script(t) };
        let mut out = Output::new_explicit(spk, *value, *asset, None);
        if *mark {
            let sk = p.seckeys[t.below(p.seckeys.len())];
            out.blinding_key = Some(bitcoin::PublicKey { inner: PublicKey::from_secret_key(secp(), &sk), compressed: true });
            let n_marked_total = outs.iter().filter(|o| o.2).count();
            let is_last_marked = marked.len() + 1 == n_marked_total;
            let idx = if is_last_marked {
                last_party[t.below(last_party.len())]
            } else if marked.is_empty() && n_in >= 2 {
                // the first of several marked outputs belongs to the non-last blinder
                0
            } else {
                t.below(n_in)
            };
            out.blinder_index = Some(idx as u32);
            marked.push(k);
        }
        pset.add_output(out);
    }
    BlindCase { pset, secrets, seed: ct::fresh_scalar(t, 7300), marked, last_party }
}

pub const BLIND_PERTURBATIONS: [&str; 18] = [
    "none",
    "secret-dropped",
    "blinder-index==inputs.len()",
    "blinder-index-u32-max",
    "amount-none-on-last-marked",
    "amount-none-on-non-last-marked",
    "asset-none-on-marked",
    "blinding-key-none-on-marked",
    "duplicate-scalars",
    "no-output-marked",
    "blinded-issuance-flag",
    "witness-utxo-none",
    "secret-of-foreign-asset",
    "secret-value-unbalanced",
    "zero-amount-on-marked",
    "commitments-preset-on-marked",
    "secret-index-out-of-range",
    "blinder-index-of-input-without-secret",
];

/// apply perturbation `k` (see [`BLIND_PERTURBATIONS`]); returns true when the PSET afterwards is in a state the
/// PSET decoder refuses (an output with neither amount nor commitment, or neither asset nor commitment)
pub fn perturb_blind_case(t: &mut Tape, c: &mut BlindCase, k: usize) -> bool {
    let n_in = c.pset.inputs().len();
    let last = c.marked.last().copied();
    let first = c.marked.first().copied();
    let some_marked = if c.marked.is_empty() { None } else { Some(c.marked[t.below(c.marked.len())]) };
    let mut undecodable = false;
    match k {
        1 => {
            let i = t.below(n_in);
            c.secrets.remove(&i);
        }
        2 => {
            if let Some(o) = some_marked {
                c.pset.outputs_mut()[o].blinder_index = Some(n_in as u32);
            }
        }
        3 => {
            if let Some(o) = some_marked {
                c.pset.outputs_mut()[o].blinder_index = Some(u32::MAX);
            }
        }
        4 => {
            if let Some(o) = last {
                c.pset.outputs_mut()[o].amount = None;
                undecodable = true;
            }
        }
        5 => {
            if let (Some(o), true) = (first, c.marked.len() >= 2) {
                c.pset.outputs_mut()[o].amount = None;
                undecodable = true;
            }
        }
        6 => {
            if let Some(o) = some_marked {
                c.pset.outputs_mut()[o].asset = None;
                undecodable = true;
            }
        }
        7 => {
            if let Some(o) = some_marked {
                c.pset.outputs_mut()[o].blinding_key = None;
            }
        }
        8 => {
            let s = super::gen_tweak(t);
            c.pset.global.scalars.push(s);
            c.pset.global.scalars.push(s);
        }
        9 => {
            for o in c.marked.clone() {
                c.pset.outputs_mut()[o].blinding_key = None;
                c.pset.outputs_mut()[o].blinder_index = None;
            }
        }
        10 => {
            let i = t.below(n_in);
            let inp = &mut c.pset.inputs_mut()[i];
            if inp.issuance_value_amount.is_none() {
                inp.issuance_value_amount = Some(amount(t));
                inp.issuance_asset_entropy = Some(t.arr32());
            }
            inp.blinded_issuance = t.choose(&[None, Some(1u8), Some(0), Some(2), Some(255)]);
            if t.bool() {
                inp.issuance_inflation_keys = Some(t.edgy_u64());
            }
        }
        11 => {
            let i = t.below(n_in);
            c.pset.inputs_mut()[i].witness_utxo = None;
        }
        12 => {
            let i = t.below(n_in);
            if let Some(s) = c.secrets.get_mut(&i) {
                s.asset = { use elements::hashes::Hash as _; AssetId::from_byte_array(t.arr32()) };
            }
        }
        13 => {
            let i = t.below(n_in);
            if let Some(s) = c.secrets.get_mut(&i) {
                s.value = t.edgy_u64();
            }
        }
        14 => {
            if let Some(o) = some_marked {
                c.pset.outputs_mut()[o].amount = Some(0);
            }
        }
        15 => {
            if let Some(o) = some_marked {
                let p = pool();
                let out = &mut c.pset.outputs_mut()[o];
                out.amount_comm = Some(p.commitments[t.below(p.commitments.len())]);
                if t.bool() {
                    out.asset_comm = Some(p.generators[t.below(p.generators.len())]);
                }
            }
        }
        16 => {
            let s = TxOutSecrets::new(pool().assets[0], abf_from(t, 7400), t.edgy_u64(), vbf_from(t, 7401));
            let idx = if t.bool() { n_in } else { t.edgy_u32() as usize };
            c.secrets.insert(idx, s);
        }
        17 => {
            if let Some(o) = some_marked {
                let i = t.below(n_in);
                c.secrets.remove(&i);
                c.pset.outputs_mut()[o].blinder_index = Some(i as u32);
            }
        }
        _ => {}
    }
    undecodable
}

// ---------------------------------------------------------------------------------------------
// merge siblings
// ---------------------------------------------------------------------------------------------

/// A PSET with the same unique id as `p` (same transaction data, previous outputs, lock-time requirements,
/// issuances, output scripts / amounts / assets / nonces) in which every other field is drawn anew: the per-map
/// merge code gets operands that really differ (other utxos, signatures, scripts, tap trees, proprietary values
/// under the same keys, other scalar lists, other key sources).
pub fn gen_merge_sibling(t: &mut Tape, p: &Pset) -> Pset {
    let density = t.choose(&[230u32, 160, 100, 40]);
    let mut s = p.clone();
    let n_in = p.inputs().len();
    for (k, old) in p.inputs().iter().enumerate() {
        let mut new = gp::gen_input(t, density);
        new.previous_txid = old.previous_txid;
        new.previous_output_index = old.previous_output_index;
        new.required_time_locktime = old.required_time_locktime;
        new.required_height_locktime = old.required_height_locktime;
        new.issuance_value_amount = old.issuance_value_amount;
        new.issuance_value_comm = old.issuance_value_comm;
        new.issuance_inflation_keys = old.issuance_inflation_keys;
        new.issuance_inflation_keys_comm = old.issuance_inflation_keys_comm;
        new.issuance_blinding_nonce = old.issuance_blinding_nonce;
        new.issuance_asset_entropy = old.issuance_asset_entropy;
        // same keys, other values
        if t.bool() {
            for (key, v) in old.proprietary.iter() {
                let mut v = v.clone();
                v.push(t.u8());
                new.proprietary.insert(key.clone(), v);
            }
            for (key, v) in old.unknown.iter() {
                let mut v = v.clone();
                v.push(t.u8());
                new.unknown.insert(key.clone(), v);
            }
            for (key, _) in old.partial_sigs.iter() {
                let l = t.below(73);
                new.partial_sigs.insert(*key, t.bytes(l));
            }
            for (key, _) in old.bip32_derivation.iter() {
                new.bip32_derivation.insert(*key, gp::gen_key_source(t));
            }
            for (key, _) in old.tap_key_origins.iter() {
                new.tap_key_origins.insert(*key, (vec![gp::gen_leaf_hash(t)], gp::gen_key_source(t)));
            }
        }
        s.inputs_mut()[k] = new;
    }
    for (k, old) in p.outputs().iter().enumerate() {
        let mut new = gp::gen_output(t, density, n_in);
        new.script_pubkey = old.script_pubkey.clone();
        new.amount = old.amount;
        new.amount_comm = old.amount_comm;
        new.asset = old.asset;
        new.asset_comm = old.asset_comm;
        new.ecdh_pubkey = old.ecdh_pubkey;
        if t.bool() {
            for (key, v) in old.proprietary.iter() {
                let mut v = v.clone();
                v.push(t.u8());
                new.proprietary.insert(key.clone(), v);
            }
            for (key, _) in old.bip32_derivation.iter() {
                new.bip32_derivation.insert(*key, gp::gen_key_source(t));
            }
        }
        s.outputs_mut()[k] = new;
    }
    // global: transaction data stays, everything else anew
    let tx_data = s.global.tx_data.clone();
    let mut g = Pset::new_v2().global;
    gp::gen_global(t, density, &mut g);
    g.tx_data = tx_data;
    for (x, _) in p.global.xpub.iter() {
        if t.bool() {
            g.xpub.insert(*x, gp::gen_key_source(t));
        }
    }
    for (key, v) in p.global.proprietary.iter() {
        if t.bool() {
            let mut v = v.clone();
            v.push(t.u8());
            g.proprietary.insert(key.clone(), v);
        }
    }
    s.global = g;
    s
}
