//! Generator extensions for C07 / C14 (review g5): shapes the shared PSET generator never produces.
//!
//! * raw keys whose length reaches the compact-size boundary (key data 0xfa..0x100 bytes, proprietary
//!   prefixes of 0xfc..0x100 bytes, control blocks with 6..128 merkle nodes),
//! * tap trees down to depth 128 (the library limit),
//! * ELIP-100 contracts on both sides of the 253-byte boundary,
//! * PSETs with >= 253 input or output maps (3-byte compact-size count),
//! * the zero tweak / zero asset blinding factor.
//!
//! Every choice is read from the tape; large byte strings cost one tape byte (`Tape::filler`).
use elements::confidential::AssetBlindingFactor;
use elements::pset::raw::{Key, ProprietaryKey};
use elements::pset::{Input, Output, PartiallySignedTransaction as Pset, TapTree};
use elements::taproot::{ControlBlock, TaprootBuilder};
use elements::{Script, Txid};

use super::pset as gp;
use super::pool;
use crate::engine::Tape;

/// key-data lengths around the compact-size boundary of the raw key length (`key.len() + 1`):
/// 0xfb -> raw length 0xfc (last 1-byte prefix), 0xfc -> raw length 0xfd (first 3-byte prefix)
pub const LONG_KEY_LENS: [usize; 5] = [0xfb, 0xfc, 0xfa, 0xfd, 0x100];
/// lengths of an inner vector on both sides of its own compact-size boundary
pub const LONG_VEC_LENS: [usize; 5] = [0xfc, 0xfd, 0xfe, 0x100, 300];

/// an unknown key (type unassigned in the map of `scope`) with 0xfa..0x100 bytes of key data
pub fn gen_long_unknown_key(t: &mut Tape, scope: u8) -> Key {
    let mut k = gp::gen_unknown_key(t, scope);
    let n = t.choose(&LONG_KEY_LENS);
    k.key = t.filler(n);
    k
}

/// a proprietary key that is not one of the assigned `pset` keys of the map of `scope`, with either
/// a prefix of >= 0xfc bytes (the prefix has its own compact size) or so much key data that the
/// whole raw key crosses the boundary
pub fn gen_long_prop_key(t: &mut Tape, scope: u8) -> ProprietaryKey {
    let mut k = gp::gen_prop_key(t, scope);
    if t.bool() {
        let n = t.choose(&LONG_VEC_LENS);
        // a prefix of this length cannot be `pset`, `pset_hww` or `pset_liquidex`
        k.prefix = t.filler(n);
    } else {
        let l = t.choose(&LONG_KEY_LENS);
        // key data of the raw key = compact size of the prefix (1 byte here) + prefix + subtype + key
        let head = 1 + k.prefix.len() + 1;
        k.key = t.filler(l.saturating_sub(head));
    }
    k
}

/// a control block with 6, 7, 8, 127 or 128 merkle nodes (raw key of 226 .. 4130 bytes); BIP341
/// allows up to 128
pub fn gen_deep_control_block(t: &mut Tape) -> Option<ControlBlock> {
    let depth = t.choose(&[7usize, 6, 8, 127, 128]);
    let mut b = vec![gp::gen_leaf_version(t).as_u8() | (t.u8() & 1)];
    b.extend_from_slice(&gp::gen_xonly(t).serialize());
    let s = t.u8();
    for i in 0..depth {
        let mut node = [s; 32];
        node[0] = i as u8;
        b.extend_from_slice(&node);
    }
    ControlBlock::from_slice(&b).ok()
}

/// a caterpillar tap tree whose deepest two leaves sit at depth 21, 64, 127 or 128 (128 is the
/// library / BIP341 limit), in either orientation; leaf scripts are 1 byte, all distinct
pub fn gen_deep_tap_tree(t: &mut Tape) -> Option<(TapTree, usize)> {
    let maxd = t.choose(&[128usize, 127, 64, 21]);
    let mut depths: Vec<usize> = (1..=maxd).collect();
    depths.push(maxd);
    if t.bool() {
        depths.reverse();
    }
    let s = t.u8();
    let ver = gp::gen_leaf_version(t);
    let mut builder = TaprootBuilder::new();
    for (i, d) in depths.iter().enumerate() {
        let script = Script::from(vec![s.wrapping_add(i as u8), (i >> 8) as u8 | 0x50]);
        builder = builder.add_leaf_with_ver(*d, script, ver).ok()?;
    }
    TapTree::from_inner(builder).ok().map(|tt| (tt, maxd))
}

/// ELIP-100 contract text whose UTF-8 length is 0, small, or around the 253-byte boundary of its
/// length prefix; returns the text and a label of the length class
pub fn gen_contract(t: &mut Tape) -> (String, &'static str) {
    let (n, label) = match t.below(8) {
        0 => (0usize, "0"),
        1 => (t.below(60), "<60"),
        2 => (0xfc, "0xfc"),
        3 => (0xfd, "0xfd"),
        4 => (0xfe, "0xfe"),
        5 => (0x100, "0x100"),
        6 => (300, "300"),
        _ => (1000, "1000"),
    };
    let c = t.choose(&['a', '{', '"', 'x', ' ', ':']);
    let mut s = String::with_capacity(n);
    if n >= 2 && t.bool() {
        // a two-byte character: the length prefix counts bytes, not characters
        s.push('é');
    }
    while s.len() < n {
        s.push(c);
    }
    (s, label)
}

/// append `n` minimal inputs (mandatory fields only), distinct outpoints, one tape byte
pub fn add_minimal_inputs(t: &mut Tape, p: &mut Pset, n: usize) {
    let s = t.u8();
    for i in 0..n {
        let mut x = [s; 32];
        x[0] = i as u8;
        x[1] = (i >> 8) as u8;
        let mut inp = Input::default();
        inp.previous_txid = Txid::from_byte_array(x);
        inp.previous_output_index = (i & 3) as u32;
        p.add_input(inp);
    }
}

/// append `n` minimal explicit outputs (script, amount, asset), one tape byte
pub fn add_minimal_outputs(t: &mut Tape, p: &mut Pset, n: usize) {
    let s = t.u8();
    let asset = pool().assets[0];
    for i in 0..n {
        let mut o = Output::default();
        o.script_pubkey = Script::from(vec![0x51, s]);
        o.amount = Some(i as u64);
        o.asset = Some(asset);
        p.add_output(o);
    }
}

/// total map counts on both sides of the 0xfd boundary of the declared count
pub const BIG_COUNTS: [usize; 4] = [0xfd, 0xfc, 0xfe, 0x100];

pub fn zero_abf() -> AssetBlindingFactor {
    AssetBlindingFactor::zero()
}
