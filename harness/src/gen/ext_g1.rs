//! Extension generators for C01 / C02 / C12 (review g1).
//!
//! What they add over the shared generators in `gen/mod.rs` (which stay untouched):
//! * block headers / dynafed parameter sets whose scripts, witness items, extension entries and
//!   counts cross the 0xfd and 0x10000 compact-size boundaries (`gen_header_x`, `gen_params_x`,
//!   `gen_full_params_x`);
//! * vector *counts* between 7 and 0xfb, at 0x100 / 0x101 / 300 and on a per-type "ladder"
//!   (1000, 5000, 0xffff, 0x10000, 0x10001, 100 000) of mostly minimal elements (`count_x`);
//! * big vectors whose elements are *varied at every index*: element `k` of a vector with more
//!   than 8 elements is generated from its own sub-tape, a deterministic expansion of 9 bytes of
//!   the main tape (`eseed`, `density`); `density == 0` (exhausted tape) gives all-default
//!   elements, so shrinking still simplifies; up to two "special" indices are generated from the
//!   main tape with the full (big) options so that a long script / a boundary proof / a big
//!   witness also sits at a high index;
//! * range proofs whose serialized length is exactly 0xfc / 0xfd / 0xfe / 0xffff / 0x10000 /
//!   0x10001 (`boundary_rangeproofs`; `RangeProof::from_slice` validates the header only);
//! * `plan_tape`: the choices a check makes *after* generating a value (mutation plan, junk,
//!   modification positions) are drawn *before* it, so that they do not degenerate to the
//!   all-zero choice when a big value has used up the tape.
//!
//! Everything is a pure function of the tape: expansions use `engine::seeded_bytes` keyed by tape
//! bytes; an all-zero key is never expanded.

use crate::refimpl::Variant as _;
use std::sync::OnceLock;

use crate::engine::{mix, seeded_bytes, Tape};
use elements::hashes::Hash as _;
use elements::secp256k1_zkp::RangeProof;
use elements::{
    dynafed, Block, BlockExtData, BlockHash, BlockHeader, Script, Transaction, TxIn, TxInWitness, TxMerkleNode, TxOut,
};

use super::{gen_locktime, gen_script, gen_surjproof, gen_tx, gen_txin, gen_txout, pool, TxOpts};

/// ladders of large counts (of mostly minimal elements). The library refuses to *decode* a
/// vector whose `count * size_of::<T>()` exceeds 4 000 000 bytes (about 11 900 inputs, 16 600
/// outputs, 62 500 transactions, 166 666 stack items), so values that have to round-trip stay
/// well below that.
pub const LADDER_INOUT: &[usize] = &[1000, 5000];
pub const LADDER_TXS: &[usize] = &[1000, 5000];
pub const LADDER_STACK: &[usize] = &[1000, 5000, 0xffff, 0x10000, 0x10001, 100_000];
/// for size / weight only (nothing is decoded)
pub const LADDER_TXS_SIZE_ONLY: &[usize] = &[1000, 0xffff, 0x10000, 0x10001];

/// lengths of byte vectors up to the decoder's bound `MAX_VEC_SIZE` = 4 000 000 (inclusive)
pub const HUGE_LENS: &[usize] = &[0x20000, 1_000_000, 3_999_999, 4_000_000];

/// Bytes for choices made *after* a value has been generated, drawn *before* it: `window` real
/// tape bytes followed (only when they are not all zero) by a deterministic expansion of them.
pub fn plan_tape(t: &mut Tape, window: usize, expand: usize) -> Vec<u8> {
    let mut w = t.bytes(window);
    expand_window(&mut w, 0, expand);
    w
}
/// append `expand` pseudo-random bytes keyed by the window (nothing for an all-zero window)
pub fn expand_window(w: &mut Vec<u8>, salt: u64, expand: usize) {
    if w.iter().any(|b| *b != 0) {
        let key = w.iter().fold(0x9e37_79b9u64, |a, b| a.wrapping_mul(0x100_0000_01b3).wrapping_add(u64::from(*b)));
        w.extend(seeded_bytes(key, salt, expand));
    }
}

/// share (of 256) of varied elements: biased towards sparse, much sparser for 1000+ elements
fn eff_density(density: u8, n: usize) -> u8 {
    let d = ((u32::from(density) * u32::from(density)) >> 8) as u8;
    let d = if density > 0 { d.max(1) } else { 0 };
    if n >= 1000 {
        d / 16
    } else {
        d
    }
}

/// sub-tape of element `k` of a big vector; empty (=> default element) unless selected by `density`
pub fn elem_tape(eseed: u64, density: u8, k: usize, n: usize) -> Vec<u8> {
    let d = eff_density(density, n);
    let h = mix(eseed, k as u64, 0x6731);
    if (h & 0xff) as u8 >= d {
        Vec::new()
    } else {
        seeded_bytes(h, 1, 128)
    }
}

/// count of a vector: small / on either side of 0xfd / 7..0xfb / just above 0x100 / ladder
pub fn count_x(t: &mut Tape, max_small: usize, ladder: &[usize]) -> usize {
    match t.u8() {
        0..=127 => t.below(max_small + 1),
        128..=175 => t.choose(&[0xfc, 0xfd, 0xfe]),
        176..=223 => t.range(7, 0xfb),
        224..=243 => t.choose(&[0x100, 0x101, 300]),
        _ => {
            if ladder.is_empty() {
                0xfd
            } else {
                ladder[t.below(ladder.len())]
            }
        }
    }
}

fn build_boundary_rangeproofs() -> Vec<RangeProof> {
    let p = pool();
    let mut out = Vec::new();
    for (i, len) in [0xfcusize, 0xfd, 0xfe, 0xffff, 0x10000, 0x10001].into_iter().enumerate() {
        for k in 0..p.rangeproofs.len() {
            let mut b = p.rangeproofs[(i + k) % p.rangeproofs.len()].serialize();
            if b.len() >= len {
                b.truncate(len);
            } else {
                let from = b.len();
                b.extend((from..len).map(|j| (j as u8).wrapping_mul(29).wrapping_add(i as u8)));
            }
            if let Ok(rp) = RangeProof::from_slice(&b) {
                if rp.serialize().len() == len {
                    out.push(rp);
                    break;
                }
            }
        }
    }
    out
}
/// pool range proofs cut or padded to a serialized length exactly on a compact-size boundary
pub fn boundary_rangeproofs() -> &'static [RangeProof] {
    static P: OnceLock<Vec<RangeProof>> = OnceLock::new();
    P.get_or_init(build_boundary_rangeproofs)
}

pub fn gen_rangeproof_x(t: &mut Tape) -> Option<Box<RangeProof>> {
    match t.below(8) {
        0..=3 => None,
        4..=5 => {
            let p = pool();
            Some(Box::new(p.rangeproofs[t.below(p.rangeproofs.len())].clone()))
        }
        _ => {
            let b = boundary_rangeproofs();
            if b.is_empty() {
                None
            } else {
                Some(Box::new(b[t.below(b.len())].clone()))
            }
        }
    }
}

/// witness stack with every count class; items of big stacks are 0..2 bytes, varied per index,
/// one tape-chosen index carries an item with a boundary length
pub fn gen_stack_x(t: &mut Tape, ladder: &[usize]) -> Vec<Vec<u8>> {
    let n = count_x(t, 6, ladder);
    if n <= 8 {
        return (0..n)
            .map(|_| {
                let l = t.len(70, true);
                if l > 70 {
                    t.filler(l)
                } else {
                    t.bytes(l)
                }
            })
            .collect();
    }
    let eseed = t.u64();
    let density = t.u8();
    let special = t.below(n);
    let special_len = t.len(70, true);
    let fill = t.u8();
    let d = eff_density(density, n);
    (0..n)
        .map(|k| {
            if k == special && special_len > 0 {
                return (0..special_len).map(|i| fill.wrapping_add((i as u8).wrapping_mul(31))).collect();
            }
            let h = mix(eseed, k as u64, 0x57ac);
            if (h & 0xff) as u8 >= d {
                Vec::new()
            } else {
                let l = ((h >> 8) % 3) as usize;
                (0..l).map(|i| (h >> (16 + 8 * i)) as u8).collect()
            }
        })
        .collect()
}

pub fn gen_in_witness_x(t: &mut Tape, ladder: &[usize]) -> TxInWitness {
    TxInWitness {
        amount_rangeproof: gen_rangeproof_x(t),
        inflation_keys_rangeproof: gen_rangeproof_x(t),
        script_witness: if t.bool() { gen_stack_x(t, ladder) } else { vec![] },
        pegin_witness: if t.bool() { gen_stack_x(t, ladder) } else { vec![] },
    }
}

/// `gen_tx` with the count classes of `count_x`, elements varied at every index and up to two
/// special (main-tape, big) elements; with `o.witness` a special input may carry an `_x` witness
/// and a special output a boundary-length range proof
pub fn gen_tx_x(t: &mut Tape, o: &TxOpts, ladder: &[usize]) -> Transaction {
    let version = match t.below(4) {
        0 => 2,
        1 => 1,
        _ => t.edgy_u32(),
    };
    let lock_time = gen_locktime(t);
    let nin = count_x(t, o.max_in, ladder);
    let nout = count_x(t, o.max_out, ladder);
    let small = TxOpts { big: false, ..*o };
    let input = gen_inputs_x(t, nin, o, &small);
    let output = gen_outputs_x(t, nout, o, &small);
    Transaction { version, lock_time, input, output }
}

fn gen_inputs_x(t: &mut Tape, n: usize, o: &TxOpts, small: &TxOpts) -> Vec<TxIn> {
    if n <= 8 {
        return (0..n).map(|_| gen_txin(t, o)).collect();
    }
    let eseed = t.u64();
    let density = t.u8();
    let s1 = t.below(n);
    let s2 = t.below(n);
    let mut v: Vec<TxIn> = (0..n)
        .map(|k| {
            let b = elem_tape(eseed, density, k, n);
            gen_txin(&mut Tape::new(&b), small)
        })
        .collect();
    if density > 0 {
        v[s1] = gen_txin(t, o);
        if o.witness && !o.wellformed && t.bool() {
            v[s1].witness = gen_in_witness_x(t, &[1000]);
        }
        if t.bool() {
            v[s2] = gen_txin(t, o);
        }
    }
    v
}

fn gen_outputs_x(t: &mut Tape, n: usize, o: &TxOpts, small: &TxOpts) -> Vec<TxOut> {
    if n <= 8 {
        let mut v: Vec<TxOut> = (0..n).map(|_| gen_txout(t, o)).collect();
        if o.witness && n > 0 && t.chance(64) {
            let k = t.below(n);
            v[k].witness.rangeproof = gen_rangeproof_x(t);
        }
        return v;
    }
    let eseed = t.u64();
    let density = t.u8();
    let s1 = t.below(n);
    let s2 = t.below(n);
    let mut v: Vec<TxOut> = (0..n)
        .map(|k| {
            let b = elem_tape(eseed, density, k, n);
            gen_txout(&mut Tape::new(&b), small)
        })
        .collect();
    if density > 0 {
        v[s1] = gen_txout(t, o);
        if o.witness && t.bool() {
            v[s1].witness.rangeproof = gen_rangeproof_x(t);
            v[s1].witness.surjection_proof = gen_surjproof(t);
        }
        if t.bool() {
            v[s2] = gen_txout(t, o);
        }
    }
    v
}

fn gen_bytes_len_big(t: &mut Tape, small_max: usize) -> Vec<u8> {
    let n = t.len(small_max, true);
    if n > small_max {
        t.filler(n)
    } else {
        t.bytes(n)
    }
}

pub fn gen_full_params_x(t: &mut Tape) -> dynafed::FullParams {
    let signblockscript = gen_script(t, true);
    let limit = t.edgy_u32();
    let fp = elements::bitcoin::ScriptBuf::from_bytes(gen_script(t, true).into_bytes());
    let fedpegscript = gen_bytes_len_big(t, 300);
    let ext = gen_stack_x(t, LADDER_STACK);
    dynafed::FullParams::new(signblockscript, limit, fp, fedpegscript, ext)
}

pub fn gen_params_x(t: &mut Tape) -> dynafed::Params {
    match t.below(4) {
        0 => dynafed::Params::Null,
        1 => dynafed::Params::Compact {
            signblockscript: gen_script(t, true),
            signblock_witness_limit: t.edgy_u32(),
            elided_root: dynafed::ElidedRoot::from_byte_array(t.arr32()),
        },
        _ => dynafed::Params::Full(gen_full_params_x(t)),
    }
}

pub fn gen_header_x(t: &mut Tape) -> BlockHeader {
    let ext = if t.bool() {
        BlockExtData::Proof { challenge: gen_script(t, true), solution: gen_script(t, true) }
    } else {
        BlockExtData::Dynafed {
            current: gen_params_x(t),
            proposed: gen_params_x(t),
            signblock_witness: if t.bool() { gen_stack_x(t, LADDER_STACK) } else { vec![] },
        }
    };
    BlockHeader {
        version: t.edgy_u32() & 0x7fff_ffff,
        prev_blockhash: BlockHash::from_byte_array(t.arr32()),
        merkle_root: TxMerkleNode::from_byte_array(t.arr32()),
        time: t.edgy_u32(),
        height: t.edgy_u32(),
        ext,
    }
}

/// transaction count classes of a block
pub fn block_count_x(t: &mut Tape, ladder: &[usize]) -> usize {
    match t.u8() {
        0..=127 => t.below(9),
        128..=159 => 20,
        160..=223 => t.choose(&[0xfc, 0xfd, 0xfe]),
        224..=243 => t.range(9, 0xfb),
        _ => {
            if ladder.is_empty() {
                0xfd
            } else {
                ladder[t.below(ladder.len())]
            }
        }
    }
}

/// block with a big header, every count class and witness transactions at every index
pub fn gen_block_x(t: &mut Tape, ladder: &[usize]) -> Block {
    let header = gen_header_x(t);
    let n = block_count_x(t, ladder);
    let o = TxOpts { big: false, max_in: 2, max_out: 2, ..TxOpts::default() };
    if n <= 8 {
        let txdata = (0..n).map(|_| gen_tx(t, &o)).collect();
        return Block { header, txdata };
    }
    let tiny = TxOpts { big: false, max_in: 1, max_out: 1, witness: false, ..TxOpts::default() };
    let eseed = t.u64();
    let density = t.u8();
    let s1 = t.below(n);
    let mut txdata: Vec<Transaction> = (0..n)
        .map(|k| {
            let b = elem_tape(eseed, density, k, n);
            if b.is_empty() {
                gen_tx(&mut Tape::new(&b), &tiny)
            } else {
                gen_tx(&mut Tape::new(&b), &o)
            }
        })
        .collect();
    if density > 0 {
        txdata[s1] = gen_tx(t, &o);
    }
    Block { header, txdata }
}

/// the shared generators' notion of "empty witness", without calling the library
pub fn in_witness_is_empty(w: &TxInWitness) -> bool {
    w.amount_rangeproof.is_none()
        && w.inflation_keys_rangeproof.is_none()
        && w.script_witness.is_empty()
        && w.pegin_witness.is_empty()
}

fn width_class(n: usize) -> Option<&'static str> {
    if n >= 0x10000 {
        Some(">=0x10000")
    } else if n >= 0xfd {
        Some(">=0xfd")
    } else {
        None
    }
}
fn push_w(f: &mut Vec<String>, what: &str, n: usize) {
    if let Some(w) = width_class(n) {
        f.push(format!("{}{}", what, w));
    }
}
fn count_class(what: &str, n: usize, f: &mut Vec<String>) {
    let c = match n {
        0..=8 => return,
        9..=0xfb => "9..0xfb",
        0xfc..=0xfe => "0xfc..0xfe",
        0xff..=999 => "0xff..999",
        1000..=0xfffe => "1000..0xfffe",
        _ => ">=0xffff",
    };
    f.push(format!("{}:{}", what, c));
}

fn stack_features(what: &str, s: &[Vec<u8>], f: &mut Vec<String>) {
    count_class(&format!("{}-count", what), s.len(), f);
    if let Some(m) = s.iter().map(|i| i.len()).max() {
        push_w(f, &format!("{}-item", what), m);
    }
}

fn params_features(p: &dynafed::Params, f: &mut Vec<String>) {
    match p {
        dynafed::Params::Null => {}
        dynafed::Params::Compact { signblockscript, .. } => push_w(f, "params:signblockscript", signblockscript.len()),
        dynafed::Params::Full(fp) => full_params_features(fp, f),
    }
}
pub fn full_params_features(fp: &dynafed::FullParams, f: &mut Vec<String>) {
    push_w(f, "params:signblockscript", fp.signblockscript.len());
    push_w(f, "params:fedpeg_program", fp.fedpeg_program.len());
    push_w(f, "params:fedpegscript", fp.fedpegscript.len());
    stack_features("params:ext", &fp.extension_space, f);
}
pub fn params_features_of(p: &dynafed::Params) -> Vec<String> {
    let mut f = Vec::new();
    params_features(p, &mut f);
    f
}

/// which long fields / counts a header carries (histogram labels)
pub fn header_features_x(h: &BlockHeader) -> Vec<String> {
    let mut f = Vec::new();
    match &h.ext {
        BlockExtData::Proof { challenge, solution } => {
            push_w(&mut f, "hdr:challenge", challenge.len());
            push_w(&mut f, "hdr:solution", solution.len());
        }
        BlockExtData::Dynafed { current, proposed, signblock_witness } => {
            params_features(current, &mut f);
            params_features(proposed, &mut f);
            stack_features("hdr:signblock-witness", signblock_witness, &mut f);
        }
    }
    f.sort();
    f.dedup();
    f
}

pub fn in_witness_features_x(w: &TxInWitness) -> Vec<String> {
    let mut f = Vec::new();
    stack_features("script-witness", &w.script_witness, &mut f);
    stack_features("pegin-witness", &w.pegin_witness, &mut f);
    for p in [&w.amount_rangeproof, &w.inflation_keys_rangeproof].into_iter().flatten() {
        if matches!(p.serialize().len(), 0xfc | 0xfd | 0xfe | 0xffff | 0x10000 | 0x10001) {
            f.push("proof-len-at-boundary".into());
        }
    }
    f.sort();
    f.dedup();
    f
}

/// what sits at a high index (>= 60, beyond what one 3000-byte tape can vary) and which count
/// classes occur (histogram labels)
pub fn tx_features_x(tx: &Transaction) -> Vec<String> {
    const HI: usize = 60;
    let mut f = Vec::new();
    count_class("inputs", tx.input.len(), &mut f);
    count_class("outputs", tx.output.len(), &mut f);
    for (k, i) in tx.input.iter().enumerate() {
        if k >= HI {
            if !in_witness_is_empty(&i.witness) {
                f.push("hi-index:in-witness".into());
            }
            if !(i.asset_issuance.amount.is_null() && i.asset_issuance.inflation_keys.is_null()) {
                f.push("hi-index:issuance".into());
            }
            if i.is_pegin {
                f.push("hi-index:pegin".into());
            }
            if i.script_sig.len() >= 0xfd {
                f.push("hi-index:script>=0xfd".into());
            }
        }
        for w in in_witness_features_x(&i.witness) {
            f.push(w);
        }
    }
    for (k, o) in tx.output.iter().enumerate() {
        if k >= HI {
            if o.witness.rangeproof.is_some() || o.witness.surjection_proof.is_some() {
                f.push("hi-index:out-witness".into());
            }
            if o.value.v_conf() || o.nonce.v_conf() || o.asset.v_conf() {
                f.push("hi-index:confidential".into());
            }
            if o.script_pubkey.len() >= 0xfd {
                f.push("hi-index:script>=0xfd".into());
            }
        }
        if let Some(p) = &o.witness.rangeproof {
            if matches!(p.serialize().len(), 0xfc | 0xfd | 0xfe | 0xffff | 0x10000 | 0x10001) {
                f.push("proof-len-at-boundary".into());
            }
        }
    }
    f.sort();
    f.dedup();
    f
}

pub fn block_features_x(b: &Block) -> Vec<String> {
    let mut f = header_features_x(&b.header);
    count_class("txs", b.txdata.len(), &mut f);
    if b.txdata.len() > 8 {
        let wit = |t: &Transaction| {
            t.input.iter().any(|i| !in_witness_is_empty(&i.witness))
                || t.output.iter().any(|o| o.witness.rangeproof.is_some() || o.witness.surjection_proof.is_some())
        };
        if b.txdata.iter().skip(60).any(wit) {
            f.push("hi-index:witness-tx".into());
        }
        if b.txdata.iter().any(wit) {
            f.push("big-block-with-witness-tx".into());
        }
    }
    f
}

/// a minimal stand-alone script of `n` bytes (cheap filler)
pub fn script_of_len(t: &mut Tape, n: usize) -> Script {
    Script::from(t.filler(n))
}
