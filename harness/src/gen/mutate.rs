//! Byte-string mutation operators (DESIGN.md 3.4), driven by the tape and by the layout the
//! reference encoder recorded for the valid encoding being mutated.

use crate::engine::Tape;
use crate::refimpl::enc::Layout;

pub const OPS: &[&str] = &[
    "bitflip", "byteset", "truncate", "extend", "nonminimal-varint", "count+-1", "splice", "witness-flag",
    "outpoint-flag-bits", "conf-prefix", "version-high-bit", "delete-byte",
];

fn pick_pos(t: &mut Tape, list: &[usize], len: usize) -> usize {
    if !list.is_empty() && t.chance(200) {
        list[t.below(list.len())].min(len.saturating_sub(1))
    } else {
        t.below(len.max(1))
    }
}

/// Applies one mutation; returns the operator name.
pub fn mutate_once(t: &mut Tape, b: &mut Vec<u8>, l: &Layout) -> &'static str {
    let op = t.below(OPS.len());
    if b.is_empty() {
        let n = t.range(1, 9);
        b.extend(t.bytes(n));
        return "extend";
    }
    match op {
        0 => {
            let p = t.below(b.len());
            b[p] ^= 1 << t.below(8);
        }
        1 => {
            let p = t.below(b.len());
            let v = t.choose(&[0x00u8, 0x01, 0x02, 0xfc, 0xfd, 0xfe, 0xff, 0x80, 0x7f]);
            b[p] = if t.bool() { v } else { t.u8() };
        }
        2 => {
            let p = if t.bool() { pick_pos(t, &l.bounds, b.len()) } else { t.below(b.len()) };
            b.truncate(p);
        }
        3 => {
            let n = t.range(1, 9);
            let fill = t.choose(&[0x00u8, 0x01, 0xff]);
            for _ in 0..n {
                let x = if t.bool() { fill } else { t.u8() };
                b.push(x);
            }
        }
        4 => {
            // re-encode a compact size non-minimally
            let p = pick_pos(t, &l.cs, b.len());
            let first = b[p];
            let (val, width): (u64, usize) = match first {
                0xfd if p + 3 <= b.len() => (u64::from(u16::from_le_bytes([b[p + 1], b[p + 2]])), 3),
                0xfe if p + 5 <= b.len() => (u64::from(u32::from_le_bytes([b[p + 1], b[p + 2], b[p + 3], b[p + 4]])), 5),
                x if x < 0xfd => (u64::from(x), 1),
                _ => (u64::from(first), 1),
            };
            let form = t.below(3);
            let mut enc = Vec::new();
            match form {
                0 if val <= 0xffff => {
                    enc.push(0xfd);
                    enc.extend_from_slice(&(val as u16).to_le_bytes());
                }
                1 if val <= 0xffff_ffff => {
                    enc.push(0xfe);
                    enc.extend_from_slice(&(val as u32).to_le_bytes());
                }
                _ => {
                    enc.push(0xff);
                    enc.extend_from_slice(&val.to_le_bytes());
                }
            }
            b.splice(p..p + width, enc);
        }
        5 => {
            let p = pick_pos(t, &l.cs, b.len());
            b[p] = if t.bool() { b[p].wrapping_add(1) } else { b[p].wrapping_sub(1) };
        }
        6 => {
            let from = t.below(b.len());
            let n = t.range(1, 40).min(b.len() - from);
            let chunk: Vec<u8> = b[from..from + n].to_vec();
            let to = t.below(b.len() + 1);
            if t.bool() {
                b.splice(to..to, chunk);
            } else {
                let end = (to + n).min(b.len());
                b.splice(to..end, chunk);
            }
        }
        7 => {
            // transaction witness flag lives at offset 4
            if b.len() > 4 {
                b[4] = t.choose(&[0u8, 1, 2, 0xff]);
            }
        }
        8 => {
            let p = pick_pos(t, &l.vout_hi, b.len());
            b[p] ^= t.choose(&[0x40u8, 0x80, 0xc0]);
        }
        9 => {
            let p = pick_pos(t, &l.prefixes, b.len());
            b[p] = t.choose(&[0u8, 1, 2, 3, 4, 5, 6, 7, 8, 9, 0x0a, 0x0b, 0x0c, 0xff]);
        }
        10 => {
            if b.len() > 3 {
                b[3] ^= 0x80;
            }
        }
        _ => {
            let p = t.below(b.len());
            b.remove(p);
        }
    }
    OPS[op]
}
