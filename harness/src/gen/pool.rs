//! Process-wide pool of valid curve points and proofs, built once from fixed seeds
//! (DESIGN.md 3.3). Structural properties only need proofs that *parse*.

use std::sync::OnceLock;

use elements::confidential::{AssetBlindingFactor, ValueBlindingFactor};
use elements::hashes::Hash as _;
use elements::secp256k1_zkp::{
    self as zkp, All, Generator, PedersenCommitment, PublicKey, RangeProof, Secp256k1, SecretKey, SurjectionProof,
    Tweak,
};
use elements::{AssetId, Script};
use rand::SeedableRng;
use rand_chacha::ChaCha20Rng;

use crate::refimpl::sha256::sha256;

pub fn secp() -> &'static Secp256k1<All> {
    static S: OnceLock<Secp256k1<All>> = OnceLock::new();
    S.get_or_init(Secp256k1::new)
}

pub struct Pool {
    pub seckeys: Vec<SecretKey>,
    pub pubkeys: Vec<PublicKey>,
    pub tweaks: Vec<Tweak>,
    pub assets: Vec<AssetId>,
    pub generators: Vec<Generator>,
    pub commitments: Vec<PedersenCommitment>,
    pub rangeproofs: Vec<RangeProof>,
    pub surjproofs: Vec<SurjectionProof>,
}

fn seeded32(label: &str, i: usize) -> [u8; 32] {
    let mut v = label.as_bytes().to_vec();
    v.extend_from_slice(&(i as u64).to_le_bytes());
    sha256(&v)
}

pub fn seckey(label: &str, i: usize) -> SecretKey {
    let mut k = 0usize;
    loop {
        let b = seeded32(label, i + (k << 32));
        if let Ok(sk) = SecretKey::from_slice(&b) {
            return sk;
        }
        k += 1;
    }
}

pub fn pool() -> &'static Pool {
    static P: OnceLock<Pool> = OnceLock::new();
    P.get_or_init(build)
}

fn build() -> Pool {
    let secp = secp();
    let mut rng = ChaCha20Rng::seed_from_u64(0x7665_7269_66);
    let n = 24;
    let seckeys: Vec<SecretKey> = (0..n).map(|i| seckey("verif-pool-sk", i)).collect();
    let pubkeys: Vec<PublicKey> = seckeys.iter().map(|sk| PublicKey::from_secret_key(secp, sk)).collect();
    let tweaks: Vec<Tweak> = (0..n)
        .map(|i| Tweak::from_inner(*seckey("verif-pool-tweak", i).as_ref()).expect("valid scalar"))
        .collect();
    let mut assets: Vec<AssetId> = vec![
        // L-BTC on Liquid, then synthetic ids
        "6f0279e9ed041c3d710a9f57d0c02928416460c4b722ae3457a11eec381c526d".parse().expect("asset id"),
    ];
    for i in 0..7 {
        assets.push(AssetId::from_byte_array(seeded32("verif-pool-asset", i)));
    }
    let generators: Vec<Generator> =
        (0..n).map(|i| Generator::new_blinded(secp, assets[i % assets.len()].into_tag(), tweaks[i])).collect();
    let values: [u64; 8] = [1, 2, 1000, 100_000_000, 21_000_000 * 100_000_000, u64::MAX, 1 << 52, 12345];
    let commitments: Vec<PedersenCommitment> = (0..n)
        .map(|i| PedersenCommitment::new(secp, values[i % values.len()], tweaks[(i * 7 + 3) % n], generators[i]))
        .collect();

    // range proofs of several shapes, made with the library's own parameters and with others
    let mut rangeproofs = Vec::new();
    let shapes: [(u64, u64, i32, u8); 6] = [
        (1, 5000, 0, 52),      // library parameters
        (1, 1, 0, 52),         // value == min value
        (0, 77, 0, 0),         // few bits
        (5, 1 << 40, 0, 64),   // with min_value, 64 bits
        (0, 123_456, -1, 0),   // exact-value style (exp -1)
        (1, 1_000_000, 2, 36), // exponent 2
    ];
    for (i, (min_value, value, exp, bits)) in shapes.iter().enumerate() {
        let gen = generators[i];
        let vbf = tweaks[(i + 5) % n];
        let comm = PedersenCommitment::new(secp, *value, vbf, gen);
        let msg = [i as u8; 64];
        let spk = Script::from(vec![0x51; i]);
        if let Ok(p) =
            RangeProof::new(secp, *min_value, comm, *value, vbf, &msg, spk.as_bytes(), seckeys[i], *exp, *bits, gen)
        {
            rangeproofs.push(p);
        }
    }
    // byte-mutated variants that still parse (header-valid)
    let base: Vec<Vec<u8>> = rangeproofs.iter().map(|p| p.serialize()).collect();
    for (i, b) in base.iter().enumerate() {
        let mut m = b.clone();
        let l = m.len();
        m[l - 1] ^= 0x55;
        m[l / 2] ^= 0x0f;
        if let Ok(p) = RangeProof::from_slice(&m) {
            rangeproofs.push(p);
        }
        if i % 2 == 0 && b.len() > 200 {
            if let Ok(p) = RangeProof::from_slice(&b[..b.len() - 32]) {
                rangeproofs.push(p);
            }
        }
    }

    let mut surjproofs = Vec::new();
    for &k in &[1usize, 2, 3, 8] {
        let domain: Vec<(Generator, zkp::Tag, Tweak)> =
            (0..k).map(|j| (generators[j], assets[j % assets.len()].into_tag(), tweaks[j])).collect();
        let pick = k / 2;
        let out_bf = tweaks[(k + 11) % n];
        if let Ok(p) = SurjectionProof::new(secp, &mut rng, assets[pick % assets.len()].into_tag(), out_bf, &domain) {
            surjproofs.push(p);
        }
    }
    assert!(rangeproofs.len() >= 6 && surjproofs.len() >= 3, "proof pool construction failed");
    let _ = (AssetBlindingFactor::zero(), ValueBlindingFactor::zero());
    Pool { seckeys, pubkeys, tweaks, assets, generators, commitments, rangeproofs, surjproofs }
}
