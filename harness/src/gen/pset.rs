//! Tape-driven generator of well-formed PSETs (shared by C07, C08, C14, C20, C10).
//!
//! Well-formed = meets the format's own acceptance rules: declared counts equal the number of
//! maps, every output has a script, an amount or amount commitment and an asset or asset
//! commitment, a blinder index wherever a blinding key is set, blinding data absent or complete.
use std::collections::BTreeMap;

use elements::bitcoin::bip32::{ChainCode, ChildNumber, DerivationPath, Fingerprint, KeySource, Xpub};
use elements::bitcoin::key::XOnlyPublicKey;
use elements::bitcoin::{self, NetworkKind, PublicKey as BtcKey};
use elements::hashes::{hash160, ripemd160, sha256, sha256d, Hash};
use elements::pset::raw::{Key, ProprietaryKey};
use elements::pset::{Global, Input, Output, PartiallySignedTransaction as Pset, PsbtSighashType, TapTree};
use elements::schnorr::SchnorrSig;
use elements::secp256k1_zkp::schnorr::Signature;
use elements::taproot::{ControlBlock, LeafVersion, TapLeafHash, TapNodeHash, TaprootBuilder};
use elements::{locktime, BlockHash, LockTime, SchnorrSighashType, Script, Sequence};

use super::{gen_asset_id, gen_script, gen_stack, gen_tweak, gen_tx, gen_txid, gen_txout, pool, TxOpts};
use crate::engine::Tape;

pub const SCHNORR_TYPES: [SchnorrSighashType; 7] = [
    SchnorrSighashType::Default,
    SchnorrSighashType::All,
    SchnorrSighashType::None,
    SchnorrSighashType::Single,
    SchnorrSighashType::AllPlusAnyoneCanPay,
    SchnorrSighashType::NonePlusAnyoneCanPay,
    SchnorrSighashType::SinglePlusAnyoneCanPay,
];

pub fn gen_btc_key(t: &mut Tape) -> BtcKey {
    let p = pool();
    BtcKey { inner: p.pubkeys[t.below(p.pubkeys.len())], compressed: !t.chance(60) }
}
pub fn gen_xonly(t: &mut Tape) -> XOnlyPublicKey {
    let p = pool();
    p.pubkeys[t.below(p.pubkeys.len())].x_only_public_key().0
}
pub fn gen_key_source(t: &mut Tape) -> KeySource {
    let mut fp = [0u8; 4];
    for b in fp.iter_mut() {
        *b = t.u8();
    }
    let n = t.below(5);
    let path: Vec<ChildNumber> = (0..n).map(|_| ChildNumber::from(t.edgy_u32())).collect();
    (Fingerprint::from(fp), DerivationPath::from(path))
}
pub fn gen_schnorr_sig(t: &mut Tape) -> SchnorrSig {
    let mut b = [0u8; 64];
    for x in b.iter_mut() {
        *x = t.u8();
    }
    let sig = Signature::from_slice(&b).unwrap_or_else(|_| Signature::from_slice(&[1u8; 64]).expect("64 bytes"));
    SchnorrSig { sig, hash_ty: t.choose(&SCHNORR_TYPES) }
}
pub fn gen_leaf_version(t: &mut Tape) -> LeafVersion {
    let v = t.choose(&[0xc4u8, 0xc0, 0xc2, 0xfe, 0x66, 0x7e, 0x80, 0xbe]);
    LeafVersion::from_u8(v).unwrap_or(LeafVersion::TAPSCRIPT)
}
pub fn gen_leaf_hash(t: &mut Tape) -> TapLeafHash {
    TapLeafHash::from_byte_array(t.arr32())
}
pub fn gen_control_block(t: &mut Tape) -> Option<ControlBlock> {
    let depth = t.below(4);
    let mut b = vec![gen_leaf_version(t).as_u8() | (t.u8() & 1)];
    b.extend_from_slice(&gen_xonly(t).serialize());
    for _ in 0..depth {
        b.extend_from_slice(&t.arr32());
    }
    ControlBlock::from_slice(&b).ok()
}

/// a complete tap tree: random full binary tree shape with up to `max_leaves` leaves, given to the
/// builder in depth-first order
pub fn gen_tap_tree(t: &mut Tape, max_leaves: usize) -> Option<(TapTree, Vec<(u8, u8, Vec<u8>)>)> {
    // grow a shape: list of leaf depths in DFS order, start with one leaf at depth 0
    let target = 1 + t.below(max_leaves.max(1));
    let mut depths: Vec<usize> = vec![0];
    while depths.len() < target {
        let i = t.below(depths.len());
        if depths[i] >= 20 {
            break;
        }
        let d = depths[i] + 1;
        depths[i] = d;
        depths.insert(i + 1, d);
    }
    let mut builder = TaprootBuilder::new();
    let mut leaves = Vec::new();
    for d in &depths {
        // leaf scripts on both sides of the 0xfd compact-size boundary
        let script = match t.below(12) {
            0 | 1 => Script::from(vec![0x51]),
            2 => {
                let n = t.choose(&[0xfcusize, 0xfd, 0xfe, 0x100, 300]);
                Script::from(t.filler(n))
            }
            _ => gen_script(t, false),
        };
        let ver = gen_leaf_version(t);
        leaves.push((*d as u8, ver.as_u8(), script.to_bytes()));
        builder = builder.add_leaf_with_ver(*d, script, ver).ok()?;
    }
    TapTree::from_inner(builder).ok().map(|tt| (tt, leaves))
}

fn maybe<T>(t: &mut Tape, density: u32, f: impl FnOnce(&mut Tape) -> T) -> Option<T> {
    if t.chance(density) {
        Some(f(t))
    } else {
        None
    }
}

pub fn gen_prop_key(t: &mut Tape, scope: u8) -> ProprietaryKey {
    // foreign prefixes, or the `pset` prefix with an unassigned subtype for this map
    let (prefix, subtype): (Vec<u8>, u8) = match t.below(4) {
        0 => (b"pset".to_vec(), match scope {
            0 => t.range(0x02, 0xff) as u8,  // global: 0x00 scalar, 0x01 tx modifiable
            1 => t.range(0x16, 0xff) as u8,  // input: 0x00..=0x15 assigned
            _ => t.range(0x0b, 0xff) as u8,  // output: 0x01..=0x0a assigned (0x00 unassigned too)
        }),
        1 => (vec![], t.u8()),
        2 => (b"other".to_vec(), t.u8()),
        _ => {
            let n = t.below(6);
            (t.bytes(n), t.u8())
        }
    };
    let kl = t.below(5);
    ProprietaryKey { prefix, subtype, key: t.bytes(kl) }
}
pub fn gen_unknown_key(t: &mut Tape, scope: u8) -> Key {
    // key types that are not assigned in the respective map
    let type_value = match scope {
        0 => t.range(0x07, 0xfa) as u8,
        1 => {
            let v = t.range(0x19, 0xfb) as u8;
            if t.chance(30) {
                0x09
            } else {
                v
            }
        }
        _ => t.range(0x08, 0xfb) as u8,
    };
    let kl = t.below(5);
    Key { type_value, key: t.bytes(kl) }
}

pub fn gen_small_tx(t: &mut Tape) -> elements::Transaction {
    let o = TxOpts { big: false, max_in: 2, max_out: 2, ..TxOpts::default() };
    gen_tx(t, &o)
}

pub fn gen_btc_tx(t: &mut Tape) -> bitcoin::Transaction {
    use bitcoin::{absolute, transaction, Amount, OutPoint, ScriptBuf, TxIn, TxOut, Witness};
    let nin = 1 + t.below(2);
    let nout = 1 + t.below(2);
    let with_wit = t.bool();
    bitcoin::Transaction {
        version: transaction::Version(t.choose(&[1, 2])),
        lock_time: absolute::LockTime::from_consensus(t.edgy_u32()),
        input: (0..nin)
            .map(|_| TxIn {
                previous_output: OutPoint { txid: <bitcoin::Txid as bitcoin::hashes::Hash>::from_byte_array(t.arr32()), vout: t.below(4) as u32 },
                script_sig: ScriptBuf::from_bytes(gen_script(t, false).into_bytes()),
                sequence: bitcoin::Sequence(t.edgy_u32()),
                witness: if with_wit { Witness::from_slice(&gen_stack(t, false)) } else { Witness::new() },
            })
            .collect(),
        output: (0..nout)
            .map(|_| TxOut { value: Amount::from_sat(t.edgy_u64() >> 12), script_pubkey: ScriptBuf::from_bytes(gen_script(t, false).into_bytes()) })
            .collect(),
    }
}

pub fn gen_time(t: &mut Tape) -> locktime::Time {
    let n = match t.below(4) {
        0 => 500_000_000,
        1 => u32::MAX,
        _ => 500_000_000 + (t.u32() % 3_000_000_000),
    };
    match locktime::Time::from_consensus(n) {
        Ok(x) => x,
        Err(_) => match LockTime::from_consensus(500_000_000) {
            LockTime::Seconds(x) => x,
            LockTime::Blocks(_) => unreachable!("500000000 is a time"),
        },
    }
}
pub fn gen_height(t: &mut Tape) -> locktime::Height {
    let n = match t.below(4) {
        0 => 0,
        1 => 499_999_999,
        _ => t.u32() % 500_000_000,
    };
    locktime::Height::from_consensus(n).unwrap_or(locktime::Height::ZERO)
}

/// `density` (0..=256) is the chance of each optional field being present
pub fn gen_input(t: &mut Tape, density: u32) -> Input {
    let p = pool();
    let mut i = Input::default();
    i.previous_txid = gen_txid(t);
    i.previous_output_index = match t.below(6) {
        0 => 0,
        1 => 0xffff_ffff,
        2 => t.u8() as u32 | (1 << 30),
        3 => t.u8() as u32 | (1 << 31),
        4 => t.u8() as u32 | (3 << 30),
        _ => t.edgy_u32(),
    };
    i.non_witness_utxo = maybe(t, density / 2, gen_small_tx);
    i.witness_utxo = maybe(t, density, |t| gen_txout(t, &TxOpts { big: false, witness: false, ..TxOpts::default() }));
    let nm = |t: &mut Tape| if t.chance(density) { 1 + t.below(3) } else { 0 };
    for _ in 0..nm(t) {
        let l = t.range(0, 73);
        i.partial_sigs.insert(gen_btc_key(t), t.bytes(l));
    }
    i.sighash_type = maybe(t, density, |t| {
        if t.bool() {
            PsbtSighashType::from_u32(t.edgy_u32())
        } else {
            t.choose(&SCHNORR_TYPES).into()
        }
    });
    i.redeem_script = maybe(t, density, |t| gen_script(t, false));
    i.witness_script = maybe(t, density, |t| gen_script(t, false));
    for _ in 0..nm(t) {
        i.bip32_derivation.insert(gen_btc_key(t), gen_key_source(t));
    }
    i.final_script_sig = maybe(t, density, |t| gen_script(t, false));
    i.final_script_witness = maybe(t, density, |t| gen_stack(t, false));
    for _ in 0..nm(t) {
        let l = t.below(40);
        let pre = t.bytes(l);
        match t.below(4) {
            0 => {
                i.ripemd160_preimages.insert(ripemd160::Hash::hash(&pre), pre);
            }
            1 => {
                i.sha256_preimages.insert(sha256::Hash::hash(&pre), pre);
            }
            2 => {
                i.hash160_preimages.insert(hash160::Hash::hash(&pre), pre);
            }
            _ => {
                i.hash256_preimages.insert(sha256d::Hash::hash(&pre), pre);
            }
        }
    }
    i.sequence = maybe(t, density, |t| Sequence(t.edgy_u32()));
    i.required_time_locktime = maybe(t, density / 2, gen_time);
    i.required_height_locktime = maybe(t, density / 2, gen_height);
    i.tap_key_sig = maybe(t, density, gen_schnorr_sig);
    for _ in 0..nm(t) {
        i.tap_script_sigs.insert((gen_xonly(t), gen_leaf_hash(t)), gen_schnorr_sig(t));
    }
    for _ in 0..nm(t) {
        if let Some(cb) = gen_control_block(t) {
            i.tap_scripts.insert(cb, (gen_script(t, false), gen_leaf_version(t)));
        }
    }
    for _ in 0..nm(t) {
        let n = t.below(3);
        let hashes = (0..n).map(|_| gen_leaf_hash(t)).collect();
        i.tap_key_origins.insert(gen_xonly(t), (hashes, gen_key_source(t)));
    }
    i.tap_internal_key = maybe(t, density, gen_xonly);
    i.tap_merkle_root = maybe(t, density, |t| TapNodeHash::from_byte_array(t.arr32()));
    // Elements fields
    i.issuance_value_amount = maybe(t, density, |t| t.edgy_u64());
    i.issuance_value_comm = maybe(t, density / 2, |t| p.commitments[t.below(p.commitments.len())]);
    i.issuance_value_rangeproof = maybe(t, density / 2, |t| Box::new(p.rangeproofs[t.below(p.rangeproofs.len())].clone()));
    i.issuance_keys_rangeproof = maybe(t, density / 2, |t| Box::new(p.rangeproofs[t.below(p.rangeproofs.len())].clone()));
    i.pegin_tx = maybe(t, density / 2, gen_btc_tx);
    i.pegin_txout_proof = maybe(t, density, |t| {
        let l = t.below(90);
        t.bytes(l)
    });
    i.pegin_genesis_hash = maybe(t, density, |t| BlockHash::from_byte_array(t.arr32()));
    i.pegin_claim_script = maybe(t, density, |t| gen_script(t, false));
    i.pegin_value = maybe(t, density, |t| t.edgy_u64());
    i.pegin_witness = maybe(t, density, |t| gen_stack(t, false));
    i.issuance_inflation_keys = maybe(t, density, |t| t.edgy_u64());
    i.issuance_inflation_keys_comm = maybe(t, density / 2, |t| p.commitments[t.below(p.commitments.len())]);
    i.issuance_blinding_nonce = maybe(t, density, gen_tweak);
    i.issuance_asset_entropy = maybe(t, density, |t| t.arr32());
    i.in_utxo_rangeproof = maybe(t, density / 2, |t| Box::new(p.rangeproofs[t.below(p.rangeproofs.len())].clone()));
    i.in_issuance_blind_value_proof = maybe(t, density / 2, |t| Box::new(p.rangeproofs[t.below(p.rangeproofs.len())].clone()));
    i.in_issuance_blind_inflation_keys_proof = maybe(t, density / 2, |t| Box::new(p.rangeproofs[t.below(p.rangeproofs.len())].clone()));
    i.amount = maybe(t, density, |t| t.edgy_u64());
    i.blind_value_proof = maybe(t, density / 2, |t| Box::new(p.rangeproofs[t.below(p.rangeproofs.len())].clone()));
    i.asset = maybe(t, density, gen_asset_id);
    i.blind_asset_proof = maybe(t, density / 2, |t| Box::new(p.surjproofs[t.below(p.surjproofs.len())].clone()));
    i.blinded_issuance = maybe(t, density, |t| t.u8());
    for _ in 0..nm(t) {
        let l = t.below(20);
        i.proprietary.insert(gen_prop_key(t, 1), t.bytes(l));
    }
    for _ in 0..nm(t) {
        let l = t.below(20);
        i.unknown.insert(gen_unknown_key(t, 1), t.bytes(l));
    }
    i
}

pub fn gen_output(t: &mut Tape, density: u32, n_inputs: usize) -> Output {
    let p = pool();
    let mut o = Output::default();
    o.script_pubkey = gen_script(t, false);
    // amount / asset: explicit, committed, or both
    match t.below(3) {
        0 => o.amount = Some(t.edgy_u64()),
        1 => o.amount_comm = Some(p.commitments[t.below(p.commitments.len())]),
        _ => {
            o.amount = Some(t.edgy_u64());
            o.amount_comm = Some(p.commitments[t.below(p.commitments.len())]);
        }
    }
    match t.below(3) {
        0 => o.asset = Some(gen_asset_id(t)),
        1 => o.asset_comm = Some(p.generators[t.below(p.generators.len())]),
        _ => {
            o.asset = Some(gen_asset_id(t));
            o.asset_comm = Some(p.generators[t.below(p.generators.len())]);
        }
    }
    // blinding: absent, requested (key + index, nothing blinded yet) or complete
    match t.below(3) {
        0 => {}
        1 => {
            o.blinding_key = Some(gen_btc_key(t));
            o.blinder_index = Some(t.below(n_inputs.max(1)) as u32);
            // nothing blinded yet: explicit fields only
            if o.amount.is_none() {
                o.amount = Some(t.edgy_u64());
            }
            if o.asset.is_none() {
                o.asset = Some(gen_asset_id(t));
            }
            o.amount_comm = None;
            o.asset_comm = None;
        }
        _ => {
            o.blinding_key = Some(gen_btc_key(t));
            o.blinder_index = Some(t.below(n_inputs.max(1)) as u32);
            o.amount_comm = Some(p.commitments[t.below(p.commitments.len())]);
            o.asset_comm = Some(p.generators[t.below(p.generators.len())]);
            o.value_rangeproof = Some(Box::new(p.rangeproofs[t.below(p.rangeproofs.len())].clone()));
            o.asset_surjection_proof = Some(Box::new(p.surjproofs[t.below(p.surjproofs.len())].clone()));
            o.ecdh_pubkey = Some(gen_btc_key(t));
        }
    }
    if o.blinding_key.is_none() {
        // unmarked outputs may carry any subset of the blinding data
        o.value_rangeproof = maybe(t, density / 2, |t| Box::new(p.rangeproofs[t.below(p.rangeproofs.len())].clone()));
        o.asset_surjection_proof = maybe(t, density / 2, |t| Box::new(p.surjproofs[t.below(p.surjproofs.len())].clone()));
        o.ecdh_pubkey = maybe(t, density / 2, gen_btc_key);
        o.blinder_index = maybe(t, density / 2, |t| t.edgy_u32());
    }
    o.blind_value_proof = maybe(t, density / 2, |t| Box::new(p.rangeproofs[t.below(p.rangeproofs.len())].clone()));
    o.blind_asset_proof = maybe(t, density / 2, |t| Box::new(p.surjproofs[t.below(p.surjproofs.len())].clone()));
    o.redeem_script = maybe(t, density, |t| gen_script(t, false));
    o.witness_script = maybe(t, density, |t| gen_script(t, false));
    let nm = |t: &mut Tape| if t.chance(density) { 1 + t.below(3) } else { 0 };
    for _ in 0..nm(t) {
        o.bip32_derivation.insert(gen_btc_key(t), gen_key_source(t));
    }
    o.tap_internal_key = maybe(t, density, gen_xonly);
    if t.chance(density) {
        let max = if t.chance(40) { 24 } else { 6 };
        if let Some((tt, _)) = gen_tap_tree(t, max) {
            o.tap_tree = Some(tt);
        }
    }
    for _ in 0..nm(t) {
        let n = t.below(3);
        let hashes = (0..n).map(|_| gen_leaf_hash(t)).collect();
        o.tap_key_origins.insert(gen_xonly(t), (hashes, gen_key_source(t)));
    }
    for _ in 0..nm(t) {
        let l = t.below(20);
        o.proprietary.insert(gen_prop_key(t, 2), t.bytes(l));
    }
    for _ in 0..nm(t) {
        let l = t.below(20);
        o.unknown.insert(gen_unknown_key(t, 2), t.bytes(l));
    }
    o
}

pub fn gen_xpub(t: &mut Tape) -> Xpub {
    let p = pool();
    let mut fp = [0u8; 4];
    for b in fp.iter_mut() {
        *b = t.u8();
    }
    Xpub {
        network: if t.bool() { NetworkKind::Main } else { NetworkKind::Test },
        depth: t.u8(),
        parent_fingerprint: Fingerprint::from(fp),
        child_number: ChildNumber::from(t.edgy_u32()),
        public_key: p.pubkeys[t.below(p.pubkeys.len())],
        chain_code: ChainCode::from(t.arr32()),
    }
}

pub fn gen_global(t: &mut Tape, density: u32, g: &mut Global) {
    g.tx_data.version = match t.below(3) {
        0 => 2,
        _ => t.edgy_u32(),
    };
    g.tx_data.fallback_locktime = maybe(t, density, |t| LockTime::from_consensus(t.edgy_u32()));
    g.tx_data.tx_modifiable = maybe(t, density, |t| t.u8());
    let nm = |t: &mut Tape| if t.chance(density) { 1 + t.below(3) } else { 0 };
    for _ in 0..nm(t) {
        g.xpub.insert(gen_xpub(t), gen_key_source(t));
    }
    for _ in 0..nm(t) {
        let s = gen_tweak(t);
        if !g.scalars.contains(&s) {
            g.scalars.push(s);
        }
    }
    g.elements_tx_modifiable_flag = maybe(t, density, |t| t.u8());
    for _ in 0..nm(t) {
        let l = t.below(20);
        g.proprietary.insert(gen_prop_key(t, 0), t.bytes(l));
    }
    for _ in 0..nm(t) {
        let l = t.below(20);
        g.unknown.insert(gen_unknown_key(t, 0), t.bytes(l));
    }
}

pub struct PsetOpts {
    pub max_in: usize,
    pub max_out: usize,
    /// make `extract_tx` succeed: a lock time every constraining input supports
    pub extractable: bool,
}
impl Default for PsetOpts {
    fn default() -> Self {
        PsetOpts { max_in: 3, max_out: 3, extractable: false }
    }
}

pub fn gen_pset(t: &mut Tape, o: &PsetOpts) -> Pset {
    let density = t.choose(&[40u32, 100, 160, 230]);
    let mut pset = Pset::new_v2();
    gen_global(t, density, &mut pset.global);
    let nin = t.below(o.max_in + 1);
    let nout = t.below(o.max_out + 1);
    for _ in 0..nin {
        let mut i = gen_input(t, density);
        if o.extractable {
            // keep the BIP370 lock-time selection satisfiable: drop time locks
            i.required_time_locktime = None;
        }
        pset.add_input(i);
    }
    for _ in 0..nout {
        pset.add_output(gen_output(t, density, nin));
    }
    pset
}

/// structural features for histograms / non-triviality
pub fn pset_features(p: &Pset) -> Vec<&'static str> {
    let mut f = Vec::new();
    let ins = p.inputs();
    let outs = p.outputs();
    if ins.iter().any(|i| i.tap_key_sig.is_some() || !i.tap_script_sigs.is_empty() || !i.tap_scripts.is_empty() || !i.tap_key_origins.is_empty() || i.tap_internal_key.is_some() || i.tap_merkle_root.is_some()) {
        f.push("in-taproot");
    }
    if ins.iter().any(|i| !i.ripemd160_preimages.is_empty() || !i.sha256_preimages.is_empty() || !i.hash160_preimages.is_empty() || !i.hash256_preimages.is_empty()) {
        f.push("preimages");
    }
    if ins.iter().any(|i| i.pegin_tx.is_some() || i.pegin_txout_proof.is_some() || i.pegin_witness.is_some() || i.pegin_value.is_some() || i.pegin_claim_script.is_some() || i.pegin_genesis_hash.is_some()) {
        f.push("pegin-fields");
    }
    if ins.iter().any(|i| i.issuance_value_rangeproof.is_some() || i.in_utxo_rangeproof.is_some() || i.blind_value_proof.is_some() || i.blind_asset_proof.is_some())
        || outs.iter().any(|o| o.value_rangeproof.is_some() || o.asset_surjection_proof.is_some() || o.blind_value_proof.is_some() || o.blind_asset_proof.is_some())
    {
        f.push("proof-fields");
    }
    if outs.iter().any(|o| o.tap_tree.is_some()) {
        f.push("tap-tree");
    }
    if outs.iter().any(|o| o.is_fully_blinded()) {
        f.push("blinded-output");
    }
    if ins.iter().any(|i| !i.proprietary.is_empty() || !i.unknown.is_empty()) || outs.iter().any(|o| !o.proprietary.is_empty() || !o.unknown.is_empty()) || !p.global.proprietary.is_empty() || !p.global.unknown.is_empty() {
        f.push("proprietary/unknown");
    }
    if !p.global.xpub.is_empty() {
        f.push("xpub");
    }
    if !p.global.scalars.is_empty() {
        f.push("scalars");
    }
    f
}

/// leaves (depth, version, script) of a tap tree, read through the spend-info accessors (not the
/// PSET codec): sorted, duplicates at the same position collapse
pub fn tap_tree_leaves(tt: &TapTree) -> Vec<(u8, u8, Vec<u8>)> {
    let p = pool();
    let key = p.pubkeys[0].x_only_public_key().0;
    let mut out = Vec::new();
    if let Ok(info) = tt.clone().into_inner().finalize(super::secp(), key) {
        for ((script, ver), branches) in info.as_script_map() {
            for b in branches {
                out.push((b.as_inner().len() as u8, ver.as_u8(), script.to_bytes()));
            }
        }
    }
    out.sort();
    out
}

pub type LeafList = Vec<(u8, u8, Vec<u8>)>;
pub fn all_tap_leaves(p: &Pset) -> BTreeMap<usize, LeafList> {
    let mut m = BTreeMap::new();
    for (i, o) in p.outputs().iter().enumerate() {
        if let Some(tt) = &o.tap_tree {
            m.insert(i, tap_tree_leaves(tt));
        }
    }
    m
}
