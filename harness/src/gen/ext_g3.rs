//! Extensions for C04 / C05 / C09 (review g3).
//!
//! * scalar arithmetic modulo the secp256k1 group order and the *last value blinding factor*
//!   computed from it (so that hand-built verifying bases do not depend on
//!   `ValueBlindingFactor::last`),
//! * wider output scripts (P2WSH, v1 programs of every admissible length, v2..v16) and
//!   OP_RETURN / oversize "burn" scripts, including ill-formed OP_RETURN scripts,
//! * `gen_ct_case_ext`: `gen::ct::gen_ct_case` with these scripts, explicit nonces on unmarked
//!   outputs, positive amounts on burn scripts and a class of amounts at 2^63 / 2^64,
//! * `ref_verify`: confidential amount verification written from the Elements consensus rule
//!   (`VerifyAmounts`) on the secp256k1-zkp primitives, independent of
//!   `Transaction::verify_tx_amt_proofs`, `TxIn::issuance_ids` and `Script::is_provably_unspendable`.
use std::collections::BTreeMap;

use elements::confidential::{Asset, AssetBlindingFactor, Nonce, Value, ValueBlindingFactor};
use elements::secp256k1_zkp::{self as zkp, Generator, PedersenCommitment, PublicKey};
use elements::{AssetId, AssetIssuance, LockTime, OutPoint, Script, Sequence, Transaction, TxIn, TxInWitness, TxOut, TxOutSecrets, TxOutWitness};

use super::ct::{abf_from, gen_amount, ref_issuance_ids, vbf_from, CtCase};
use super::{gen_tweak, gen_txid, gen_vout, pool, secp};
use crate::engine::Tape;

// ---- scalars modulo the group order ----------------------------------------------------------

/// little-endian 64-bit limbs
pub type Scalar = [u64; 4];
const ORDER: Scalar = [0xBFD2_5E8C_D036_4141, 0xBAAE_DCE6_AF48_A03B, 0xFFFF_FFFF_FFFF_FFFE, 0xFFFF_FFFF_FFFF_FFFF];

pub fn sc_from_be(b: &[u8]) -> Scalar {
    let mut s = [0u64; 4];
    for (i, byte) in b.iter().rev().take(32).enumerate() {
        s[i / 8] |= u64::from(*byte) << (8 * (i % 8));
    }
    // blinding factors are valid scalars already; reduce anyway
    if geq(&s, &ORDER) {
        s = sub_raw(&s, &ORDER).0;
    }
    s
}
pub fn sc_to_be(s: &Scalar) -> [u8; 32] {
    let mut out = [0u8; 32];
    for i in 0..32 {
        out[31 - i] = (s[i / 8] >> (8 * (i % 8))) as u8;
    }
    out
}
fn geq(a: &Scalar, b: &Scalar) -> bool {
    for i in (0..4).rev() {
        if a[i] != b[i] {
            return a[i] > b[i];
        }
    }
    true
}
fn sub_raw(a: &Scalar, b: &Scalar) -> (Scalar, bool) {
    let mut out = [0u64; 4];
    let mut borrow = false;
    for i in 0..4 {
        let (d1, b1) = a[i].overflowing_sub(b[i]);
        let (d2, b2) = d1.overflowing_sub(u64::from(borrow));
        out[i] = d2;
        borrow = b1 || b2;
    }
    (out, borrow)
}
pub fn sc_add(a: &Scalar, b: &Scalar) -> Scalar {
    let mut out = [0u64; 4];
    let mut carry = false;
    for i in 0..4 {
        let (s1, c1) = a[i].overflowing_add(b[i]);
        let (s2, c2) = s1.overflowing_add(u64::from(carry));
        out[i] = s2;
        carry = c1 || c2;
    }
    if carry || geq(&out, &ORDER) {
        out = sub_raw(&out, &ORDER).0;
    }
    out
}
pub fn sc_neg(a: &Scalar) -> Scalar {
    if a.iter().all(|l| *l == 0) {
        *a
    } else {
        sub_raw(&ORDER, a).0
    }
}
/// a * v (double and add over the 64 bits of v)
pub fn sc_mul_u64(a: &Scalar, v: u64) -> Scalar {
    let mut r = [0u64; 4];
    for bit in (0..64).rev() {
        r = sc_add(&r, &r);
        if (v >> bit) & 1 == 1 {
            r = sc_add(&r, a);
        }
    }
    r
}

/// The value blinding factor of the output that balances the transaction:
/// sum_in (v*abf + vbf) - sum_other_outs (v*abf + vbf) - value*abf   (mod n),
/// because a commitment is v*H_asset + (v*abf + vbf)*G.
pub fn ref_last_vbf(
    value: u64,
    abf: AssetBlindingFactor,
    ins: &[(u64, AssetBlindingFactor, ValueBlindingFactor)],
    outs: &[(u64, AssetBlindingFactor, ValueBlindingFactor)],
) -> Option<ValueBlindingFactor> {
    let term = |v: u64, a: &AssetBlindingFactor, b: &ValueBlindingFactor| -> Scalar {
        sc_add(&sc_mul_u64(&sc_from_be(a.into_inner().as_ref()), v), &sc_from_be(b.into_inner().as_ref()))
    };
    let mut acc = [0u64; 4];
    for (v, a, b) in ins {
        acc = sc_add(&acc, &term(*v, a, b));
    }
    for (v, a, b) in outs {
        acc = sc_add(&acc, &sc_neg(&term(*v, a, b)));
    }
    acc = sc_add(&acc, &sc_neg(&term(value, &abf, &ValueBlindingFactor::zero())));
    ValueBlindingFactor::from_slice(&sc_to_be(&acc)).ok()
}

// ---- scripts -----------------------------------------------------------------------------------

/// Scripts that `Address::from_script` understands: the four of `ct::std_script` (alternatives
/// 0..3, in the same order) plus P2WSH, v1 programs of the other admissible lengths and v2..v16
/// programs. The flag says whether the script is one of the new shapes.
pub fn std_script_ext(t: &mut Tape) -> (Script, bool) {
    match t.below(7) {
        0 => {
            let mut v = vec![0x76, 0xa9, 0x14];
            v.extend_from_slice(&t.arr20());
            v.extend_from_slice(&[0x88, 0xac]);
            (Script::from(v), false)
        }
        1 => {
            let mut v = vec![0xa9, 0x14];
            v.extend_from_slice(&t.arr20());
            v.push(0x87);
            (Script::from(v), false)
        }
        2 => {
            let mut v = vec![0x00, 0x14];
            v.extend_from_slice(&t.arr20());
            (Script::from(v), false)
        }
        3 => {
            let mut v = vec![0x51, 0x20];
            v.extend_from_slice(&t.arr32());
            (Script::from(v), false)
        }
        4 => {
            let mut v = vec![0x00, 0x20];
            v.extend_from_slice(&t.arr32());
            (Script::from(v), true)
        }
        5 => {
            let n = t.choose(&[2usize, 20, 33, 40, 3, 39]);
            let mut v = vec![0x51, n as u8];
            v.extend(t.bytes(n));
            (Script::from(v), true)
        }
        _ => {
            let ver = 2 + t.below(15) as u8; // 2..=16
            let n = t.choose(&[32usize, 2, 20, 33, 40]);
            let mut v = vec![0x50 + ver, n as u8];
            v.extend(t.bytes(n));
            (Script::from(v), true)
        }
    }
}

/// Scripts that start with OP_RETURN, well-formed or not: consensus `IsUnspendable` only looks at
/// the first byte (and the size).
pub fn op_return_script(t: &mut Tape) -> (Script, &'static str) {
    match t.below(6) {
        0 => (Script::from(vec![0x6a]), "op-return:bare"),
        1 => {
            let n = 1 + t.below(29);
            let mut v = vec![0x6a, n as u8];
            v.extend(t.bytes(n));
            (Script::from(v), "op-return:one-push")
        }
        2 => {
            // raw bytes after OP_RETURN, not framed as a push
            let n = 1 + t.below(40);
            let mut v = vec![0x6a];
            v.extend(t.bytes(n));
            (Script::from(v), "op-return:raw-tail")
        }
        3 => {
            let tail: &[u8] = t.choose(&[
                &[0x4c][..],             // OP_PUSHDATA1 without a length
                &[0x4d, 0xff, 0xff][..], // OP_PUSHDATA2 announcing 65535 missing bytes
                &[0x4d, 0x05][..],       // OP_PUSHDATA2 with half a length
                &[0x05, 0x01][..],       // direct push cut short
                &[0x76][..],             // non-push opcode
                &[0x61][..],
                &[0xff][..],
                &[0x6a][..],
                &[0x4e, 0x01, 0x00, 0x00][..],
            ]);
            let mut v = vec![0x6a];
            v.extend_from_slice(tail);
            (Script::from(v), "op-return:ill-formed-specimen")
        }
        4 => {
            let mut v = vec![0x6a, 0x20];
            v.extend_from_slice(&t.arr32());
            (Script::from(v), "op-return:one-push")
        }
        _ => {
            if t.chance(64) {
                let mut v = vec![0x6a];
                v.extend(t.filler(10_000));
                (Script::from(v), "op-return:10001-bytes")
            } else {
                (Script::from(vec![0x6a, 0x00]), "op-return:one-push")
            }
        }
    }
}

/// a provably unspendable script that is not the empty one: OP_RETURN first, or more than 10000 bytes
pub fn burn_script(t: &mut Tape) -> (Script, &'static str) {
    if t.chance(24) {
        (Script::from(vec![0x51; 10_001]), "oversize:10001-bytes")
    } else {
        op_return_script(t)
    }
}

/// the harness's reading of consensus `CScript::IsUnspendable` plus the Elements fee rule
pub fn ref_unspendable(s: &Script) -> bool {
    let b = s.as_bytes();
    b.is_empty() || b[0] == 0x6a || b.len() > 10_000
}

// ---- balanced explicit transactions, wider shapes ----------------------------------------------

#[derive(Clone, Copy, Default)]
pub struct CtOpts {
    pub allow_unmarked: bool,
    /// P2WSH / v1 other lengths / v2..v16 scripts on outputs and spent outputs
    pub ext_scripts: bool,
    /// `Nonce::Explicit` on some unmarked, non-fee outputs
    pub explicit_nonces: bool,
    /// positive explicit amounts on OP_RETURN / oversize scripts (unmarked outputs)
    pub burn_outputs: bool,
    /// 24 cases in 256: a single input of 2^63-1 .. 2^64-1
    pub huge: bool,
}

pub struct CtExt {
    pub case: CtCase,
    pub huge: bool,
    /// output indices: positive amount on a burn script
    pub burn: Vec<usize>,
    /// output indices: unmarked with an explicit nonce
    pub explicit_nonce: Vec<usize>,
    /// marked output indices whose script is one of the new address shapes
    pub ext_marked: Vec<usize>,
}

impl CtExt {
    /// a marked output with a new-shape script that is not the last marked one (its script is
    /// rebuilt from an `Address` by `Transaction::blind`)
    pub fn ext_script_on_non_last_marked(&self) -> bool {
        let last = self.case.receivers.keys().next_back().copied();
        self.ext_marked.iter().any(|i| Some(*i) != last)
    }
}

fn script_for(t: &mut Tape, o: &CtOpts) -> (Script, bool) {
    if o.ext_scripts {
        std_script_ext(t)
    } else {
        (super::ct::std_script(t), false)
    }
}

fn split(t: &mut Tape, total: u64, parts: usize) -> Vec<u64> {
    let mut out = Vec::with_capacity(parts);
    let mut rest = total;
    for k in 0..parts {
        let remaining_parts = (parts - k - 1) as u64;
        if remaining_parts == 0 {
            out.push(rest);
        } else {
            let max = rest - remaining_parts;
            let v = match t.below(4) {
                0 => 1,
                1 => max,
                _ => 1 + ((u128::from(t.u64()) * u128::from(max)) >> 64) as u64,
            }
            .clamp(1, max);
            out.push(v);
            rest -= v;
        }
    }
    out
}

struct Out {
    asset: AssetId,
    value: u64,
    fee: bool,
    marked: bool,
    script: Script,
    ext: bool,
    burn: bool,
    nonce: Nonce,
}

/// `ct::gen_ct_case` with the shapes of `CtOpts`
pub fn gen_ct_case_ext(t: &mut Tape, o: CtOpts) -> CtExt {
    let p = pool();
    let huge = o.huge && t.chance(24);
    let n_assets = if huge { 1 } else { 1 + t.below(3) };
    let n_in = if huge { 1 } else { 1 + t.below(4) };
    let mut totals: BTreeMap<AssetId, u128> = BTreeMap::new();
    let mut input = Vec::new();
    let mut spent = Vec::new();
    let mut secrets = Vec::new();
    let mut has_issuance = false;
    let mut has_conf_input = false;
    let mut has_partial_input = false;
    for in_idx in 0..n_in {
        let asset = p.assets[t.below(n_assets)];
        let value = if huge { t.choose(&[(1u64 << 63) - 1, 1u64 << 63, (1u64 << 63) + 1, u64::MAX, (1u64 << 62) + 1]) } else { gen_amount(t) };
        let form = t.u8();
        let conf = form & 1 == 1;
        let partial = form >= 0xc0;
        let (abf, vbf) = match (conf, partial) {
            (true, false) => (abf_from(t, in_idx as u32), vbf_from(t, in_idx as u32)),
            (true, true) => (abf_from(t, in_idx as u32), ValueBlindingFactor::zero()),
            (false, true) => (AssetBlindingFactor::zero(), vbf_from(t, in_idx as u32)),
            (false, false) => (AssetBlindingFactor::zero(), ValueBlindingFactor::zero()),
        };
        let utxo = if conf || partial {
            has_conf_input = true;
            if partial {
                has_partial_input = true;
            }
            TxOut {
                asset: if abf == AssetBlindingFactor::zero() { Asset::Explicit(asset) } else { Asset::new_confidential(secp(), asset, abf) },
                value: if vbf == ValueBlindingFactor::zero() { Value::Explicit(value) } else { Value::new_confidential_from_assetid(secp(), value, asset, vbf, abf) },
                nonce: if t.bool() { Nonce::Confidential(p.pubkeys[t.below(p.pubkeys.len())]) } else { Nonce::Null },
                script_pubkey: script_for(t, &o).0,
                witness: TxOutWitness::empty(),
            }
        } else {
            TxOut { asset: Asset::Explicit(asset), value: Value::Explicit(value), nonce: Nonce::Null, script_pubkey: script_for(t, &o).0, witness: TxOutWitness::empty() }
        };
        *totals.entry(asset).or_insert(0) += u128::from(value);
        secrets.push(TxOutSecrets::new(asset, abf, value, vbf));
        spent.push(utxo);
        let mut txin = TxIn {
            previous_output: OutPoint { txid: gen_txid(t), vout: gen_vout(t) },
            is_pegin: false,
            script_sig: Script::new(),
            sequence: Sequence(t.edgy_u32()),
            asset_issuance: AssetIssuance::null(),
            witness: TxInWitness::empty(),
        };
        match if huge { 5 } else { t.below(6) } {
            0 => {
                has_issuance = true;
                let (amount, keys) = match t.below(3) {
                    0 => (Some(gen_amount(t)), None),
                    1 => (Some(gen_amount(t)), Some(gen_amount(t))),
                    _ => (None, Some(gen_amount(t))),
                };
                txin.asset_issuance = AssetIssuance {
                    asset_blinding_nonce: zkp::ZERO_TWEAK,
                    asset_entropy: t.arr32(),
                    amount: amount.map_or(Value::Null, Value::Explicit),
                    inflation_keys: keys.map_or(Value::Null, Value::Explicit),
                };
                let (asset_id, token_id) = ref_issuance_ids(&txin);
                if let Some(amount) = amount {
                    *totals.entry(asset_id).or_insert(0) += u128::from(amount);
                    secrets.push(TxOutSecrets::new(asset_id, AssetBlindingFactor::zero(), amount, ValueBlindingFactor::zero()));
                }
                if let Some(k) = keys {
                    *totals.entry(token_id).or_insert(0) += u128::from(k);
                    secrets.push(TxOutSecrets::new(token_id, AssetBlindingFactor::zero(), k, ValueBlindingFactor::zero()));
                }
            }
            1 => {
                has_issuance = true;
                let amount = gen_amount(t);
                txin.asset_issuance = AssetIssuance { asset_blinding_nonce: gen_tweak(t), asset_entropy: t.arr32(), amount: Value::Explicit(amount), inflation_keys: Value::Null };
                let (asset_id, _) = ref_issuance_ids(&txin);
                *totals.entry(asset_id).or_insert(0) += u128::from(amount);
                secrets.push(TxOutSecrets::new(asset_id, AssetBlindingFactor::zero(), amount, ValueBlindingFactor::zero()));
            }
            _ => {}
        }
        input.push(txin);
    }
    let mut outs: Vec<Out> = Vec::new();
    // the range proof parameters (minimum value 1) admit amounts up to 2^63-1 (secp256k1-zkp refuses a
    // non-zero minimum together with a value above INT64_MAX)
    const MAX_BLINDABLE: u64 = (1 << 63) - 1;
    for (asset, total) in &totals {
        let total = u64::try_from(*total).unwrap_or(u64::MAX);
        if huge {
            // one or two outputs; a part above 2^63 stays explicit
            let rnd = 1 + (t.u64() >> 1);
            let first = t.choose(&[total, 1, MAX_BLINDABLE, MAX_BLINDABLE - 1, total - 1, rnd, total - MAX_BLINDABLE.min(total - 1), MAX_BLINDABLE]).clamp(1, total);
            let mut parts = vec![first];
            if total > first {
                parts.push(total - first);
            }
            let mut any_marked = false;
            let n_parts = parts.len();
            for (k, v) in parts.into_iter().enumerate() {
                let can_mark = v <= MAX_BLINDABLE;
                let must_mark = !any_marked && !o.allow_unmarked && (k + 1 == n_parts);
                let marked = can_mark && (must_mark || t.chance(170));
                any_marked |= marked;
                let fee = !marked && t.bool();
                let (script, ext) = if fee { (Script::new(), false) } else { script_for(t, &o) };
                outs.push(Out { asset: *asset, value: v, fee, marked, script, ext, burn: false, nonce: Nonce::Null });
            }
            if !any_marked && !o.allow_unmarked {
                // total above 2^63 in one part: split it so that something can be blinded
                if let Some(last) = outs.last_mut() {
                    last.value -= 1;
                }
                let (script, ext) = script_for(t, &o);
                outs.push(Out { asset: *asset, value: 1, fee: false, marked: true, script, ext, burn: false, nonce: Nonce::Null });
            }
            continue;
        }
        let max_parts = total.min(3) as usize;
        let parts = 1 + t.below(max_parts);
        for v in split(t, total, parts) {
            let fee = t.chance(40);
            let marked = !fee && t.chance(150);
            let (mut script, mut ext) = if fee { (Script::new(), false) } else { script_for(t, &o) };
            let mut burn = false;
            let mut nonce = Nonce::Null;
            if !fee && !marked {
                if o.burn_outputs && t.chance(80) {
                    script = burn_script(t).0;
                    ext = false;
                    burn = true;
                }
                if o.explicit_nonces && t.chance(64) {
                    nonce = Nonce::Explicit(t.arr32());
                }
            }
            outs.push(Out { asset: *asset, value: v, fee, marked, script, ext, burn, nonce });
        }
    }
    if !o.allow_unmarked && !outs.iter().any(|x| x.marked) {
        let k = t.below(outs.len());
        outs[k].fee = false;
        outs[k].marked = true;
        outs[k].nonce = Nonce::Null;
        if outs[k].script.is_empty() || outs[k].burn {
            let (s, e) = script_for(t, &o);
            outs[k].script = s;
            outs[k].ext = e;
            outs[k].burn = false;
        }
    }
    for i in (1..outs.len()).rev() {
        let k = t.below(i + 1);
        outs.swap(i, k);
    }
    let mut receivers = BTreeMap::new();
    let mut output = Vec::new();
    let mut burn = Vec::new();
    let mut explicit_nonce = Vec::new();
    let mut ext_marked = Vec::new();
    for (i, x) in outs.iter().enumerate() {
        let nonce = if x.marked {
            let k = t.below(p.seckeys.len());
            receivers.insert(i, p.seckeys[k]);
            if x.ext {
                ext_marked.push(i);
            }
            Nonce::Confidential(PublicKey::from_secret_key(secp(), &p.seckeys[k]))
        } else {
            if x.burn {
                burn.push(i);
            }
            if x.nonce != Nonce::Null {
                explicit_nonce.push(i);
            }
            x.nonce
        };
        output.push(TxOut { asset: Asset::Explicit(x.asset), value: Value::Explicit(x.value), nonce, script_pubkey: x.script.clone(), witness: TxOutWitness::empty() });
    }
    let tx = Transaction { version: 2, lock_time: LockTime::ZERO, input, output };
    let case = CtCase { tx, spent, secrets, receivers, rng_seed: t.arr32(), n_assets: totals.len(), has_issuance, has_conf_input, has_partial_input };
    CtExt { case, huge, burn, explicit_nonce, ext_marked }
}

// ---- independent amount verification --------------------------------------------------------

fn asset_gen(a: &Asset) -> Option<Generator> {
    match a {
        Asset::Null => None,
        Asset::Explicit(id) => Some(Generator::new_unblinded(secp(), id.into_tag())),
        Asset::Confidential(g) => Some(*g),
    }
}

/// Elements `VerifyAmounts` on the zkp primitives: per-asset balance of inputs + issuances against
/// outputs, a valid range proof (bound to commitment, script and asset generator) on every
/// confidential amount, a valid surjection proof over (input, its issuance, its token, next
/// input, ...) on every confidential asset, zero amounts only on provably unspendable scripts.
pub fn ref_verify(tx: &Transaction, spent: &[TxOut]) -> Result<(), String> {
    let s = secp();
    if spent.len() != tx.input.len() {
        return Err("spent-output count differs from input count".into());
    }
    let mut domain: Vec<Generator> = Vec::new();
    let mut ins: Vec<PedersenCommitment> = Vec::new();
    let mut outs: Vec<PedersenCommitment> = Vec::new();
    for (i, inp) in tx.input.iter().enumerate() {
        let g = asset_gen(&spent[i].asset).ok_or_else(|| format!("spent output {} has a null asset", i))?;
        domain.push(g);
        match spent[i].value {
            Value::Null => return Err(format!("spent output {} has a null value", i)),
            Value::Explicit(0) => return Err(format!("spent output {} has a zero value", i)),
            Value::Explicit(v) => ins.push(PedersenCommitment::new_unblinded(s, v, g)),
            Value::Confidential(c) => ins.push(c),
        }
        let iss = &inp.asset_issuance;
        if !(iss.amount.is_null() && iss.inflation_keys.is_null()) {
            let (asset_id, token_id) = ref_issuance_ids(inp);
            for (amt, id) in [(iss.amount, asset_id), (iss.inflation_keys, token_id)] {
                let g = Generator::new_unblinded(s, id.into_tag());
                match amt {
                    Value::Null => {}
                    Value::Explicit(0) => return Err(format!("input {} issues a zero amount", i)),
                    Value::Explicit(v) => {
                        domain.push(g);
                        ins.push(PedersenCommitment::new_unblinded(s, v, g));
                    }
                    Value::Confidential(c) => {
                        domain.push(g);
                        ins.push(c);
                    }
                }
            }
        }
    }
    for (i, out) in tx.output.iter().enumerate() {
        let g = asset_gen(&out.asset).ok_or_else(|| format!("output {} has a null asset", i))?;
        match out.value {
            Value::Null => return Err(format!("output {} has a null value", i)),
            Value::Explicit(0) => {
                if !ref_unspendable(&out.script_pubkey) {
                    return Err(format!("output {} has a zero value on a spendable script", i));
                }
            }
            Value::Explicit(v) => outs.push(PedersenCommitment::new_unblinded(s, v, g)),
            Value::Confidential(c) => {
                outs.push(c);
                let rp = out.witness.rangeproof.as_ref().ok_or_else(|| format!("output {} lacks a range proof", i))?;
                rp.verify(s, c, out.script_pubkey.as_bytes(), g).map_err(|e| format!("range proof of output {} is invalid: {}", i, e))?;
            }
        }
        if let Asset::Confidential(g) = out.asset {
            let sp = out.witness.surjection_proof.as_ref().ok_or_else(|| format!("output {} lacks a surjection proof", i))?;
            if !sp.verify(s, g, &domain) {
                return Err(format!("surjection proof of output {} is invalid for the domain (input, its issuance, its token, ...) of {} generators", i, domain.len()));
            }
        }
    }
    if !zkp::verify_commitments_sum_to_equal(s, &ins, &outs) {
        return Err("input and issuance commitments do not sum to the output commitments".into());
    }
    Ok(())
}
