//! Tape-driven generators of canonical `elements` values (shared by all properties).
//!
//! Canonical-value rules (read off the decoder, see DESIGN.md 3.1): `vout < 2^30` unless
//! `vout == 0xffffffff` (which carries no pegin / issuance flag), header version has bit 31
//! clear, an issuance is present iff it is not null, nonces are Null / 32-byte explicit / valid
//! compressed public key, commitments are real curve points.

pub mod ct;
pub mod pool;
pub mod pset;
pub mod mutate;
pub mod ext_g1;
pub mod ext_g2;
pub mod ext_g3;
pub mod ext_g5;
pub mod ext_g6;
pub mod ext_g7;

use crate::refimpl::Variant as _;
use crate::engine::Tape;
use elements::confidential::{Asset, Nonce, Value};
use elements::hashes::Hash as _;
use elements::secp256k1_zkp::{self as zkp, Tweak, ZERO_TWEAK};
use elements::{
    dynafed, AssetId, AssetIssuance, Block, BlockExtData, BlockHash, BlockHeader, LockTime, OutPoint, Script,
    Sequence, Transaction, TxIn, TxInWitness, TxMerkleNode, TxOut, TxOutWitness, Txid,
};
pub use pool::{pool, secp};

pub fn gen_script(t: &mut Tape, big: bool) -> Script {
    let kind = t.below(10);
    let bytes: Vec<u8> = match kind {
        0 | 1 => vec![],
        2 => {
            // p2pkh
            let mut v = vec![0x76, 0xa9, 0x14];
            v.extend_from_slice(&t.arr20());
            v.extend_from_slice(&[0x88, 0xac]);
            v
        }
        3 => {
            let mut v = vec![0x00, 0x14];
            v.extend_from_slice(&t.arr20());
            v
        }
        4 => {
            let mut v = vec![0x51, 0x20];
            v.extend_from_slice(&t.arr32());
            v
        }
        5 => {
            // OP_RETURN + data
            let n = t.below(40);
            let mut v = vec![0x6a];
            if n > 0 {
                v.push(n as u8);
                v.extend_from_slice(&t.bytes(n));
            }
            v
        }
        6 => {
            let n = t.below(8);
            t.bytes(n)
        }
        _ => {
            let n = t.len(80, big);
            if n > 80 {
                t.filler(n)
            } else {
                t.bytes(n)
            }
        }
    };
    Script::from(bytes)
}

pub fn gen_txid(t: &mut Tape) -> Txid {
    match t.below(6) {
        0 => Txid::from_byte_array([0u8; 32]),
        1 => Txid::from_byte_array([0xff; 32]),
        _ => Txid::from_byte_array(t.arr32()),
    }
}

/// canonical plain index: below 2^30
pub fn gen_vout(t: &mut Tape) -> u32 {
    match t.below(8) {
        0 | 1 => 0,
        2 => 1,
        3 => (1 << 30) - 1,
        4 => t.u8() as u32,
        5 => 1 << t.below(30),
        _ => t.u32() & ((1 << 30) - 1),
    }
}

pub fn gen_tweak(t: &mut Tape) -> Tweak {
    // valid scalar below the curve order; an invalid draw falls back to a pool element
    if t.bool() {
        let b = t.arr32();
        if let Ok(tw) = Tweak::from_inner(b) {
            if zkp::SecretKey::from_slice(&b).is_ok() {
                return tw;
            }
        }
    }
    let p = pool();
    p.tweaks[t.below(p.tweaks.len())]
}

pub fn gen_value(t: &mut Tape) -> Value {
    match t.below(4) {
        0 => Value::Null,
        1 | 2 => Value::Explicit(t.edgy_u64()),
        _ => {
            let p = pool();
            Value::Confidential(p.commitments[t.below(p.commitments.len())])
        }
    }
}
pub fn gen_value_nonnull(t: &mut Tape) -> Value {
    match gen_value(t) {
        Value::Null => Value::Explicit(t.edgy_u64()),
        v => v,
    }
}

pub fn gen_asset_id(t: &mut Tape) -> AssetId {
    match t.below(4) {
        0 => pool().assets[0],
        1 => {
            let p = pool();
            p.assets[t.below(p.assets.len())]
        }
        _ => AssetId::from_byte_array(t.arr32()),
    }
}

pub fn gen_asset(t: &mut Tape) -> Asset {
    match t.below(4) {
        0 => Asset::Null,
        1 | 2 => Asset::Explicit(gen_asset_id(t)),
        _ => {
            let p = pool();
            Asset::Confidential(p.generators[t.below(p.generators.len())])
        }
    }
}
pub fn gen_asset_nonnull(t: &mut Tape) -> Asset {
    match gen_asset(t) {
        Asset::Null => Asset::Explicit(gen_asset_id(t)),
        a => a,
    }
}

pub fn gen_nonce(t: &mut Tape) -> Nonce {
    match t.below(4) {
        0 | 1 => Nonce::Null,
        2 => Nonce::Explicit(t.arr32()),
        _ => {
            let p = pool();
            Nonce::Confidential(p.pubkeys[t.below(p.pubkeys.len())])
        }
    }
}
/// Null or a public key (what PSET conversions can carry)
pub fn gen_nonce_key_or_null(t: &mut Tape) -> Nonce {
    match gen_nonce(t) {
        Nonce::Explicit(_) => Nonce::Null,
        n => n,
    }
}

pub fn gen_issuance_nonnull(t: &mut Tape) -> AssetIssuance {
    let reissue = t.bool();
    let (amount, inflation_keys) = match t.below(3) {
        0 => (gen_value_nonnull(t), Value::Null),
        1 => (Value::Null, gen_value_nonnull(t)),
        _ => (gen_value_nonnull(t), gen_value_nonnull(t)),
    };
    AssetIssuance {
        asset_blinding_nonce: if reissue { gen_tweak(t) } else { ZERO_TWEAK },
        asset_entropy: if t.chance(40) { [0u8; 32] } else { t.arr32() },
        amount,
        inflation_keys,
    }
}

pub fn gen_rangeproof(t: &mut Tape) -> Option<Box<zkp::RangeProof>> {
    if t.bool() {
        let p = pool();
        Some(Box::new(p.rangeproofs[t.below(p.rangeproofs.len())].clone()))
    } else {
        None
    }
}
pub fn gen_surjproof(t: &mut Tape) -> Option<Box<zkp::SurjectionProof>> {
    if t.bool() {
        let p = pool();
        Some(Box::new(p.surjproofs[t.below(p.surjproofs.len())].clone()))
    } else {
        None
    }
}

pub fn gen_stack(t: &mut Tape, big: bool) -> Vec<Vec<u8>> {
    let n = if big && t.chance(6) { t.choose(&[0xfc, 0xfd, 0xfe, 0x100]) } else { t.len(5, false).min(6) };
    (0..n)
        .map(|_| {
            if n > 8 {
                let l = t.below(3);
                t.filler(l)
            } else {
                let l = t.len(70, big);
                if l > 70 {
                    t.filler(l)
                } else {
                    t.bytes(l)
                }
            }
        })
        .collect()
}

pub fn gen_in_witness(t: &mut Tape, big: bool) -> TxInWitness {
    if t.chance(100) {
        return TxInWitness::empty();
    }
    TxInWitness {
        amount_rangeproof: gen_rangeproof(t),
        inflation_keys_rangeproof: gen_rangeproof(t),
        script_witness: if t.bool() { gen_stack(t, big) } else { vec![] },
        pegin_witness: if t.bool() { gen_stack(t, big) } else { vec![] },
    }
}
pub fn gen_out_witness(t: &mut Tape) -> TxOutWitness {
    if t.chance(100) {
        return TxOutWitness::empty();
    }
    TxOutWitness { surjection_proof: gen_surjproof(t), rangeproof: gen_rangeproof(t) }
}

#[derive(Clone, Copy)]
pub struct TxOpts {
    /// allow vectors / scripts crossing the 0xfd and 0x10000 compact-size boundaries
    pub big: bool,
    /// allow inputs with vout 0xffffffff (coinbase-style, no flags)
    pub coinbase: bool,
    /// witnesses allowed
    pub witness: bool,
    pub max_in: usize,
    pub max_out: usize,
    /// PSET-convertible: pegin witness only on pegins, issuance proofs only on issuances,
    /// non-null asset and value, nonce Null or key
    pub wellformed: bool,
}
impl Default for TxOpts {
    fn default() -> Self {
        TxOpts { big: true, coinbase: true, witness: true, max_in: 4, max_out: 4, wellformed: false }
    }
}

/// A stand-alone TxIn (witness left empty unless `o.witness`)
pub fn gen_txin(t: &mut Tape, o: &TxOpts) -> TxIn {
    let kind = t.below(8);
    let coinbase = o.coinbase && kind == 0;
    let previous_output = if coinbase {
        if t.bool() {
            OutPoint::null()
        } else {
            OutPoint { txid: gen_txid(t), vout: 0xffff_ffff }
        }
    } else {
        OutPoint { txid: gen_txid(t), vout: gen_vout(t) }
    };
    let mut is_pegin = !coinbase && matches!(kind, 1 | 2);
    let has_iss = !coinbase && matches!(kind, 2 | 3 | 4);
    if is_pegin && has_iss && previous_output.vout == 0x3fff_ffff {
        // index 2^30-1 with both flag bits would serialize as 0xffffffff, the flag-exempt
        // coinbase index: not a representable (canonical) input in the Elements format
        is_pegin = false;
    }
    let asset_issuance = if has_iss { gen_issuance_nonnull(t) } else { AssetIssuance::null() };
    let mut witness = if o.witness { gen_in_witness(t, o.big) } else { TxInWitness::empty() };
    if o.wellformed {
        if !is_pegin {
            witness.pegin_witness.clear();
        }
        if !has_iss {
            witness.amount_rangeproof = None;
            witness.inflation_keys_rangeproof = None;
        }
    }
    TxIn {
        previous_output,
        is_pegin,
        script_sig: if t.chance(80) { gen_script(t, o.big) } else { Script::new() },
        sequence: Sequence(t.edgy_u32()),
        asset_issuance,
        witness,
    }
}

pub fn gen_txout(t: &mut Tape, o: &TxOpts) -> TxOut {
    TxOut {
        asset: if o.wellformed { gen_asset_nonnull(t) } else { gen_asset(t) },
        value: if o.wellformed { gen_value_nonnull(t) } else { gen_value(t) },
        nonce: if o.wellformed { gen_nonce_key_or_null(t) } else { gen_nonce(t) },
        script_pubkey: gen_script(t, o.big),
        witness: if o.witness { gen_out_witness(t) } else { TxOutWitness::empty() },
    }
}

pub fn gen_locktime(t: &mut Tape) -> LockTime {
    let n = match t.below(6) {
        0 => 0,
        1 => 499_999_999,
        2 => 500_000_000,
        3 => u32::MAX,
        _ => t.edgy_u32(),
    };
    // unit by the rule itself (below 500 000 000: a height), not by the library's classifier, so that the
    // variant of the generated value is the harness's statement about it
    let made = if n < 500_000_000 { LockTime::from_height(n).ok() } else { LockTime::from_time(n).ok() };
    made.unwrap_or_else(|| LockTime::from_consensus(n))
}

pub fn gen_count(t: &mut Tape, max: usize, big: bool) -> usize {
    if big && t.chance(5) {
        t.choose(&[0xfc, 0xfd, 0xfe])
    } else {
        t.below(max + 1)
    }
}

pub fn gen_tx(t: &mut Tape, o: &TxOpts) -> Transaction {
    let version = match t.below(4) {
        0 => 2,
        1 => 1,
        _ => t.edgy_u32(),
    };
    let lock_time = gen_locktime(t);
    let nin = gen_count(t, o.max_in, o.big);
    let nout = gen_count(t, o.max_out, o.big);
    let small = TxOpts { big: false, ..*o };
    let input = (0..nin).map(|_| gen_txin(t, if nin > 8 { &small } else { o })).collect();
    let output = (0..nout).map(|_| gen_txout(t, if nout > 8 { &small } else { o })).collect();
    Transaction { version, lock_time, input, output }
}

pub fn gen_full_params(t: &mut Tape) -> dynafed::FullParams {
    let signblockscript = gen_script(t, false);
    let limit = t.edgy_u32();
    let fp = elements::bitcoin::ScriptBuf::from_bytes(gen_script(t, false).into_bytes());
    let n = t.len(300, false);
    let fedpegscript = t.bytes(n);
    // extension space: usually 0..8 entries, sometimes a count on either side of the 0xfd varint boundary
    let k = if t.chance(8) { t.choose(&[0xfcusize, 0xfd, 0xfe, 300]) } else { t.below(9) };
    let ext = (0..k)
        .map(|_| {
            if k > 8 {
                let l = t.below(3);
                t.filler(l)
            } else {
                let l = t.len(70, false);
                t.bytes(l)
            }
        })
        .collect();
    dynafed::FullParams::new(signblockscript, limit, fp, fedpegscript, ext)
}

pub fn gen_params(t: &mut Tape) -> dynafed::Params {
    match t.below(4) {
        0 => dynafed::Params::Null,
        1 => dynafed::Params::Compact {
            signblockscript: gen_script(t, false),
            signblock_witness_limit: t.edgy_u32(),
            elided_root: dynafed::ElidedRoot::from_byte_array(t.arr32()),
        },
        _ => dynafed::Params::Full(gen_full_params(t)),
    }
}

pub fn gen_header(t: &mut Tape) -> BlockHeader {
    let ext = if t.bool() {
        BlockExtData::Proof { challenge: gen_script(t, false), solution: gen_script(t, false) }
    } else {
        BlockExtData::Dynafed {
            current: gen_params(t),
            proposed: gen_params(t),
            signblock_witness: if t.bool() { gen_stack(t, false) } else { vec![] },
        }
    };
    BlockHeader {
        version: t.edgy_u32() & 0x7fff_ffff,
        prev_blockhash: BlockHash::from_byte_array(t.arr32()),
        merkle_root: TxMerkleNode::from_byte_array(t.arr32()),
        time: t.edgy_u32(),
        height: t.edgy_u32(),
        ext,
    }
}

pub fn gen_block(t: &mut Tape) -> Block {
    let header = gen_header(t);
    let n = if t.chance(4) { 0xfd } else { t.below(4) };
    let o = TxOpts { big: false, max_in: 2, max_out: 2, ..TxOpts::default() };
    let tiny = TxOpts { big: false, max_in: 1, max_out: 1, witness: false, ..TxOpts::default() };
    let txdata = (0..n).map(|_| gen_tx(t, if n > 8 { &tiny } else { &o })).collect();
    Block { header, txdata }
}

/// Structural feature flags of a transaction, for histograms and non-triviality rules
pub fn tx_features(tx: &Transaction) -> Vec<&'static str> {
    let mut f = Vec::new();
    if tx.input.iter().any(|i| i.previous_output.vout == 0xffff_ffff) {
        f.push("coinbase-index");
    }
    if tx.input.iter().any(|i| i.is_pegin) {
        f.push("pegin");
    }
    if tx.input.iter().any(|i| i.has_issuance() && i.asset_issuance.asset_blinding_nonce == ZERO_TWEAK) {
        f.push("issuance");
    }
    if tx.input.iter().any(|i| i.has_issuance() && i.asset_issuance.asset_blinding_nonce != ZERO_TWEAK) {
        f.push("reissuance");
    }
    if tx.output.iter().any(|o| o.asset.v_conf()) {
        f.push("conf-asset");
    }
    if tx.output.iter().any(|o| o.value.v_conf()) {
        f.push("conf-value");
    }
    if tx.output.iter().any(|o| o.nonce.v_conf()) {
        f.push("conf-nonce");
    }
    if tx.output.iter().any(|o| o.nonce.v_expl()) {
        f.push("explicit-nonce");
    }
    if tx.output.iter().any(|o| o.asset.is_null() || o.value.is_null()) {
        f.push("null-field");
    }
    if tx.input.iter().any(|i| !i.witness.is_empty()) {
        f.push("in-witness");
    }
    if tx.output.iter().any(|o| !o.witness.is_empty()) {
        f.push("out-witness");
    }
    if tx.input.len() >= 0xfd || tx.output.len() >= 0xfd {
        f.push("count>=0xfd");
    }
    if tx.input.iter().any(|i| i.script_sig.len() >= 0xfd) || tx.output.iter().any(|o| o.script_pubkey.len() >= 0xfd) {
        f.push("script>=0xfd");
    }
    if tx.input.iter().any(|i| i.script_sig.len() >= 0x10000) || tx.output.iter().any(|o| o.script_pubkey.len() >= 0x10000)
    {
        f.push("script>=0x10000");
    }
    f
}
