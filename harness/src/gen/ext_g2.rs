//! Generator extensions for C03 / C13 (review g2): byte strings and vectors whose length sits at a
//! compact-size boundary, transactions with 0xfc..0xfe inputs / outputs, and inputs whose issuance
//! is null by value (both amounts null) although entropy / blinding nonce are set.
//!
//! Everything is drawn from the tape; an exhausted tape gives the simplest alternative.

use crate::engine::Tape;
use elements::confidential::Value;
use elements::secp256k1_zkp::ZERO_TWEAK;
use elements::{AssetIssuance, Script, Transaction, TxOut};

use super::gen_tweak;

/// A length at or next to a compact-size boundary (1-byte / 3-byte / 5-byte prefix). The two
/// 64 KiB boundaries are rare (they cost milliseconds per hash in the reference).
pub fn boundary_len(t: &mut Tape) -> usize {
    match t.below(256) {
        0..=63 => 0xfd,
        64..=111 => 0xfc,
        112..=151 => 0xfe,
        152..=183 => 0xff,
        184..=215 => 0x100,
        216..=252 => 0x1fd,
        253 => 0xffff,
        254 => 0x1_0000,
        _ => 0x1_0001,
    }
}

pub fn boundary_script(t: &mut Tape) -> Script {
    let n = boundary_len(t);
    Script::from(t.filler(n))
}

/// label of a length for the histogram
pub fn len_class(n: usize) -> &'static str {
    match n {
        0..=0xfb => "<0xfc",
        0xfc => "0xfc",
        0xfd => "0xfd",
        0xfe => "0xfe",
        0xff => "0xff",
        0x100..=0xfffe => "0x100..0xfffe",
        0xffff => "0xffff",
        0x1_0000 => "0x10000",
        _ => ">0x10000",
    }
}

/// An issuance that is null by the consensus rule (both amounts null) but carries a non-zero
/// entropy and / or blinding nonce. Only constructible programmatically (the decoder rejects an
/// explicit null issuance); the algorithms treat such an input exactly like one without issuance.
pub fn null_valued_issuance(t: &mut Tape) -> AssetIssuance {
    let k = 1 + t.below(3);
    let mut entropy = [0u8; 32];
    if k & 1 != 0 {
        entropy = t.arr32();
        if entropy == [0u8; 32] {
            entropy = [1u8; 32];
        }
    }
    let nonce = if k & 2 != 0 { gen_tweak(t) } else { ZERO_TWEAK };
    AssetIssuance { asset_blinding_nonce: nonce, asset_entropy: entropy, amount: Value::Null, inflation_keys: Value::Null }
}

/// Replace the inputs (and spent outputs) by `count` inputs cycling through the first (up to) three
/// existing ones, made distinct by the outpoint index. Cheap on the tape: no draw per input.
pub fn many_inputs(tx: &mut Transaction, spent: &mut Vec<TxOut>, count: usize) {
    let k = tx.input.len().min(3).max(1);
    let tmpl_in: Vec<_> = tx.input.iter().take(k).cloned().collect();
    let tmpl_sp: Vec<_> = spent.iter().take(k).cloned().collect();
    if tmpl_in.is_empty() || tmpl_sp.len() != tmpl_in.len() {
        return;
    }
    tx.input.clear();
    spent.clear();
    for i in 0..count {
        let mut inp = tmpl_in[i % k].clone();
        inp.previous_output.vout = i as u32;
        if i >= k {
            // keep the case cheap: proofs only on the first inputs
            inp.witness = elements::TxInWitness::empty();
        }
        tx.input.push(inp);
        spent.push(tmpl_sp[i % k].clone());
    }
}

/// Replace the outputs by `count` outputs cycling through the first (up to) three existing ones
/// (or a default output), made distinct by an explicit value.
pub fn many_outputs(tx: &mut Transaction, count: usize) {
    let mut tmpl: Vec<TxOut> = tx.output.iter().take(3).cloned().collect();
    if tmpl.is_empty() {
        tmpl.push(TxOut::default());
    }
    let k = tmpl.len();
    tx.output.clear();
    for i in 0..count {
        let mut o = tmpl[i % k].clone();
        if i >= k {
            o.value = Value::Explicit(i as u64);
            o.witness = elements::TxOutWitness::empty();
        }
        tx.output.push(o);
    }
}

