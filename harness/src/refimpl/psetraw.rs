//! Raw PSET splitter: magic, separator, maps of key/value pairs. Used only to reorder,
//! duplicate and delete pairs of valid encodings (C07) — it does not interpret field contents.

#[derive(Clone, Debug, PartialEq, Eq)]
pub struct RawPair {
    /// type byte followed by key data
    pub key: Vec<u8>,
    pub value: Vec<u8>,
}
pub type RawMap = Vec<RawPair>;

fn read_cs(b: &[u8], pos: &mut usize) -> Option<u64> {
    let first = *b.get(*pos)?;
    *pos += 1;
    match first {
        0xfd => {
            let v = u16::from_le_bytes([*b.get(*pos)?, *b.get(*pos + 1)?]);
            *pos += 2;
            Some(u64::from(v))
        }
        0xfe => {
            let mut a = [0u8; 4];
            for (i, x) in a.iter_mut().enumerate() {
                *x = *b.get(*pos + i)?;
            }
            *pos += 4;
            Some(u64::from(u32::from_le_bytes(a)))
        }
        0xff => {
            let mut a = [0u8; 8];
            for (i, x) in a.iter_mut().enumerate() {
                *x = *b.get(*pos + i)?;
            }
            *pos += 8;
            Some(u64::from_le_bytes(a))
        }
        x => Some(u64::from(x)),
    }
}

pub fn split(b: &[u8]) -> Option<Vec<RawMap>> {
    if b.len() < 5 || &b[..4] != b"pset" || b[4] != 0xff {
        return None;
    }
    let mut pos = 5;
    let mut maps = Vec::new();
    while pos < b.len() {
        let mut map = Vec::new();
        loop {
            let klen = read_cs(b, &mut pos)? as usize;
            if klen == 0 {
                break;
            }
            let key = b.get(pos..pos.checked_add(klen)?)?.to_vec();
            pos += klen;
            let vlen = read_cs(b, &mut pos)? as usize;
            let value = b.get(pos..pos.checked_add(vlen)?)?.to_vec();
            pos += vlen;
            map.push(RawPair { key, value });
        }
        maps.push(map);
    }
    Some(maps)
}

pub fn join(maps: &[RawMap]) -> Vec<u8> {
    let mut out = b"pset\xff".to_vec();
    for m in maps {
        for p in m {
            super::enc::compact_size(&mut out, p.key.len() as u64);
            out.extend_from_slice(&p.key);
            super::enc::compact_size(&mut out, p.value.len() as u64);
            out.extend_from_slice(&p.value);
        }
        out.push(0);
    }
    out
}
