pub mod sha256;
pub mod enc;

pub fn self_test() -> Result<(), String> {
    Ok(())
}
