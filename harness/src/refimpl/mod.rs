pub mod sha256;
pub mod enc;
pub mod sighash;

pub fn self_test() -> Result<(), String> {
    sighash::self_test()?;
    Ok(())
}
