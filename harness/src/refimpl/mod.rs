pub mod sha256;
pub mod enc;
pub mod psetraw;
pub mod sighash;
pub mod addr;
pub mod script;
pub mod taproot;

pub fn self_test() -> Result<(), String> {
    sighash::self_test()?;
    addr::self_test()?;
    Ok(())
}

/// Variant tests of the confidential types by pattern matching: oracles and generators must not ask the
/// library's own predicates (`is_confidential`, `is_explicit`), which are code under test.
pub trait Variant {
    fn v_conf(&self) -> bool;
    fn v_expl(&self) -> bool;
}
impl Variant for elements::confidential::Value {
    fn v_conf(&self) -> bool {
        matches!(self, elements::confidential::Value::Confidential(_))
    }
    fn v_expl(&self) -> bool {
        matches!(self, elements::confidential::Value::Explicit(_))
    }
}
impl Variant for elements::confidential::Asset {
    fn v_conf(&self) -> bool {
        matches!(self, elements::confidential::Asset::Confidential(_))
    }
    fn v_expl(&self) -> bool {
        matches!(self, elements::confidential::Asset::Explicit(_))
    }
}
impl Variant for elements::confidential::Nonce {
    fn v_conf(&self) -> bool {
        matches!(self, elements::confidential::Nonce::Confidential(_))
    }
    fn v_expl(&self) -> bool {
        matches!(self, elements::confidential::Nonce::Explicit(_))
    }
}
