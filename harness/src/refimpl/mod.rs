pub mod sha256;
pub mod enc;
pub mod psetraw;
pub mod sighash;
pub mod addr;
pub mod script;
pub mod taproot;

pub fn self_test() -> Result<(), String> {
    sighash::self_test()?;
    addr::self_test()?;
    Ok(())
}
