//! Reference model of the script builder, the instruction decoder and the standard output
//! templates, written from the Bitcoin/Elements script format (BIP 16, 62, 141, 341, 350;
//! Elements `CScript::IsUnspendable`) and the documentation of `elements::script::Builder` —
//! not from the library's code. Bytes only: no `elements` type appears here.

/// One builder operation, as the caller of the library's `Builder` states it.
#[derive(Clone, Debug, PartialEq, Eq, Hash)]
pub enum BOp {
    /// `push_opcode(byte)` — a non-push opcode, or OP_0
    Opcode(u8),
    /// `push_int(n)`
    Int(i64),
    /// `push_scriptint(n)`
    ScriptInt(i64),
    /// `push_slice(data)`
    Slice(Vec<u8>),
    /// `push_key(key)`; `ser` is the key's SEC1 serialization in the requested form
    Key { compressed: bool, ser: Vec<u8> },
    /// `push_verify()`
    Verify,
}

/// A decoded instruction
#[derive(Clone, Debug, PartialEq, Eq, Hash)]
pub enum Ins {
    Op(u8),
    Push(Vec<u8>),
}

pub const OP_0: u8 = 0x00;
pub const OP_PUSHDATA1: u8 = 0x4c;
pub const OP_PUSHDATA2: u8 = 0x4d;
pub const OP_PUSHDATA4: u8 = 0x4e;
pub const OP_1NEGATE: u8 = 0x4f;
pub const OP_1: u8 = 0x51;
pub const OP_16: u8 = 0x60;
pub const OP_VERIFY: u8 = 0x69;
pub const OP_RETURN: u8 = 0x6a;
pub const OP_DUP: u8 = 0x76;
pub const OP_EQUAL: u8 = 0x87;
pub const OP_EQUALVERIFY: u8 = 0x88;
pub const OP_NUMEQUAL: u8 = 0x9c;
pub const OP_NUMEQUALVERIFY: u8 = 0x9d;
pub const OP_HASH160: u8 = 0xa9;
pub const OP_CHECKSIG: u8 = 0xac;
pub const OP_CHECKSIGVERIFY: u8 = 0xad;
pub const OP_CHECKMULTISIG: u8 = 0xae;
pub const OP_CHECKMULTISIGVERIFY: u8 = 0xaf;
/// Elements
pub const OP_CHECKSIGFROMSTACK: u8 = 0xc1;
pub const OP_CHECKSIGFROMSTACKVERIFY: u8 = 0xc2;
pub const MAX_SCRIPT_SIZE: usize = 10_000;

/// The opcodes that have an alternate VERIFY form (Bitcoin: four; Elements adds
/// OP_CHECKSIGFROMSTACK).
pub fn verify_form(op: u8) -> Option<u8> {
    match op {
        OP_EQUAL => Some(OP_EQUALVERIFY),
        OP_NUMEQUAL => Some(OP_NUMEQUALVERIFY),
        OP_CHECKSIG => Some(OP_CHECKSIGVERIFY),
        OP_CHECKMULTISIG => Some(OP_CHECKMULTISIGVERIFY),
        OP_CHECKSIGFROMSTACK => Some(OP_CHECKSIGFROMSTACKVERIFY),
        _ => None,
    }
}

/// Script number: little-endian sign-magnitude, minimal length, zero is the empty string.
/// Defined for every i64 except `i64::MIN`.
pub fn scriptnum_encode(n: i64) -> Vec<u8> {
    let neg = n < 0;
    let mut mag = n.unsigned_abs();
    let mut v = Vec::new();
    while mag != 0 {
        v.push((mag & 0xff) as u8);
        mag >>= 8;
    }
    if let Some(&last) = v.last() {
        if last & 0x80 != 0 {
            v.push(if neg { 0x80 } else { 0x00 });
        } else if neg {
            let i = v.len() - 1;
            v[i] |= 0x80;
        }
    }
    v
}

/// Value of a byte string read as a script number (no minimality requirement); None when it is
/// longer than the 4 bytes script arithmetic accepts.
pub fn scriptnum_decode(v: &[u8]) -> Option<i64> {
    if v.len() > 4 {
        return None;
    }
    let mut mag: i64 = 0;
    for (i, b) in v.iter().enumerate() {
        let b = if i + 1 == v.len() { b & 0x7f } else { *b };
        mag |= i64::from(b) << (8 * i);
    }
    let neg = v.last().map_or(false, |b| b & 0x80 != 0);
    Some(if neg { -mag } else { mag })
}

/// size of the shortest push header for `len` bytes of data (direct, PUSHDATA1, 2, 4)
pub fn shortest_header_len(len: usize) -> usize {
    if len <= 75 {
        1
    } else if len <= 0xff {
        2
    } else if len <= 0xffff {
        3
    } else {
        5
    }
}

/// data push with the shortest header for the length of the data (the contents are not looked at)
pub fn push_data(out: &mut Vec<u8>, data: &[u8]) {
    let n = data.len();
    match shortest_header_len(n) {
        1 => out.push(n as u8),
        2 => {
            out.push(OP_PUSHDATA1);
            out.push(n as u8);
        }
        3 => {
            out.push(OP_PUSHDATA2);
            out.extend_from_slice(&(n as u16).to_le_bytes());
        }
        _ => {
            out.push(OP_PUSHDATA4);
            out.extend_from_slice(&(n as u32).to_le_bytes());
        }
    }
    out.extend_from_slice(data);
}

/// BIP 62 rule 3: a one-byte push of 1..16 or 0x81 has a dedicated opcode, so pushing it as data
/// is not minimal.
pub fn is_small_int_byte(data: &[u8]) -> bool {
    data.len() == 1 && (data[0] == 0x81 || (1..=16).contains(&data[0]))
}

/// What a `push_verify` did
#[derive(Clone, Copy, Debug, PartialEq, Eq, Hash)]
pub enum VerifyCtx {
    AtStart,
    AfterData,
    Folded(u8),
    AfterOtherOp(u8),
}

/// Per-operation facts the check wants to look at
#[derive(Clone, Debug)]
pub struct Step {
    /// script length after this operation
    pub len_after: usize,
    /// index into `Built::ins` of the instruction this operation produced / replaced
    pub ins_index: usize,
    pub verify: Option<VerifyCtx>,
}

#[derive(Clone, Debug, Default)]
pub struct Built {
    pub bytes: Vec<u8>,
    pub ins: Vec<Ins>,
    pub steps: Vec<Step>,
    /// index of the first instruction that is a data push of a small integer (non-minimal by BIP 62)
    pub first_nonminimal: Option<usize>,
}

/// Expected script and instruction list for a sequence of builder operations.
pub fn build(ops: &[BOp]) -> Built {
    let mut b = Built::default();
    // the last *opcode* added; a data push is not an opcode and clears it
    let mut last_op: Option<u8> = None;
    for op in ops {
        let mut verify = None;
        match op {
            BOp::Opcode(c) => {
                add_opcode(&mut b, *c);
                last_op = Some(*c);
            }
            BOp::Int(n) => {
                let c = match *n {
                    0 => Some(OP_0),
                    -1 => Some(OP_1NEGATE),
                    1..=16 => Some(OP_1 + (*n as u8) - 1),
                    _ => None,
                };
                match c {
                    Some(c) => {
                        add_opcode(&mut b, c);
                        last_op = Some(c);
                    }
                    None => {
                        add_push(&mut b, &scriptnum_encode(*n));
                        last_op = None;
                    }
                }
            }
            BOp::ScriptInt(n) => {
                add_push(&mut b, &scriptnum_encode(*n));
                last_op = None;
            }
            BOp::Slice(d) => {
                add_push(&mut b, d);
                last_op = None;
            }
            BOp::Key { ser, .. } => {
                add_push(&mut b, ser);
                last_op = None;
            }
            BOp::Verify => match last_op.and_then(|o| verify_form(o).map(|v| (o, v))) {
                Some((o, v)) => {
                    // the opcode is replaced by its VERIFY form
                    let l = b.bytes.len();
                    b.bytes[l - 1] = v;
                    let li = b.ins.len();
                    b.ins[li - 1] = Ins::Op(v);
                    last_op = Some(v);
                    verify = Some(VerifyCtx::Folded(o));
                }
                None => {
                    verify = Some(match last_op {
                        Some(o) => VerifyCtx::AfterOtherOp(o),
                        None if b.bytes.is_empty() => VerifyCtx::AtStart,
                        None => VerifyCtx::AfterData,
                    });
                    add_opcode(&mut b, OP_VERIFY);
                    last_op = Some(OP_VERIFY);
                }
            },
        }
        b.steps.push(Step { len_after: b.bytes.len(), ins_index: b.ins.len().saturating_sub(1), verify });
    }
    b
}

fn add_opcode(b: &mut Built, c: u8) {
    b.bytes.push(c);
    // OP_0 *is* the push of the empty byte string
    b.ins.push(if c == OP_0 { Ins::Push(vec![]) } else { Ins::Op(c) });
}
fn add_push(b: &mut Built, data: &[u8]) {
    push_data(&mut b.bytes, data);
    if is_small_int_byte(data) && b.first_nonminimal.is_none() {
        b.first_nonminimal = Some(b.ins.len());
    }
    b.ins.push(Ins::Push(data.to_vec()));
}

#[derive(Clone, Copy, Debug, PartialEq, Eq)]
pub enum ParseErr {
    Truncated,
}

/// Independent decoder: splits a script into instructions and reports for every push the size of
/// its header. `Err` = (instructions decoded so far, error).
pub fn parse(s: &[u8]) -> Result<Vec<(Ins, usize)>, (Vec<(Ins, usize)>, ParseErr)> {
    let mut out = Vec::new();
    let mut i = 0usize;
    while i < s.len() {
        let c = s[i];
        let (hdr, n) = match c {
            0..=75 => (1usize, c as usize),
            OP_PUSHDATA1 | OP_PUSHDATA2 | OP_PUSHDATA4 => {
                let w = match c {
                    OP_PUSHDATA1 => 1,
                    OP_PUSHDATA2 => 2,
                    _ => 4,
                };
                if s.len() - i - 1 < w {
                    return Err((out, ParseErr::Truncated));
                }
                let mut n = 0usize;
                for k in 0..w {
                    n |= (s[i + 1 + k] as usize) << (8 * k);
                }
                (1 + w, n)
            }
            _ => {
                out.push((Ins::Op(c), 0));
                i += 1;
                continue;
            }
        };
        if s.len() - i - hdr < n {
            return Err((out, ParseErr::Truncated));
        }
        out.push((Ins::Push(s[i + hdr..i + hdr + n].to_vec()), hdr));
        i += hdr + n;
    }
    Ok(out)
}

// ---------------------------------------------------------------------------------------------
// output templates, from their byte forms

pub fn is_version_opcode(b: u8) -> bool {
    b == OP_0 || (OP_1..=OP_16).contains(&b)
}
/// OP_DUP OP_HASH160 <20 bytes> OP_EQUALVERIFY OP_CHECKSIG
pub fn is_p2pkh(s: &[u8]) -> bool {
    s.len() == 25 && s[0] == OP_DUP && s[1] == OP_HASH160 && s[2] == 20 && s[23] == OP_EQUALVERIFY && s[24] == OP_CHECKSIG
}
/// OP_HASH160 <20 bytes> OP_EQUAL
pub fn is_p2sh(s: &[u8]) -> bool {
    s.len() == 23 && s[0] == OP_HASH160 && s[1] == 20 && s[22] == OP_EQUAL
}
/// <33 or 65 bytes> OP_CHECKSIG
pub fn is_p2pk(s: &[u8]) -> bool {
    (s.len() == 35 && s[0] == 33 && s[34] == OP_CHECKSIG) || (s.len() == 67 && s[0] == 65 && s[66] == OP_CHECKSIG)
}
/// BIP 141: a version opcode (OP_0, OP_1..OP_16) followed by one direct push of 2..40 bytes
pub fn is_witness_program(s: &[u8]) -> bool {
    (4..=42).contains(&s.len()) && is_version_opcode(s[0]) && (2..=40).contains(&s[1]) && s[1] as usize == s.len() - 2
}
/// (version, program) of a witness program
pub fn witness_program(s: &[u8]) -> Option<(u8, &[u8])> {
    if is_witness_program(s) {
        Some((if s[0] == 0 { 0 } else { s[0] - 0x50 }, &s[2..]))
    } else {
        None
    }
}
pub fn is_v0_p2wpkh(s: &[u8]) -> bool {
    s.len() == 22 && s[0] == OP_0 && s[1] == 20
}
pub fn is_v0_p2wsh(s: &[u8]) -> bool {
    s.len() == 34 && s[0] == OP_0 && s[1] == 32
}
pub fn is_v1_p2tr(s: &[u8]) -> bool {
    s.len() == 34 && s[0] == OP_1 && s[1] == 32
}
/// witness program of version 1..16
pub fn is_v1plus_witness_program(s: &[u8]) -> bool {
    is_witness_program(s) && s[0] != OP_0
}
pub fn is_op_return(s: &[u8]) -> bool {
    s.first() == Some(&OP_RETURN)
}
/// Elements `CScript::IsUnspendable`: OP_RETURN first, larger than the script size limit, or empty
pub fn is_provably_unspendable(s: &[u8]) -> bool {
    is_op_return(s) || s.len() > MAX_SCRIPT_SIZE || s.is_empty()
}

/// The payload an address carries
#[derive(Clone, Debug, PartialEq, Eq, Hash)]
pub enum AddrKind {
    PubkeyHash([u8; 20]),
    ScriptHash([u8; 20]),
    Witness { version: u8, program: Vec<u8> },
}

/// A script has an address exactly when it is p2pkh, p2sh, a v0 witness program of 20 or 32
/// bytes, or a witness program of version 1..16.
pub fn address_kind(s: &[u8]) -> Option<AddrKind> {
    let h20 = |b: &[u8]| {
        let mut a = [0u8; 20];
        a.copy_from_slice(b);
        a
    };
    if is_p2pkh(s) {
        Some(AddrKind::PubkeyHash(h20(&s[3..23])))
    } else if is_p2sh(s) {
        Some(AddrKind::ScriptHash(h20(&s[2..22])))
    } else if let Some((version, program)) = witness_program(s) {
        if version >= 1 || program.len() == 20 || program.len() == 32 {
            Some(AddrKind::Witness { version, program: program.to_vec() })
        } else {
            None
        }
    } else {
        None
    }
}

fn any_template(s: &[u8]) -> Option<&'static str> {
    if is_p2pkh(s) {
        Some("p2pkh")
    } else if is_p2sh(s) {
        Some("p2sh")
    } else if is_p2pk(s) {
        Some("p2pk")
    } else if is_v0_p2wpkh(s) {
        Some("v0_p2wpkh")
    } else if is_v0_p2wsh(s) {
        Some("v0_p2wsh")
    } else if is_v1_p2tr(s) {
        Some("v1_p2tr")
    } else if is_witness_program(s) {
        Some(if s[0] == 0 { "v0_other_witprog" } else { "v1plus_witprog" })
    } else {
        None
    }
}

/// How close a script is to a template: exact, one substituted byte, one byte missing at the
/// end, or one byte too many at the end. None = further away.
pub fn near_template(s: &[u8]) -> Option<(&'static str, &'static str)> {
    if let Some(t) = any_template(s) {
        return Some(("exact", t));
    }
    let l = s.len();
    let miss = |pairs: &[(usize, u8)]| pairs.iter().filter(|(i, v)| s[*i] != *v).count();
    // one substitution
    if l == 25 && miss(&[(0, OP_DUP), (1, OP_HASH160), (2, 20), (23, OP_EQUALVERIFY), (24, OP_CHECKSIG)]) == 1 {
        return Some(("sub1", "p2pkh"));
    }
    if l == 23 && miss(&[(0, OP_HASH160), (1, 20), (22, OP_EQUAL)]) == 1 {
        return Some(("sub1", "p2sh"));
    }
    if l == 35 && miss(&[(0, 33), (34, OP_CHECKSIG)]) == 1 {
        return Some(("sub1", "p2pk"));
    }
    if l == 67 && miss(&[(0, 65), (66, OP_CHECKSIG)]) == 1 {
        return Some(("sub1", "p2pk"));
    }
    if (4..=42).contains(&l) && (is_version_opcode(s[0]) != (s[1] as usize == l - 2)) {
        return Some(("sub1", "witprog"));
    }
    // one byte missing at the end
    if l == 24 && miss(&[(0, OP_DUP), (1, OP_HASH160), (2, 20), (23, OP_EQUALVERIFY)]) == 0 {
        return Some(("trunc1", "p2pkh"));
    }
    if l == 22 && miss(&[(0, OP_HASH160), (1, 20)]) == 0 {
        return Some(("trunc1", "p2sh"));
    }
    if (l == 34 && s[0] == 33) || (l == 66 && s[0] == 65) {
        return Some(("trunc1", "p2pk"));
    }
    if (3..=41).contains(&l) && is_version_opcode(s[0]) && s[1] as usize == l - 1 {
        return Some(("trunc1", "witprog"));
    }
    // one byte too many at the end
    if l >= 1 {
        if let Some(t) = any_template(&s[..l - 1]) {
            return Some((
                "ext1",
                match t {
                    "p2pkh" | "p2sh" | "p2pk" => t,
                    _ => "witprog",
                },
            ));
        }
    }
    None
}

/// Literal vectors (BIP 62 / BIP 141 / BIP 173 examples and hand-computed encodings) the model
/// has to reproduce; Err(text) = the model itself is wrong.
pub fn self_test() -> Result<(), String> {
    let num: [(i64, &[u8]); 16] = [
        (0, &[]),
        (1, &[0x01]),
        (-1, &[0x81]),
        (127, &[0x7f]),
        (-127, &[0xff]),
        (128, &[0x80, 0x00]),
        (-128, &[0x80, 0x80]),
        (255, &[0xff, 0x00]),
        (256, &[0x00, 0x01]),
        (-256, &[0x00, 0x81]),
        (32767, &[0xff, 0x7f]),
        (32768, &[0x00, 0x80, 0x00]),
        (-32768, &[0x00, 0x80, 0x80]),
        (0x7fff_ffff, &[0xff, 0xff, 0xff, 0x7f]),
        (-0x7fff_ffff, &[0xff, 0xff, 0xff, 0xff]),
        (0x8000_0000, &[0x00, 0x00, 0x00, 0x80, 0x00]),
    ];
    for (n, e) in num {
        if scriptnum_encode(n) != e {
            return Err(format!("scriptnum_encode({}) = {:02x?}", n, scriptnum_encode(n)));
        }
        if e.len() <= 4 && scriptnum_decode(e) != Some(n) {
            return Err(format!("scriptnum_decode({:02x?}) = {:?}", e, scriptnum_decode(e)));
        }
    }
    if scriptnum_encode(i64::MAX) != [0xff, 0xff, 0xff, 0xff, 0xff, 0xff, 0xff, 0x7f]
        || scriptnum_encode(i64::MIN + 1) != [0xff, 0xff, 0xff, 0xff, 0xff, 0xff, 0xff, 0xff]
        || scriptnum_decode(&[0x80]) != Some(0)
        || scriptnum_decode(&[0, 0, 0, 0, 0]).is_some()
    {
        return Err("scriptnum extremes".into());
    }
    for (len, hdr) in [(0usize, vec![0u8]), (75, vec![75]), (76, vec![0x4c, 76]), (255, vec![0x4c, 255]), (256, vec![0x4d, 0, 1]),
        (65535, vec![0x4d, 0xff, 0xff]), (65536, vec![0x4e, 0, 0, 1, 0])]
    {
        let mut v = Vec::new();
        push_data(&mut v, &vec![7u8; len]);
        if v[..hdr.len()] != hdr[..] || v.len() != hdr.len() + len {
            return Err(format!("push header for {} bytes = {:02x?}", len, &v[..hdr.len().min(v.len())]));
        }
    }
    // the comparison script of the library's own `script_builder` unit test / BIP 16 shapes
    let b = build(&[
        BOp::Opcode(OP_DUP),
        BOp::Opcode(OP_HASH160),
        BOp::Slice(vec![0x16; 20]),
        BOp::Opcode(OP_EQUAL),
        BOp::Verify,
        BOp::Opcode(OP_CHECKSIG),
    ]);
    let mut want = vec![0x76, 0xa9, 0x14];
    want.extend_from_slice(&[0x16; 20]);
    want.extend_from_slice(&[0x88, 0xac]);
    if b.bytes != want || !is_p2pkh(&b.bytes) || b.ins.len() != 5 || b.steps[4].verify != Some(VerifyCtx::Folded(OP_EQUAL)) {
        return Err("p2pkh via builder model".into());
    }
    let b = build(&[BOp::Verify, BOp::Int(0), BOp::Verify, BOp::Int(-1), BOp::Int(16), BOp::Int(17), BOp::Verify, BOp::ScriptInt(16),
        BOp::Opcode(OP_CHECKSIGFROMSTACK), BOp::Verify, BOp::Verify]);
    if b.bytes != [0x69, 0x00, 0x69, 0x4f, 0x60, 0x01, 0x11, 0x69, 0x01, 0x10, 0xc2, 0x69] || b.first_nonminimal != Some(7) {
        return Err(format!("builder model mixed script {:02x?} {:?}", b.bytes, b.first_nonminimal));
    }
    match parse(&b.bytes) {
        Ok(p) if p.iter().map(|x| x.0.clone()).collect::<Vec<_>>() == b.ins => {}
        other => return Err(format!("parse of model bytes: {:?}", other)),
    }
    if parse(&[0x02, 0x01]).is_ok() || parse(&[0x4c]).is_ok() || parse(&[0x4d, 0x01]).is_ok() || parse(&[0x4e, 1, 0, 0, 0]).is_ok() {
        return Err("parse accepts truncated pushes".into());
    }
    // BIP 173 example scriptPubKeys
    let p2wpkh = crate::engine::unhex("0014751e76e8199196d454941c45d1b3a323f1433bd6").unwrap_or_default();
    let p2wsh = crate::engine::unhex("00201863143c14c5166804bd19203356da136c985678cd4d27a1b8c6329604903262").unwrap_or_default();
    let v1_40 = crate::engine::unhex("5128751e76e8199196d454941c45d1b3a323f1433bd6751e76e8199196d454941c45d1b3a323f1433bd6").unwrap_or_default();
    let v16_2 = crate::engine::unhex("6002751e").unwrap_or_default();
    if !(is_v0_p2wpkh(&p2wpkh) && is_witness_program(&p2wpkh) && is_v0_p2wsh(&p2wsh) && is_witness_program(&p2wsh)
        && is_witness_program(&v1_40) && is_v1plus_witness_program(&v1_40) && !is_v1_p2tr(&v1_40)
        && witness_program(&v16_2).map(|w| w.0) == Some(16)
        && address_kind(&p2wpkh).is_some() && address_kind(&v16_2).is_some())
    {
        return Err("BIP 173 witness program vectors".into());
    }
    // BIP 141: programs of 1 and 41 bytes, and v0 programs of other lengths
    let mut v0_21 = vec![0x00, 21];
    v0_21.extend_from_slice(&[1; 21]);
    let mut v1_41 = vec![0x51, 41];
    v1_41.extend_from_slice(&[1; 41]);
    if is_witness_program(&[0x51, 0x01, 0x07]) || is_witness_program(&[0x51, 0x00]) || is_witness_program(&v1_41)
        || address_kind(&[0x51, 0x01, 0x07]).is_some() || address_kind(&[0x51, 0x00]).is_some()
        || !is_witness_program(&v0_21) || address_kind(&v0_21).is_some()
    {
        return Err("witness program length bounds".into());
    }
    if !(is_provably_unspendable(&[]) && is_provably_unspendable(&[0x6a, 0x51]) && !is_provably_unspendable(&[0x51, 0x6a])
        && !is_provably_unspendable(&vec![0x51; 10_000]) && is_provably_unspendable(&vec![0x51; 10_001]))
    {
        return Err("unspendable".into());
    }
    if near_template(&want).map(|x| x.0) != Some("exact") || near_template(&want[..24]).map(|x| x.0) != Some("trunc1")
        || near_template(&[0x52, 0x03, 1, 2]).map(|x| x.0) != Some("sub1") || near_template(&[0x61, 0x09, 1, 2]).is_some()
    {
        return Err("near_template".into());
    }
    Ok(())
}
