//! Independent consensus wire encoder, written from the Elements serialization rules.
//! Reads the public fields of the library's structs; never calls the library's `Encodable`.
//! Curve points and proofs are rendered by secp256k1-zkp's own `serialize` (trusted base).

use elements::confidential::{Asset, Nonce, Value};
use elements::hashes::Hash as _;
use elements::{
    dynafed, AssetIssuance, Block, BlockExtData, BlockHeader, OutPoint, Transaction, TxIn, TxInWitness, TxOut,
    TxOutWitness,
};

/// Offsets of interesting places in the most recent encoding (used by the byte mutators).
#[derive(Default, Clone, Debug)]
pub struct Layout {
    /// offsets of compact-size integers
    pub cs: Vec<usize>,
    /// offsets where a field group starts (txin, txout, witness, params)
    pub bounds: Vec<usize>,
    /// offsets of confidential prefixes (asset / value / nonce / params tag bytes)
    pub prefixes: Vec<usize>,
    /// offsets of the high byte of an outpoint index (carries the pegin / issuance bits)
    pub vout_hi: Vec<usize>,
}
thread_local! {
    static LAYOUT: std::cell::RefCell<Option<Layout>> = const { std::cell::RefCell::new(None) };
}
/// run `f` while recording the layout of everything it encodes into one buffer
pub fn with_layout<T>(f: impl FnOnce() -> T) -> (T, Layout) {
    LAYOUT.with(|l| *l.borrow_mut() = Some(Layout::default()));
    let r = f();
    let l = LAYOUT.with(|l| l.borrow_mut().take()).unwrap_or_default();
    (r, l)
}
fn rec(f: impl FnOnce(&mut Layout)) {
    LAYOUT.with(|l| {
        if let Some(l) = l.borrow_mut().as_mut() {
            f(l)
        }
    });
}

pub fn compact_size(out: &mut Vec<u8>, n: u64) {
    rec(|l| l.cs.push(out.len()));
    if n < 0xfd {
        out.push(n as u8);
    } else if n <= 0xffff {
        out.push(0xfd);
        out.extend_from_slice(&(n as u16).to_le_bytes());
    } else if n <= 0xffff_ffff {
        out.push(0xfe);
        out.extend_from_slice(&(n as u32).to_le_bytes());
    } else {
        out.push(0xff);
        out.extend_from_slice(&n.to_le_bytes());
    }
}
pub fn compact_size_len(n: u64) -> usize {
    if n < 0xfd {
        1
    } else if n <= 0xffff {
        3
    } else if n <= 0xffff_ffff {
        5
    } else {
        9
    }
}
pub fn var_bytes(out: &mut Vec<u8>, b: &[u8]) {
    compact_size(out, b.len() as u64);
    out.extend_from_slice(b);
}
pub fn stack(out: &mut Vec<u8>, s: &[Vec<u8>]) {
    compact_size(out, s.len() as u64);
    for e in s {
        var_bytes(out, e);
    }
}
pub fn value(out: &mut Vec<u8>, v: &Value) {
    rec(|l| l.prefixes.push(out.len()));
    match v {
        Value::Null => out.push(0),
        Value::Explicit(n) => {
            out.push(1);
            out.extend_from_slice(&n.to_be_bytes());
        }
        Value::Confidential(c) => out.extend_from_slice(&c.serialize()),
    }
}
pub fn asset(out: &mut Vec<u8>, a: &Asset) {
    rec(|l| l.prefixes.push(out.len()));
    match a {
        Asset::Null => out.push(0),
        Asset::Explicit(id) => {
            out.push(1);
            out.extend_from_slice(&id.to_byte_array());
        }
        Asset::Confidential(g) => out.extend_from_slice(&g.serialize()),
    }
}
pub fn nonce(out: &mut Vec<u8>, n: &Nonce) {
    rec(|l| l.prefixes.push(out.len()));
    match n {
        Nonce::Null => out.push(0),
        Nonce::Explicit(b) => {
            out.push(1);
            out.extend_from_slice(b);
        }
        Nonce::Confidential(pk) => out.extend_from_slice(&pk.serialize()),
    }
}
pub fn issuance(out: &mut Vec<u8>, i: &AssetIssuance) {
    out.extend_from_slice(i.asset_blinding_nonce.as_ref());
    out.extend_from_slice(&i.asset_entropy);
    value(out, &i.amount);
    value(out, &i.inflation_keys);
}
pub fn issuance_is_null(i: &AssetIssuance) -> bool {
    matches!(i.amount, Value::Null) && matches!(i.inflation_keys, Value::Null)
}
pub fn outpoint(out: &mut Vec<u8>, o: &OutPoint) {
    out.extend_from_slice(&o.txid.to_byte_array());
    out.extend_from_slice(&o.vout.to_le_bytes());
}
/// txin without witness: the pegin / issuance flags are folded into the index
pub fn txin(out: &mut Vec<u8>, i: &TxIn) {
    rec(|l| {
        l.bounds.push(out.len());
        l.vout_hi.push(out.len() + 35)
    });
    let has_iss = !issuance_is_null(&i.asset_issuance);
    let mut vout = i.previous_output.vout;
    if i.is_pegin {
        vout |= 1 << 30;
    }
    if has_iss {
        vout |= 1 << 31;
    }
    out.extend_from_slice(&i.previous_output.txid.to_byte_array());
    out.extend_from_slice(&vout.to_le_bytes());
    var_bytes(out, i.script_sig.as_bytes());
    out.extend_from_slice(&i.sequence.0.to_le_bytes());
    if has_iss {
        issuance(out, &i.asset_issuance);
    }
}
pub fn txout(out: &mut Vec<u8>, o: &TxOut) {
    rec(|l| l.bounds.push(out.len()));
    asset(out, &o.asset);
    value(out, &o.value);
    nonce(out, &o.nonce);
    var_bytes(out, o.script_pubkey.as_bytes());
}
pub fn in_witness(out: &mut Vec<u8>, w: &TxInWitness) {
    rec(|l| l.bounds.push(out.len()));
    match &w.amount_rangeproof {
        None => out.push(0),
        Some(p) => var_bytes(out, &p.serialize()),
    }
    match &w.inflation_keys_rangeproof {
        None => out.push(0),
        Some(p) => var_bytes(out, &p.serialize()),
    }
    stack(out, &w.script_witness);
    stack(out, &w.pegin_witness);
}
pub fn out_witness(out: &mut Vec<u8>, w: &TxOutWitness) {
    rec(|l| l.bounds.push(out.len()));
    match &w.surjection_proof {
        None => out.push(0),
        Some(p) => var_bytes(out, &p.serialize()),
    }
    match &w.rangeproof {
        None => out.push(0),
        Some(p) => var_bytes(out, &p.serialize()),
    }
}
pub fn in_witness_empty(w: &TxInWitness) -> bool {
    w.amount_rangeproof.is_none()
        && w.inflation_keys_rangeproof.is_none()
        && w.script_witness.is_empty()
        && w.pegin_witness.is_empty()
}
pub fn out_witness_empty(w: &TxOutWitness) -> bool {
    w.surjection_proof.is_none() && w.rangeproof.is_none()
}
pub fn tx_has_witness(tx: &Transaction) -> bool {
    tx.input.iter().any(|i| !in_witness_empty(&i.witness)) || tx.output.iter().any(|o| !out_witness_empty(&o.witness))
}
/// full = with the witness section (when any witness is non-empty); stripped = flag 0, no witnesses
pub fn tx(out: &mut Vec<u8>, t: &Transaction, with_witness: bool) {
    let wit = with_witness && tx_has_witness(t);
    out.extend_from_slice(&t.version.to_le_bytes());
    out.push(u8::from(wit));
    compact_size(out, t.input.len() as u64);
    for i in &t.input {
        txin(out, i);
    }
    compact_size(out, t.output.len() as u64);
    for o in &t.output {
        txout(out, o);
    }
    out.extend_from_slice(&t.lock_time.to_consensus_u32().to_le_bytes());
    if wit {
        for i in &t.input {
            in_witness(out, &i.witness);
        }
        for o in &t.output {
            out_witness(out, &o.witness);
        }
    }
}
pub fn tx_full(t: &Transaction) -> Vec<u8> {
    let mut v = Vec::new();
    tx(&mut v, t, true);
    v
}
pub fn tx_stripped(t: &Transaction) -> Vec<u8> {
    let mut v = Vec::new();
    tx(&mut v, t, false);
    v
}
pub fn full_params(out: &mut Vec<u8>, f: &dynafed::FullParams) {
    var_bytes(out, f.signblockscript.as_bytes());
    out.extend_from_slice(&f.signblock_witness_limit.to_le_bytes());
    var_bytes(out, f.fedpeg_program.as_bytes());
    var_bytes(out, &f.fedpegscript);
    stack(out, &f.extension_space);
}
pub fn params(out: &mut Vec<u8>, p: &dynafed::Params) {
    rec(|l| {
        l.bounds.push(out.len());
        l.prefixes.push(out.len())
    });
    match p {
        dynafed::Params::Null => out.push(0),
        dynafed::Params::Compact { signblockscript, signblock_witness_limit, elided_root } => {
            out.push(1);
            var_bytes(out, signblockscript.as_bytes());
            out.extend_from_slice(&signblock_witness_limit.to_le_bytes());
            out.extend_from_slice(&elided_root.to_byte_array());
        }
        dynafed::Params::Full(f) => {
            out.push(2);
            full_params(out, f);
        }
    }
}
/// `for_hash`: leave out the block-signing solution / signblock witness
pub fn header(out: &mut Vec<u8>, h: &BlockHeader, for_hash: bool) {
    let dyna = matches!(h.ext, BlockExtData::Dynafed { .. });
    let version = if dyna { h.version | 0x8000_0000 } else { h.version };
    out.extend_from_slice(&version.to_le_bytes());
    out.extend_from_slice(&h.prev_blockhash.to_byte_array());
    out.extend_from_slice(&h.merkle_root.to_byte_array());
    out.extend_from_slice(&h.time.to_le_bytes());
    out.extend_from_slice(&h.height.to_le_bytes());
    match &h.ext {
        BlockExtData::Proof { challenge, solution } => {
            var_bytes(out, challenge.as_bytes());
            if !for_hash {
                var_bytes(out, solution.as_bytes());
            }
        }
        BlockExtData::Dynafed { current, proposed, signblock_witness } => {
            params(out, current);
            params(out, proposed);
            if !for_hash {
                stack(out, signblock_witness);
            }
        }
    }
}
pub fn block(out: &mut Vec<u8>, b: &Block) {
    header(out, &b.header, false);
    compact_size(out, b.txdata.len() as u64);
    for t in &b.txdata {
        tx(out, t, true);
    }
}
