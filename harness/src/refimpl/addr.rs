//! Independent address text encoders / decoders, written from the specifications:
//! base58check (Bitcoin), bech32 / bech32m (BIP-173 / BIP-350), blech32 / blech32m (Elements
//! `blech32.cpp`: 60-bit BCH code, 12-character checksum), RIPEMD-160 (for hash160), and a
//! complete reference *parser* of Elements addresses used as validity predicate.
//! Nothing here calls the `bech32` / `bitcoin` / `elements` encoders; the only foreign call is
//! libsecp256k1's public-key parser as "is this a valid curve point" predicate.
//! `self_test` pins all constants to address strings fixed in the repository's unit tests.

use super::sha256::{sha256, sha256d};

// ---------------------------------------------------------------- networks

#[derive(Debug, Clone, Copy, PartialEq, Eq)]
pub struct Net {
    pub name: &'static str,
    pub p2pkh: u8,
    pub p2sh: u8,
    pub blinded: u8,
    pub bech_hrp: &'static str,
    pub blech_hrp: &'static str,
}

/// Elements chainparams: liquidv1, elementsregtest, liquidtestnet (same order as `lib_params`
/// in the property files)
pub const NETS: [Net; 3] = [
    Net { name: "liquid", p2pkh: 57, p2sh: 39, blinded: 12, bech_hrp: "ex", blech_hrp: "lq" },
    Net { name: "elements", p2pkh: 235, p2sh: 75, blinded: 4, bech_hrp: "ert", blech_hrp: "el" },
    Net { name: "liquid-testnet", p2pkh: 36, p2sh: 19, blinded: 23, bech_hrp: "tex", blech_hrp: "tlq" },
];

// ---------------------------------------------------------------- RIPEMD-160

const RL: [usize; 80] = [
    0, 1, 2, 3, 4, 5, 6, 7, 8, 9, 10, 11, 12, 13, 14, 15, //
    7, 4, 13, 1, 10, 6, 15, 3, 12, 0, 9, 5, 2, 14, 11, 8, //
    3, 10, 14, 4, 9, 15, 8, 1, 2, 7, 0, 6, 13, 11, 5, 12, //
    1, 9, 11, 10, 0, 8, 12, 4, 13, 3, 7, 15, 14, 5, 6, 2, //
    4, 0, 5, 9, 7, 12, 2, 10, 14, 1, 3, 8, 11, 6, 15, 13,
];
const RR: [usize; 80] = [
    5, 14, 7, 0, 9, 2, 11, 4, 13, 6, 15, 8, 1, 10, 3, 12, //
    6, 11, 3, 7, 0, 13, 5, 10, 14, 15, 8, 12, 4, 9, 1, 2, //
    15, 5, 1, 3, 7, 14, 6, 9, 11, 8, 12, 2, 10, 0, 4, 13, //
    8, 6, 4, 1, 3, 11, 15, 0, 5, 12, 2, 13, 9, 7, 10, 14, //
    12, 15, 10, 4, 1, 5, 8, 7, 6, 2, 13, 14, 0, 3, 9, 11,
];
const SL: [u32; 80] = [
    11, 14, 15, 12, 5, 8, 7, 9, 11, 13, 14, 15, 6, 7, 9, 8, //
    7, 6, 8, 13, 11, 9, 7, 15, 7, 12, 15, 9, 11, 7, 13, 12, //
    11, 13, 6, 7, 14, 9, 13, 15, 14, 8, 13, 6, 5, 12, 7, 5, //
    11, 12, 14, 15, 14, 15, 9, 8, 9, 14, 5, 6, 8, 6, 5, 12, //
    9, 15, 5, 11, 6, 8, 13, 12, 5, 12, 13, 14, 11, 8, 5, 6,
];
const SR: [u32; 80] = [
    8, 9, 9, 11, 13, 15, 15, 5, 7, 7, 8, 11, 14, 14, 12, 6, //
    9, 13, 15, 7, 12, 8, 9, 11, 7, 7, 12, 7, 6, 15, 13, 11, //
    9, 7, 15, 11, 8, 6, 6, 14, 12, 13, 5, 14, 13, 13, 7, 5, //
    15, 5, 8, 11, 14, 14, 6, 14, 6, 9, 12, 9, 12, 5, 15, 8, //
    8, 5, 12, 9, 12, 5, 14, 6, 8, 13, 6, 5, 15, 13, 11, 11,
];
const KL: [u32; 5] = [0, 0x5A82_7999, 0x6ED9_EBA1, 0x8F1B_BCDC, 0xA953_FD4E];
const KR: [u32; 5] = [0x50A2_8BE6, 0x5C4D_D124, 0x6D70_3EF3, 0x7A6D_76E9, 0];

fn rmd_f(j: usize, x: u32, y: u32, z: u32) -> u32 {
    match j / 16 {
        0 => x ^ y ^ z,
        1 => (x & y) | (!x & z),
        2 => (x | !y) ^ z,
        3 => (x & z) | (y & !z),
        _ => x ^ (y | !z),
    }
}

pub fn ripemd160(data: &[u8]) -> [u8; 20] {
    let mut h: [u32; 5] = [0x6745_2301, 0xEFCD_AB89, 0x98BA_DCFE, 0x1032_5476, 0xC3D2_E1F0];
    let mut msg = data.to_vec();
    msg.push(0x80);
    while msg.len() % 64 != 56 {
        msg.push(0);
    }
    msg.extend_from_slice(&((data.len() as u64) * 8).to_le_bytes());
    for block in msg.chunks_exact(64) {
        let mut x = [0u32; 16];
        for i in 0..16 {
            x[i] = u32::from_le_bytes([block[4 * i], block[4 * i + 1], block[4 * i + 2], block[4 * i + 3]]);
        }
        let [mut al, mut bl, mut cl, mut dl, mut el] = h;
        let [mut ar, mut br, mut cr, mut dr, mut er] = h;
        for j in 0..80 {
            let t = al
                .wrapping_add(rmd_f(j, bl, cl, dl))
                .wrapping_add(x[RL[j]])
                .wrapping_add(KL[j / 16])
                .rotate_left(SL[j])
                .wrapping_add(el);
            al = el;
            el = dl;
            dl = cl.rotate_left(10);
            cl = bl;
            bl = t;
            let t = ar
                .wrapping_add(rmd_f(79 - j, br, cr, dr))
                .wrapping_add(x[RR[j]])
                .wrapping_add(KR[j / 16])
                .rotate_left(SR[j])
                .wrapping_add(er);
            ar = er;
            er = dr;
            dr = cr.rotate_left(10);
            cr = br;
            br = t;
        }
        let t = h[1].wrapping_add(cl).wrapping_add(dr);
        h[1] = h[2].wrapping_add(dl).wrapping_add(er);
        h[2] = h[3].wrapping_add(el).wrapping_add(ar);
        h[3] = h[4].wrapping_add(al).wrapping_add(br);
        h[4] = h[0].wrapping_add(bl).wrapping_add(cr);
        h[0] = t;
    }
    let mut out = [0u8; 20];
    for i in 0..5 {
        out[4 * i..4 * i + 4].copy_from_slice(&h[i].to_le_bytes());
    }
    out
}

pub fn hash160(data: &[u8]) -> [u8; 20] {
    ripemd160(&sha256(data))
}

// ---------------------------------------------------------------- base58check

pub const B58: &[u8; 58] = b"123456789ABCDEFGHJKLMNPQRSTUVWXYZabcdefghijkmnopqrstuvwxyz";

pub fn base58_encode(data: &[u8]) -> String {
    let zeros = data.iter().take_while(|&&b| b == 0).count();
    // repeated division of the big-endian number by 58
    let mut num: Vec<u8> = data[zeros..].to_vec();
    let mut digits: Vec<u8> = Vec::new();
    while !num.is_empty() {
        let mut rem = 0u32;
        let mut q: Vec<u8> = Vec::with_capacity(num.len());
        for &b in &num {
            let acc = rem * 256 + u32::from(b);
            let d = (acc / 58) as u8;
            rem = acc % 58;
            if !(q.is_empty() && d == 0) {
                q.push(d);
            }
        }
        digits.push(rem as u8);
        num = q;
    }
    let mut s = String::with_capacity(zeros + digits.len());
    for _ in 0..zeros {
        s.push('1');
    }
    for &d in digits.iter().rev() {
        s.push(B58[d as usize] as char);
    }
    s
}

pub fn base58_decode(s: &str) -> Option<Vec<u8>> {
    let mut num: Vec<u8> = Vec::new(); // big-endian base-256 digits, no leading zeros
    let bytes = s.as_bytes();
    let ones = bytes.iter().take_while(|&&c| c == b'1').count();
    for &c in bytes {
        let d = B58.iter().position(|&a| a == c)? as u32;
        let mut carry = d;
        for b in num.iter_mut().rev() {
            let acc = u32::from(*b) * 58 + carry;
            *b = (acc & 0xff) as u8;
            carry = acc >> 8;
        }
        while carry > 0 {
            num.insert(0, (carry & 0xff) as u8);
            carry >>= 8;
        }
    }
    let mut out = vec![0u8; ones];
    out.extend_from_slice(&num);
    Some(out)
}

/// payload || first four bytes of sha256d(payload), in base58
pub fn base58check(payload: &[u8]) -> String {
    let mut v = payload.to_vec();
    v.extend_from_slice(&sha256d(payload)[..4]);
    base58_encode(&v)
}

/// base58check with a deliberately wrong checksum (last checksum byte xor `x`, x != 0)
pub fn base58check_bad(payload: &[u8], x: u8) -> String {
    let mut v = payload.to_vec();
    let mut c = sha256d(payload)[..4].to_vec();
    c[3] ^= if x == 0 { 1 } else { x };
    v.extend_from_slice(&c);
    base58_encode(&v)
}

pub fn base58check_decode(s: &str) -> Option<Vec<u8>> {
    let v = base58_decode(s)?;
    if v.len() < 4 {
        return None;
    }
    let (p, c) = v.split_at(v.len() - 4);
    if sha256d(p)[..4] == *c {
        Some(p.to_vec())
    } else {
        None
    }
}

// ---------------------------------------------------------------- bech32 family

pub const CHARSET: &[u8; 32] = b"qpzry9x8gf2tvdw0s3jn54khce6mua7l";
pub const BECH32_CONST: u32 = 1;
pub const BECH32M_CONST: u32 = 0x2bc8_30a3;
pub const BLECH32_CONST: u64 = 1;
pub const BLECH32M_CONST: u64 = 0x455_972a_3350_f7a1;

pub fn charset_rev(c: u8) -> Option<u8> {
    let l = c.to_ascii_lowercase();
    CHARSET.iter().position(|&a| a == l).map(|p| p as u8)
}

pub fn bech32_polymod(values: &[u8]) -> u32 {
    const GEN: [u32; 5] = [0x3b6a_57b2, 0x2650_8e6d, 0x1ea1_19fa, 0x3d42_33dd, 0x2a14_62b3];
    let mut chk: u32 = 1;
    for &v in values {
        let b = chk >> 25;
        chk = ((chk & 0x01ff_ffff) << 5) ^ u32::from(v);
        for (i, g) in GEN.iter().enumerate() {
            if (b >> i) & 1 == 1 {
                chk ^= g;
            }
        }
    }
    chk
}

pub fn blech32_polymod(values: &[u8]) -> u64 {
    const GEN: [u64; 5] =
        [0x7d_52fb_a40b_d886, 0x5e_8dbf_1a03_950c, 0x1c_3a3c_7407_2a18, 0x38_5d72_fa0e_5139, 0x70_93e5_a608_865b];
    let mut c: u64 = 1;
    for &v in values {
        let c0 = c >> 55;
        c = ((c & 0x7f_ffff_ffff_ffff) << 5) ^ u64::from(v);
        for (i, g) in GEN.iter().enumerate() {
            if (c0 >> i) & 1 == 1 {
                c ^= g;
            }
        }
    }
    c
}

pub fn hrp_expand(hrp: &str) -> Vec<u8> {
    let l = hrp.to_ascii_lowercase();
    let mut v: Vec<u8> = l.bytes().map(|c| c >> 5).collect();
    v.push(0);
    v.extend(l.bytes().map(|c| c & 31));
    v
}

/// 8-bit groups to 5-bit groups, zero padded (BIP-173 `convertbits(data, 8, 5, true)`)
pub fn to5(data: &[u8]) -> Vec<u8> {
    let mut acc: u32 = 0;
    let mut bits = 0;
    let mut out = Vec::with_capacity(data.len() * 8 / 5 + 1);
    for &b in data {
        acc = (acc << 8) | u32::from(b);
        bits += 8;
        while bits >= 5 {
            bits -= 5;
            out.push(((acc >> bits) & 31) as u8);
        }
    }
    if bits > 0 {
        out.push(((acc << (5 - bits)) & 31) as u8);
    }
    out
}

/// 5-bit groups to bytes with the segwit padding rule: at most 4 padding bits, all zero
pub fn from5_strict(data: &[u8]) -> Option<Vec<u8>> {
    let mut acc: u32 = 0;
    let mut bits = 0;
    let mut out = Vec::with_capacity(data.len() * 5 / 8);
    for &v in data {
        acc = ((acc << 5) | u32::from(v)) & 0xfff;
        bits += 5;
        if bits >= 8 {
            bits -= 8;
            out.push(((acc >> bits) & 0xff) as u8);
        }
    }
    if bits >= 5 || (acc & ((1 << bits) - 1)) != 0 {
        return None;
    }
    Some(out)
}

/// number of padding bits the 5-bit form of `n` bytes carries
pub fn pad_bits(n: usize) -> usize {
    (5 - (n * 8) % 5) % 5
}

fn render(hrp: &str, data5: &[u8], checksum: &[u8]) -> String {
    let mut s = String::with_capacity(hrp.len() + 1 + data5.len() + checksum.len());
    s.push_str(hrp);
    s.push('1');
    for &d in data5.iter().chain(checksum) {
        s.push(CHARSET[(d & 31) as usize] as char);
    }
    s
}

/// hrp (lower case) + '1' + data + 6-character checksum whose residue is `constant`
pub fn bech32_encode_raw(hrp: &str, data5: &[u8], constant: u32) -> String {
    let mut v = hrp_expand(hrp);
    v.extend_from_slice(data5);
    v.extend_from_slice(&[0u8; 6]);
    let pm = bech32_polymod(&v) ^ constant;
    let chk: Vec<u8> = (0..6).map(|i| ((pm >> (5 * (5 - i))) & 31) as u8).collect();
    render(hrp, data5, &chk)
}

/// hrp + '1' + data + 12-character checksum whose residue is `constant`
pub fn blech32_encode_raw(hrp: &str, data5: &[u8], constant: u64) -> String {
    let mut v = hrp_expand(hrp);
    v.extend_from_slice(data5);
    v.extend_from_slice(&[0u8; 12]);
    let pm = blech32_polymod(&v) ^ constant;
    let chk: Vec<u8> = (0..12).map(|i| ((pm >> (5 * (11 - i))) & 31) as u8).collect();
    render(hrp, data5, &chk)
}

pub fn segwit_data5(version: u8, bytes: &[u8]) -> Vec<u8> {
    let mut d = vec![version & 31];
    d.extend(to5(bytes));
    d
}

/// unblinded segwit address: bech32 for version 0, bech32m otherwise
pub fn segwit_addr(hrp: &str, version: u8, program: &[u8]) -> String {
    let c = if version == 0 { BECH32_CONST } else { BECH32M_CONST };
    bech32_encode_raw(hrp, &segwit_data5(version, program), c)
}

/// blinded segwit address: blech32 for version 0, blech32m otherwise, over key || program
pub fn blinded_segwit_addr(hrp: &str, version: u8, blinder33: &[u8], program: &[u8]) -> String {
    let c = if version == 0 { BLECH32_CONST } else { BLECH32M_CONST };
    let mut b = blinder33.to_vec();
    b.extend_from_slice(program);
    blech32_encode_raw(hrp, &segwit_data5(version, &b), c)
}

pub fn base58_addr(prefix: u8, hash: &[u8]) -> String {
    let mut p = vec![prefix];
    p.extend_from_slice(hash);
    base58check(&p)
}

pub fn blinded_base58_addr(blinded_prefix: u8, prefix: u8, blinder33: &[u8], hash: &[u8]) -> String {
    let mut p = vec![blinded_prefix, prefix];
    p.extend_from_slice(blinder33);
    p.extend_from_slice(hash);
    base58check(&p)
}

// ---------------------------------------------------------------- reference address model

#[derive(Debug, Clone, PartialEq, Eq, Hash)]
pub enum RefPayload {
    Pkh([u8; 20]),
    Sh([u8; 20]),
    Wit { version: u8, program: Vec<u8> },
}

#[derive(Debug, Clone, PartialEq, Eq, Hash)]
pub struct RefAddr {
    /// index into `NETS`
    pub net: usize,
    pub payload: RefPayload,
    /// 33-byte compressed key
    pub blinder: Option<Vec<u8>>,
}

impl RefAddr {
    pub fn encode(&self) -> String {
        let n = &NETS[self.net];
        match (&self.payload, &self.blinder) {
            (RefPayload::Pkh(h), None) => base58_addr(n.p2pkh, h),
            (RefPayload::Sh(h), None) => base58_addr(n.p2sh, h),
            (RefPayload::Pkh(h), Some(b)) => blinded_base58_addr(n.blinded, n.p2pkh, b, h),
            (RefPayload::Sh(h), Some(b)) => blinded_base58_addr(n.blinded, n.p2sh, b, h),
            (RefPayload::Wit { version, program }, None) => segwit_addr(n.bech_hrp, *version, program),
            (RefPayload::Wit { version, program }, Some(b)) => blinded_segwit_addr(n.blech_hrp, *version, b, program),
        }
    }
    pub fn is_segwit(&self) -> bool {
        matches!(self.payload, RefPayload::Wit { .. })
    }
    /// the output script the address pays to
    pub fn script(&self) -> Vec<u8> {
        match &self.payload {
            RefPayload::Pkh(h) => {
                let mut v = vec![0x76, 0xa9, 0x14];
                v.extend_from_slice(h);
                v.extend_from_slice(&[0x88, 0xac]);
                v
            }
            RefPayload::Sh(h) => {
                let mut v = vec![0xa9, 0x14];
                v.extend_from_slice(h);
                v.push(0x87);
                v
            }
            RefPayload::Wit { version, program } => {
                let mut v = vec![if *version == 0 { 0 } else { 0x50 + *version }];
                push_slice(&mut v, program);
                v
            }
        }
    }
}

/// minimal-length data push (sizes below 0x10000 are enough here)
pub fn push_slice(v: &mut Vec<u8>, data: &[u8]) {
    let n = data.len();
    if n < 0x4c {
        v.push(n as u8);
    } else if n < 0x100 {
        v.push(0x4c);
        v.push(n as u8);
    } else {
        v.push(0x4d);
        v.extend_from_slice(&(n as u16).to_le_bytes());
    }
    v.extend_from_slice(data);
}

fn valid_pubkey33(b: &[u8]) -> bool {
    b.len() == 33 && elements::secp256k1_zkp::PublicKey::from_slice(b).is_ok()
}

/// Split a candidate segwit string at the last '1'; None if there is none.
pub fn split_hrp(s: &str) -> Option<(&str, &str)> {
    let p = s.rfind('1')?;
    Some((&s[..p], &s[p + 1..]))
}

/// Reference parser: Some(address) iff `s` is a valid Elements address of one of the three
/// networks (BIP-173 / BIP-350 rules with Elements' blech32 for blinded programs, base58check
/// layouts of `RefAddr::encode`). A string whose part before the last '1' is (case-insensitively)
/// one of the six human-readable parts is a segwit candidate and nothing else.
pub fn ref_parse(s: &str) -> Option<RefAddr> {
    if let Some((hrp, data)) = split_hrp(s) {
        let lower = hrp.to_ascii_lowercase();
        for (ni, n) in NETS.iter().enumerate() {
            for blinded in [false, true] {
                let want = if blinded { n.blech_hrp } else { n.bech_hrp };
                if lower != want {
                    continue;
                }
                // one case only
                let up = s.bytes().any(|c| c.is_ascii_uppercase());
                let lo = s.bytes().any(|c| c.is_ascii_lowercase());
                if up && lo {
                    return None;
                }
                let vals: Option<Vec<u8>> = data.bytes().map(charset_rev).collect();
                let vals = vals?;
                let cklen = if blinded { 12 } else { 6 };
                if vals.len() < cklen + 1 {
                    return None;
                }
                let version = vals[0];
                if version > 16 {
                    return None;
                }
                let mut all = hrp_expand(want);
                all.extend_from_slice(&vals);
                let ok = if blinded {
                    blech32_polymod(&all) == if version == 0 { BLECH32_CONST } else { BLECH32M_CONST }
                } else {
                    if s.len() > 90 {
                        return None;
                    }
                    bech32_polymod(&all) == if version == 0 { BECH32_CONST } else { BECH32M_CONST }
                };
                if !ok {
                    return None;
                }
                let bytes = from5_strict(&vals[1..vals.len() - cklen])?;
                let (blinder, program) = if blinded {
                    if bytes.len() < 33 || !valid_pubkey33(&bytes[..33]) {
                        return None;
                    }
                    (Some(bytes[..33].to_vec()), bytes[33..].to_vec())
                } else {
                    (None, bytes)
                };
                if program.len() < 2 || program.len() > 40 {
                    return None;
                }
                if version == 0 && program.len() != 20 && program.len() != 32 {
                    return None;
                }
                return Some(RefAddr { net: ni, payload: RefPayload::Wit { version, program }, blinder });
            }
        }
    }
    let p = base58check_decode(s)?;
    let first = *p.first()?;
    for (ni, n) in NETS.iter().enumerate() {
        if first == n.blinded {
            if p.len() != 55 || !valid_pubkey33(&p[2..35]) {
                return None;
            }
            let mut h = [0u8; 20];
            h.copy_from_slice(&p[35..]);
            let payload = if p[1] == n.p2pkh {
                RefPayload::Pkh(h)
            } else if p[1] == n.p2sh {
                RefPayload::Sh(h)
            } else {
                return None;
            };
            return Some(RefAddr { net: ni, payload, blinder: Some(p[2..35].to_vec()) });
        }
        if first == n.p2pkh || first == n.p2sh {
            if p.len() != 21 {
                return None;
            }
            let mut h = [0u8; 20];
            h.copy_from_slice(&p[1..]);
            let payload = if first == n.p2pkh { RefPayload::Pkh(h) } else { RefPayload::Sh(h) };
            return Some(RefAddr { net: ni, payload, blinder: None });
        }
    }
    None
}

// ---------------------------------------------------------------- self-test

fn unhex(s: &str) -> Vec<u8> {
    crate::engine::unhex(s).unwrap_or_default()
}

/// Anchors: strings fixed in /repo/src/address.rs (`test_fixed_addresses`, `test_actuals`,
/// `test_blech32_vectors`, `regression_188`) with their constituent data: the key
/// 0212bf…5cea (blinder and hashed key), the empty script, sha256("") and the two taproot
/// output keys of the fixed internal key.
pub fn self_test() -> Result<(), String> {
    let hx = crate::engine::hex;
    // RIPEMD-160 vectors of the original publication
    if hx(&ripemd160(b"")) != "9c1185a5c5e9fc54612808977ee8f548b2258d31" {
        return Err("ripemd160('')".into());
    }
    if hx(&ripemd160(b"abc")) != "8eb208f7e05d987a9b044a8e98c6b087f15a0bfc" {
        return Err("ripemd160('abc')".into());
    }
    if hx(&ripemd160(b"abcdbcdecdefdefgefghfghighijhijkijkljklmklmnlmnomnopnopq"))
        != "12a053384a9c0c88e405a06c27dcf49ada62eb2b"
    {
        return Err("ripemd160(448-bit)".into());
    }
    let digits: Vec<u8> = b"1234567890".iter().cycle().take(80).copied().collect();
    if hx(&ripemd160(&digits)) != "9b752e45573d4b39f4dbd3323cab82bf63326bfb" {
        return Err("ripemd160(80 digits)".into());
    }

    let pk = unhex("0212bf0ea45b733dfde8ecb5e896306c4165c666c99fc5d1ab887f71393a975cea");
    let h_pk = hash160(&pk);
    if hx(&h_pk) != "cb9ff7e76cf56a5e7ae0460fc589a2192f0cf8a4" {
        return Err("hash160(pk)".into());
    }
    let h_empty = hash160(b"");
    if hx(&h_empty) != "b472a266d0bd89c13706a4132ccfb16f7c3b9fcb" {
        return Err("hash160('')".into());
    }
    // p2sh-p2wpkh redeem script: OP_0 <20 bytes>
    let mut redeem = vec![0x00, 0x14];
    redeem.extend_from_slice(&h_pk);
    let h_shwpkh = hash160(&redeem);
    let w_empty = sha256(b"").to_vec();
    let tr_none = unhex("3820f0626aa7d44d118bc5165a0c67714336e25aae0e3b717365b0c68748bbd4");
    let tr_zero = unhex("30c7c1d90791c2cc97df4a58c5135ec27dc357c7bbfdec1fc0ee002bf33e895f");

    let a20 = |b: &[u8; 20]| *b;
    let pkh = RefPayload::Pkh(a20(&h_pk));
    let sh = RefPayload::Sh(a20(&h_empty));
    let shw = RefPayload::Sh(a20(&h_shwpkh));
    let w = |version: u8, p: &[u8]| RefPayload::Wit { version, program: p.to_vec() };
    let bl = Some(pk.clone());

    // (expected string, net, payload, blinder) in the order of the unit test's table
    let cases: Vec<(&str, usize, RefPayload, Option<Vec<u8>>)> = vec![
        ("2dszRCFv8Ub4ytKo1Q1vXXGgSx7mekNDwSJ", 1, pkh.clone(), None),
        ("XToMocNywBYNSiXUe5xvoa2naAps9Ek1hq", 1, sh.clone(), None),
        ("ert1qew0l0emv7449u7hqgc8utzdzryhse79yhq2sxv", 1, w(0, &h_pk), None),
        ("XZF6k8S6eoVxXMB4NpWjh2s7LjQUP7pw2R", 1, shw.clone(), None),
        ("ert1quwcvgs5clswpfxhm7nyfjmaeysn6us0yvjdexn9yjkv3k7zjhp2szaqlpq", 1, w(0, &w_empty), None),
        ("ert1p8qs0qcn25l2y6yvtc5t95rr8w9pndcj64c8rkutnvkcvdp6gh02q2cqvj9", 1, w(1, &tr_none), None),
        ("ert1pxrrurkg8j8pve97lffvv2y67cf7ux478h077c87qacqzhue7390sqkjp06", 1, w(1, &tr_zero), None),
        ("CTEkC79sYAvWNcxd8iTYnYo226FqRBbzBcMppq7L2dA8jVXJWoo1kKWB3UBLY6gBjiXf87ibs8c6mQyZ", 1, pkh.clone(), bl.clone()),
        ("AzpjUhKMLJi9y2oLt3ZdM3BP9nHdLPJfGMVxRBaRc2gDpeNqPMVpShTszJW7bX42vT2KoejYy8GtbcxH", 1, sh.clone(), bl.clone()),
        ("el1qqgft7r4ytdenml0gaj67393sd3qkt3nxex0ut5dt3plhzwf6jaww4jul7lnkeat2teawq3s0cky6yxf0pnu2gmz9ej9kyq5yc", 1, w(0, &h_pk), bl.clone()),
        ("AzpjUhKMLJi9y2oLt3ZdM3BP9nHdLPJfGMVxRBaRc2gDpeNvq6SLVpBVwtakF6nmUFundyW7YjUdVkpr", 1, shw.clone(), bl.clone()),
        ("el1qqgft7r4ytdenml0gaj67393sd3qkt3nxex0ut5dt3plhzwf6jaww4casc3pf3lquzjd0haxgn9hmjfp84eq7geymjdx2f9verdu99wz4h79u87cnxdzq", 1, w(0, &w_empty), bl.clone()),
        ("el1pqgft7r4ytdenml0gaj67393sd3qkt3nxex0ut5dt3plhzwf6jaww5wpq7p3x4f75f5gch3gktgxxwu2rxm394tsw8dchxedsc6r53w75cj24fq2u2ls5", 1, w(1, &tr_none), bl.clone()),
        ("el1pqgft7r4ytdenml0gaj67393sd3qkt3nxex0ut5dt3plhzwf6jaww5vx8c8vs0ywzejta7jjcc5f4asnacdtu0wlaas0upmsq90enaz2lhjd0k0q7qn4h", 1, w(1, &tr_zero), bl.clone()),
        ("QFq3vvrr6Ub2KAyb3LdoCxEQvKukB6nN9i", 0, pkh.clone(), None),
        ("GydeMhecNgrq17WMkyyTM4ETv1YubMVtLN", 0, sh.clone(), None),
        ("ex1qew0l0emv7449u7hqgc8utzdzryhse79ydjqgek", 0, w(0, &h_pk), None),
        ("H55PJDhj6JpR5k9wViXGEX4nga8WmhXtnD", 0, shw.clone(), None),
        ("ex1quwcvgs5clswpfxhm7nyfjmaeysn6us0yvjdexn9yjkv3k7zjhp2s4sla8h", 0, w(0, &w_empty), None),
        ("ex1p8qs0qcn25l2y6yvtc5t95rr8w9pndcj64c8rkutnvkcvdp6gh02qa4lw5j", 0, w(1, &tr_none), None),
        ("VTptY6cqJbusNpL5xvo8VL38nLX9PGDjfYQfqhu9EaA7FtuidkWyQzMHY9jzZrpBcCXT437vM6V4N8kh", 0, pkh.clone(), bl.clone()),
        ("VJL64Ep3rcngP4cScRme15q9i8MCNiuqWeiG3YbtduUidVyorg7nRsgmmF714QtH3sNpWB2CqsVVciQh", 0, sh.clone(), bl.clone()),
        ("lq1qqgft7r4ytdenml0gaj67393sd3qkt3nxex0ut5dt3plhzwf6jaww4jul7lnkeat2teawq3s0cky6yxf0pnu2gs2923tg58xcz", 0, w(0, &h_pk), bl.clone()),
        ("lq1pqgft7r4ytdenml0gaj67393sd3qkt3nxex0ut5dt3plhzwf6jaww5vx8c8vs0ywzejta7jjcc5f4asnacdtu0wlaas0upmsq90enaz2l77n92erwrrz8", 0, w(1, &tr_zero), bl.clone()),
        ("FojPFeboBgrd953mXXe72KWthjVwHWozqN", 2, pkh.clone(), None),
        ("8vsafXgrB5bJeSidGbK5eYnjKvQ3RiB4BB", 2, sh.clone(), None),
        ("tex1qew0l0emv7449u7hqgc8utzdzryhse79yh5jp9a", 2, w(0, &h_pk), None),
        ("tex1pxrrurkg8j8pve97lffvv2y67cf7ux478h077c87qacqzhue7390skzlycz", 2, w(1, &tr_zero), None),
        ("vtS71VhcpFt978sha5d1L2gCzp3UL5kXacRpb3N4GTW5MwvBzz5HwxYyB8Pns4yM2dd2osmQkHSkp88u", 2, pkh.clone(), bl.clone()),
        ("vjTuLJ76nGi8PUopBVmGK8bLKPfBpaBWf6wKfn8z9Vdz6ubVhpvmMr6TK2RcqAYiujN1g1uwg8kejrM3", 2, sh.clone(), bl.clone()),
        ("tlq1qqgft7r4ytdenml0gaj67393sd3qkt3nxex0ut5dt3plhzwf6jaww4casc3pf3lquzjd0haxgn9hmjfp84eq7geymjdx2f9verdu99wz4e6vcdfcyp5m8", 2, w(0, &w_empty), bl.clone()),
        ("tlq1pqgft7r4ytdenml0gaj67393sd3qkt3nxex0ut5dt3plhzwf6jaww5wpq7p3x4f75f5gch3gktgxxwu2rxm394tsw8dchxedsc6r53w75kkr3rh2tdxfn", 2, w(1, &tr_none), bl.clone()),
    ];
    for (want, net, payload, blinder) in cases {
        let a = RefAddr { net, payload, blinder };
        let got = a.encode();
        if got != want {
            return Err(format!("address encoder: got {} want {}", got, want));
        }
        if ref_parse(want).as_ref() != Some(&a) {
            return Err(format!("reference parser does not invert the encoder on {}", want));
        }
        if a.is_segwit() && ref_parse(&want.to_ascii_uppercase()).as_ref() != Some(&a) {
            return Err(format!("reference parser rejects the upper-case form of {}", want));
        }
    }

    // test_actuals / regression_188: strings only; they must decode and re-encode identically
    for s in [
        "2dxmEBXc2qMYcLSKiDBxdEePY3Ytixmnh4E",
        "CTEo6VKG8xbe7HnfVW9mQoWTgtgeRSPktwTLbELzGw5tV8Ngzu53EBiasFMQKVbWmKWWTAdN5AUf4M6Y",
        "ert1qwhh2n5qypypm0eufahm2pvj8raj9zq5c27cysu",
        "el1qq0umk3pez693jrrlxz9ndlkuwne93gdu9g83mhhzuyf46e3mdzfpva0w48gqgzgrklncnm0k5zeyw8my2ypfsmxh4xcjh2rse",
        "GqiQRsPEyJLAsEBFB5R34KHuqxDNkG3zur",
        "VJLDwMVWXg8RKq4mRe3YFNTAEykVN6V8x5MRUKKoC3nfRnbpnZeiG3jygMC6A4Gw967GY5EotJ4Rau2F",
        "ex1q7gkeyjut0mrxc3j0kjlt7rmcnvsh0gt45d3fud",
        "lq1qqf8er278e6nyvuwtgf39e6ewvdcnjupn9a86rzpx655y5lhkt0walu3djf9cklkxd3ryld97hu8h3xepw7sh2rlu7q45dcew5",
        "tlq1qq2xvpcvfup5j8zscjq05u2wxxjcyewk7979f3mmz5l7uw5pqmx6xf5xy50hsn6vhkm5euwt72x878eq6zxx2z58hd7zrsg9qn",
    ] {
        match ref_parse(s) {
            Some(a) if a.encode() == s => {}
            Some(a) => return Err(format!("re-encoding {} gives {}", s, a.encode())),
            None => return Err(format!("reference parser rejects the pinned address {}", s)),
        }
    }

    // test_blech32_vectors: the two "wrong checksum variant" strings are exactly what the
    // reference encoder produces with the other constant; all listed strings are invalid
    let key = unhex("03f9bb4439168b190c7f308b36fedc74f258a1bc2a0f1ddee2e1135d663b689216");
    let prog = unhex("75eea9d0040903b7e789edf6a0b2471f64510298");
    let mut kp = key.clone();
    kp.extend_from_slice(&prog);
    let v1_blech32 = blech32_encode_raw("el", &segwit_data5(1, &kp), BLECH32_CONST);
    if v1_blech32 != "el1pq0umk3pez693jrrlxz9ndlkuwne93gdu9g83mhhzuyf46e3mdzfpva0w48gqgzgrklncnm0k5zeyw8my2ypfsxguu9nrdg2pc" {
        return Err(format!("blech32 with version 1: {}", v1_blech32));
    }
    let v0_blech32m = blech32_encode_raw("el", &segwit_data5(0, &kp), BLECH32M_CONST);
    if v0_blech32m != "el1qq0umk3pez693jrrlxz9ndlkuwne93gdu9g83mhhzuyf46e3mdzfpva0w48gqgzgrklncnm0k5zeyw8my2ypfsnnmzrstzt7de" {
        return Err(format!("blech32m with version 0: {}", v0_blech32m));
    }
    let mut long = key.clone();
    long.extend_from_slice(&prog);
    long.extend_from_slice(&[0u8; 21]);
    let too_long = blech32_encode_raw("el", &segwit_data5(1, &long), BLECH32M_CONST);
    if too_long != "el1pq0umk3pez693jrrlxz9ndlkuwne93gdu9g83mhhzuyf46e3mdzfpva0w48gqgzgrklncnm0k5zeyw8my2ypfsqqqqqqqqqqqqqqqqqqqqqqqqqqqqqqqqqqpe9jfn0gypaj" {
        return Err(format!("over-long blech32m vector: {}", too_long));
    }
    let v17 = bech32_encode_raw(
        "ert",
        &segwit_data5(17, &unhex("79be667ef9dcbbac55a06295ce870b07029bfcdb2dce28d959f2815b16f81798")),
        BECH32_CONST,
    );
    if v17 != "ert130xlxvlhemja6c4dqv22uapctqupfhlxm9h8z3k2e72q4k9hcz7vqqu2tys" {
        return Err(format!("version-17 vector: {}", v17));
    }
    for s in [
        v1_blech32.as_str(),
        v0_blech32m.as_str(),
        too_long.as_str(),
        v17.as_str(),
        "rrr1qq0umk3pez693jrrlxz9ndlkuwne93gdu9g83mhhzuyf46e3mdzfpva0w48gqgzgrklncnm0k5zeyw8my2ypfs2d9rp7meq4kg",
    ] {
        if ref_parse(s).is_some() {
            return Err(format!("reference parser accepts the invalid vector {}", s));
        }
    }

    // BIP-173 / BIP-350 vectors (generic bech32 strings and segwit addresses)
    for (s, c) in [("a12uel5l", BECH32_CONST), ("a1lqfn3a", BECH32M_CONST), ("abcdef1qpzry9x8gf2tvdw0s3jn54khce6mua7lmqqqxw", BECH32_CONST)] {
        let (hrp, data) = split_hrp(s).ok_or("split")?;
        let vals: Vec<u8> = data.bytes().filter_map(charset_rev).collect();
        let mut all = hrp_expand(hrp);
        all.extend_from_slice(&vals);
        if bech32_polymod(&all) != c {
            return Err(format!("bech32 residue of the BIP vector {}", s));
        }
        if bech32_encode_raw(hrp, &vals[..vals.len() - 6], c) != s {
            return Err(format!("bech32 re-encoding of the BIP vector {}", s));
        }
    }
    let bip = segwit_addr("bc", 0, &unhex("751e76e8199196d454941c45d1b3a323f1433bd6"));
    if bip != "bc1qw508d6qejxtdg4y5r3zarvary0c5xw7kv8f3t4" {
        return Err(format!("BIP-173 p2wpkh vector: {}", bip));
    }
    let bip = segwit_addr("bc", 1, &unhex("79be667ef9dcbbac55a06295ce870b07029bfcdb2dce28d959f2815b16f81798"));
    if bip != "bc1p0xlxvlhemja6c4dqv22uapctqupfhlxm9h8z3k2e72q4k9hcz7vqzk5jj0" {
        return Err(format!("BIP-350 v1 vector: {}", bip));
    }
    // base58 edge: leading zero bytes
    if base58_encode(&[0, 0, 1]) != "112" || base58_decode("112") != Some(vec![0, 0, 1]) {
        return Err("base58 leading zeros".into());
    }
    if to5(&[0xff]) != vec![31, 28] || from5_strict(&[31, 28]) != Some(vec![0xff]) || from5_strict(&[31, 29]).is_some() {
        return Err("bit regrouping".into());
    }
    Ok(())
}
