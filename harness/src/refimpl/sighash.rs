//! Independent implementation of the three Elements signature-hash algorithms, written from the
//! Elements consensus rules (interpreter.cpp `SignatureHash` for BASE / WITNESS_V0 and
//! `SignatureHashSchnorr`, doc/taproot-sighash.mediawiki). Uses the harness's own SHA-256 and
//! wire encoder only.

use elements::{Transaction, TxOut};

use super::enc;
use super::sha256::{sha256, sha256d, tagged};

pub const SIGHASH_ALL: u32 = 1;
pub const SIGHASH_NONE: u32 = 2;
pub const SIGHASH_SINGLE: u32 = 3;
pub const SIGHASH_ANYONECANPAY: u32 = 0x80;

pub const ONE: [u8; 32] = [1, 0, 0, 0, 0, 0, 0, 0, 0, 0, 0, 0, 0, 0, 0, 0, 0, 0, 0, 0, 0, 0, 0, 0, 0, 0, 0, 0, 0, 0, 0, 0];

pub enum Legacy {
    /// SIGHASH_SINGLE with no matching output: the digest *is* the constant one
    One,
    /// the signing serialization; digest = sha256d(message)
    Message(Vec<u8>),
}
impl Legacy {
    pub fn digest(&self) -> [u8; 32] {
        match self {
            Legacy::One => ONE,
            Legacy::Message(m) => sha256d(m),
        }
    }
}

/// Legacy (pre-segwit) signing serialization. The pinned Elements Core vectors (issuance case)
/// decide one ambiguity: the input is serialized in its transaction form, i.e. with the
/// pegin / issuance flags folded into the outpoint index.
pub fn legacy(tx: &Transaction, idx: usize, script_code: &[u8], hash_type: u32) -> Legacy {
    let base = hash_type & 0x1f;
    let acp = hash_type & SIGHASH_ANYONECANPAY != 0;
    if base == SIGHASH_SINGLE && idx >= tx.output.len() {
        return Legacy::One;
    }
    let mut m = Vec::new();
    m.extend_from_slice(&tx.version.to_le_bytes());
    let inputs: Vec<usize> = if acp { vec![idx] } else { (0..tx.input.len()).collect() };
    enc::compact_size(&mut m, inputs.len() as u64);
    for &n in &inputs {
        let i = &tx.input[n];
        let has_iss = !enc::issuance_is_null(&i.asset_issuance);
        let mut vout = i.previous_output.vout;
        if i.is_pegin {
            vout |= 1 << 30;
        }
        if has_iss {
            vout |= 1 << 31;
        }
        m.extend_from_slice(&elements::hashes::Hash::to_byte_array(i.previous_output.txid));
        m.extend_from_slice(&vout.to_le_bytes());
        if n == idx {
            enc::var_bytes(&mut m, script_code);
        } else {
            m.push(0);
        }
        let seq = if n != idx && (base == SIGHASH_SINGLE || base == SIGHASH_NONE) { 0 } else { i.sequence.0 };
        m.extend_from_slice(&seq.to_le_bytes());
        if has_iss {
            enc::issuance(&mut m, &i.asset_issuance);
        }
    }
    match base {
        SIGHASH_NONE => m.push(0),
        SIGHASH_SINGLE => {
            enc::compact_size(&mut m, idx as u64 + 1);
            for k in 0..=idx {
                if k == idx {
                    enc::txout(&mut m, &tx.output[k]);
                } else {
                    // blank CTxOut: null asset, null value, null nonce, empty script
                    m.extend_from_slice(&[0, 0, 0, 0]);
                }
            }
        }
        _ => {
            enc::compact_size(&mut m, tx.output.len() as u64);
            for o in &tx.output {
                enc::txout(&mut m, o);
            }
        }
    }
    m.extend_from_slice(&tx.lock_time.to_consensus_u32().to_le_bytes());
    m.extend_from_slice(&hash_type.to_le_bytes());
    Legacy::Message(m)
}

/// BIP143 with the Elements issuance extension; digest = sha256d(message)
pub fn segwit_v0(tx: &Transaction, idx: usize, script_code: &[u8], value: &elements::confidential::Value, hash_type: u32) -> Vec<u8> {
    let base = hash_type & 0x1f;
    let acp = hash_type & SIGHASH_ANYONECANPAY != 0;
    let zero = [0u8; 32];
    let mut m = Vec::new();
    m.extend_from_slice(&tx.version.to_le_bytes());
    // hashPrevouts
    if !acp {
        let mut b = Vec::new();
        for i in &tx.input {
            enc::outpoint(&mut b, &i.previous_output);
        }
        m.extend_from_slice(&sha256d(&b));
    } else {
        m.extend_from_slice(&zero);
    }
    // hashSequence
    if !acp && base != SIGHASH_SINGLE && base != SIGHASH_NONE {
        let mut b = Vec::new();
        for i in &tx.input {
            b.extend_from_slice(&i.sequence.0.to_le_bytes());
        }
        m.extend_from_slice(&sha256d(&b));
    } else {
        m.extend_from_slice(&zero);
    }
    // hashIssuance
    if !acp {
        let mut b = Vec::new();
        for i in &tx.input {
            if enc::issuance_is_null(&i.asset_issuance) {
                b.push(0);
            } else {
                enc::issuance(&mut b, &i.asset_issuance);
            }
        }
        m.extend_from_slice(&sha256d(&b));
    } else {
        m.extend_from_slice(&zero);
    }
    let i = &tx.input[idx];
    enc::outpoint(&mut m, &i.previous_output);
    enc::var_bytes(&mut m, script_code);
    enc::value(&mut m, value);
    m.extend_from_slice(&i.sequence.0.to_le_bytes());
    if !enc::issuance_is_null(&i.asset_issuance) {
        enc::issuance(&mut m, &i.asset_issuance);
    }
    // hashOutputs
    if base != SIGHASH_SINGLE && base != SIGHASH_NONE {
        let mut b = Vec::new();
        for o in &tx.output {
            enc::txout(&mut b, o);
        }
        m.extend_from_slice(&sha256d(&b));
    } else if base == SIGHASH_SINGLE && idx < tx.output.len() {
        let mut b = Vec::new();
        enc::txout(&mut b, &tx.output[idx]);
        m.extend_from_slice(&sha256d(&b));
    } else {
        m.extend_from_slice(&zero);
    }
    m.extend_from_slice(&tx.lock_time.to_consensus_u32().to_le_bytes());
    m.extend_from_slice(&hash_type.to_le_bytes());
    m
}

#[derive(Debug, PartialEq, Eq, Clone, Copy)]
pub enum TapErr {
    /// number of spent outputs differs from the number of inputs
    PrevoutsSize,
    /// all spent outputs are needed but only one was supplied
    NeedAllPrevouts,
    /// the single supplied spent output belongs to another input / index has no spent output
    PrevoutIndex,
    /// input index out of range (needed for ANYONECANPAY)
    InputIndex,
    /// SIGHASH_SINGLE without a corresponding output
    SingleNoOutput,
}

pub enum Spent<'a> {
    All(&'a [TxOut]),
    One(usize, &'a TxOut),
}

fn issuance_proofs(b: &mut Vec<u8>, w: &elements::TxInWitness) {
    match &w.amount_rangeproof {
        None => b.push(0),
        Some(p) => enc::var_bytes(b, &p.serialize()),
    }
    match &w.inflation_keys_rangeproof {
        None => b.push(0),
        Some(p) => enc::var_bytes(b, &p.serialize()),
    }
}

/// Elements taproot signing message (without the tag prefix); digest = tagged("TapSighash/elements", msg)
pub fn taproot_message(
    tx: &Transaction,
    idx: usize,
    spent: &Spent,
    annex: Option<&[u8]>,
    leaf: Option<([u8; 32], u32)>,
    hash_type: u8,
    genesis: &[u8; 32],
) -> Result<Vec<u8>, TapErr> {
    if let Spent::All(s) = spent {
        if s.len() != tx.input.len() {
            return Err(TapErr::PrevoutsSize);
        }
    }
    let acp = hash_type & 0x80 != 0;
    let out_type = if hash_type == 0 { 1 } else { hash_type & 3 };
    let mut m = Vec::new();
    m.extend_from_slice(genesis);
    m.extend_from_slice(genesis);
    m.push(hash_type);
    m.extend_from_slice(&tx.version.to_le_bytes());
    m.extend_from_slice(&tx.lock_time.to_consensus_u32().to_le_bytes());
    if !acp {
        let all = match spent {
            Spent::All(s) => *s,
            Spent::One(..) => return Err(TapErr::NeedAllPrevouts),
        };
        let mut flags = Vec::new();
        let mut prevouts = Vec::new();
        let mut asset_amounts = Vec::new();
        let mut spks = Vec::new();
        let mut seqs = Vec::new();
        let mut iss = Vec::new();
        let mut iss_proofs = Vec::new();
        for (n, i) in tx.input.iter().enumerate() {
            let has_iss = !enc::issuance_is_null(&i.asset_issuance);
            flags.push((u8::from(i.is_pegin) << 6) | (u8::from(has_iss) << 7));
            enc::outpoint(&mut prevouts, &i.previous_output);
            enc::asset(&mut asset_amounts, &all[n].asset);
            enc::value(&mut asset_amounts, &all[n].value);
            enc::var_bytes(&mut spks, all[n].script_pubkey.as_bytes());
            seqs.extend_from_slice(&i.sequence.0.to_le_bytes());
            if has_iss {
                enc::issuance(&mut iss, &i.asset_issuance);
            } else {
                iss.push(0);
            }
            issuance_proofs(&mut iss_proofs, &i.witness);
        }
        m.extend_from_slice(&sha256(&flags));
        m.extend_from_slice(&sha256(&prevouts));
        m.extend_from_slice(&sha256(&asset_amounts));
        m.extend_from_slice(&sha256(&spks));
        m.extend_from_slice(&sha256(&seqs));
        m.extend_from_slice(&sha256(&iss));
        m.extend_from_slice(&sha256(&iss_proofs));
    }
    if out_type == 1 {
        let mut outs = Vec::new();
        let mut wits = Vec::new();
        for o in &tx.output {
            enc::txout(&mut outs, o);
            enc::out_witness(&mut wits, &o.witness);
        }
        m.extend_from_slice(&sha256(&outs));
        m.extend_from_slice(&sha256(&wits));
    }
    let spend_type = u8::from(annex.is_some()) | (u8::from(leaf.is_some()) << 1);
    m.push(spend_type);
    if acp {
        let i = tx.input.get(idx).ok_or(TapErr::InputIndex)?;
        let prev = match spent {
            Spent::All(s) => s.get(idx).ok_or(TapErr::PrevoutIndex)?,
            Spent::One(k, p) => {
                if *k == idx {
                    *p
                } else {
                    return Err(TapErr::PrevoutIndex);
                }
            }
        };
        let has_iss = !enc::issuance_is_null(&i.asset_issuance);
        m.push((u8::from(i.is_pegin) << 6) | (u8::from(has_iss) << 7));
        enc::outpoint(&mut m, &i.previous_output);
        enc::asset(&mut m, &prev.asset);
        enc::value(&mut m, &prev.value);
        enc::var_bytes(&mut m, prev.script_pubkey.as_bytes());
        m.extend_from_slice(&i.sequence.0.to_le_bytes());
        if has_iss {
            enc::issuance(&mut m, &i.asset_issuance);
            let mut p = Vec::new();
            issuance_proofs(&mut p, &i.witness);
            m.extend_from_slice(&sha256(&p));
        } else {
            m.push(0);
        }
    } else {
        m.extend_from_slice(&(idx as u32).to_le_bytes());
    }
    if let Some(a) = annex {
        let mut b = Vec::new();
        enc::var_bytes(&mut b, a);
        m.extend_from_slice(&sha256(&b));
    }
    if out_type == 3 {
        let o = tx.output.get(idx).ok_or(TapErr::SingleNoOutput)?;
        let mut b = Vec::new();
        enc::txout(&mut b, o);
        m.extend_from_slice(&sha256(&b));
        let mut w = Vec::new();
        enc::out_witness(&mut w, &o.witness);
        m.extend_from_slice(&sha256(&w));
    }
    if let Some((h, pos)) = leaf {
        m.extend_from_slice(&h);
        m.push(0);
        m.extend_from_slice(&pos.to_le_bytes());
    }
    Ok(m)
}

pub fn taproot_digest(msg: &[u8]) -> [u8; 32] {
    tagged("TapSighash/elements", msg)
}

pub fn tap_leaf_hash(leaf_version: u8, script: &[u8]) -> [u8; 32] {
    let mut b = vec![leaf_version];
    enc::var_bytes(&mut b, script);
    tagged("TapLeaf/elements", &b)
}

/// anchor on the 20 Elements Core vectors pinned in the repository
pub fn self_test() -> Result<(), String> {
    let path = format!("{}/corpus/sighash_vectors.json", crate::engine::verif_dir());
    let s = std::fs::read_to_string(&path).map_err(|e| format!("{}: {}", path, e))?;
    let v: serde_json::Value = serde_json::from_str(&s).map_err(|e| e.to_string())?;
    let arr = v.as_array().ok_or("vectors not an array")?;
    if arr.len() < 20 {
        return Err("too few sighash vectors".into());
    }
    for (n, e) in arr.iter().enumerate() {
        let g = |k: &str| e.get(k).and_then(|x| x.as_str()).unwrap_or("").to_string();
        let txb = crate::engine::unhex(&g("tx")).ok_or("tx hex")?;
        let tx: Transaction = elements::encode::deserialize(&txb).map_err(|e| format!("vector tx: {}", e))?;
        let script = crate::engine::unhex(&g("script")).ok_or("script hex")?;
        let idx = e.get("index").and_then(|x| x.as_u64()).unwrap_or(0) as usize;
        let ht = match g("hash_type").as_str() {
            "All" => 1,
            "None" => 2,
            "Single" => 3,
            "AllPlusAnyoneCanPay" => 0x81,
            "NonePlusAnyoneCanPay" => 0x82,
            "SinglePlusAnyoneCanPay" => 0x83,
            _ => return Err("hash type".into()),
        };
        let want = g("expected");
        let got = if g("kind") == "legacy" {
            legacy(&tx, idx, &script, ht).digest()
        } else {
            let vb = crate::engine::unhex(&g("value")).ok_or("value hex")?;
            let val: elements::confidential::Value = elements::encode::deserialize(&vb).map_err(|e| e.to_string())?;
            sha256d(&segwit_v0(&tx, idx, &script, &val, ht))
        };
        if crate::engine::hex(&got) != want {
            return Err(format!("reference sighash disagrees with pinned vector #{} ({} {})", n, g("kind"), g("hash_type")));
        }
    }
    Ok(())
}
