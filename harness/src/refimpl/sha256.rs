//! Independent SHA-256 (FIPS 180-4), written for the harness; exposes the raw compression
//! function, which is what Elements' "fast merkle root" is defined over.

const K: [u32; 64] = [
    0x428a2f98, 0x71374491, 0xb5c0fbcf, 0xe9b5dba5, 0x3956c25b, 0x59f111f1, 0x923f82a4, 0xab1c5ed5,
    0xd807aa98, 0x12835b01, 0x243185be, 0x550c7dc3, 0x72be5d74, 0x80deb1fe, 0x9bdc06a7, 0xc19bf174,
    0xe49b69c1, 0xefbe4786, 0x0fc19dc6, 0x240ca1cc, 0x2de92c6f, 0x4a7484aa, 0x5cb0a9dc, 0x76f988da,
    0x983e5152, 0xa831c66d, 0xb00327c8, 0xbf597fc7, 0xc6e00bf3, 0xd5a79147, 0x06ca6351, 0x14292967,
    0x27b70a85, 0x2e1b2138, 0x4d2c6dfc, 0x53380d13, 0x650a7354, 0x766a0abb, 0x81c2c92e, 0x92722c85,
    0xa2bfe8a1, 0xa81a664b, 0xc24b8b70, 0xc76c51a3, 0xd192e819, 0xd6990624, 0xf40e3585, 0x106aa070,
    0x19a4c116, 0x1e376c08, 0x2748774c, 0x34b0bcb5, 0x391c0cb3, 0x4ed8aa4a, 0x5b9cca4f, 0x682e6ff3,
    0x748f82ee, 0x78a5636f, 0x84c87814, 0x8cc70208, 0x90befffa, 0xa4506ceb, 0xbef9a3f7, 0xc67178f2,
];

pub const IV: [u32; 8] = [
    0x6a09e667, 0xbb67ae85, 0x3c6ef372, 0xa54ff53a, 0x510e527f, 0x9b05688c, 0x1f83d9ab, 0x5be0cd19,
];

pub fn compress(state: &mut [u32; 8], block: &[u8; 64]) {
    let mut w = [0u32; 64];
    for i in 0..16 {
        w[i] = u32::from_be_bytes([block[4 * i], block[4 * i + 1], block[4 * i + 2], block[4 * i + 3]]);
    }
    for i in 16..64 {
        let s0 = w[i - 15].rotate_right(7) ^ w[i - 15].rotate_right(18) ^ (w[i - 15] >> 3);
        let s1 = w[i - 2].rotate_right(17) ^ w[i - 2].rotate_right(19) ^ (w[i - 2] >> 10);
        w[i] = w[i - 16].wrapping_add(s0).wrapping_add(w[i - 7]).wrapping_add(s1);
    }
    let [mut a, mut b, mut c, mut d, mut e, mut f, mut g, mut h] = *state;
    for i in 0..64 {
        let s1 = e.rotate_right(6) ^ e.rotate_right(11) ^ e.rotate_right(25);
        let ch = (e & f) ^ (!e & g);
        let t1 = h.wrapping_add(s1).wrapping_add(ch).wrapping_add(K[i]).wrapping_add(w[i]);
        let s0 = a.rotate_right(2) ^ a.rotate_right(13) ^ a.rotate_right(22);
        let maj = (a & b) ^ (a & c) ^ (b & c);
        let t2 = s0.wrapping_add(maj);
        h = g;
        g = f;
        f = e;
        e = d.wrapping_add(t1);
        d = c;
        c = b;
        b = a;
        a = t1.wrapping_add(t2);
    }
    for (s, v) in state.iter_mut().zip([a, b, c, d, e, f, g, h]) {
        *s = s.wrapping_add(v);
    }
}

pub fn state_bytes(state: &[u32; 8]) -> [u8; 32] {
    let mut out = [0u8; 32];
    for i in 0..8 {
        out[4 * i..4 * i + 4].copy_from_slice(&state[i].to_be_bytes());
    }
    out
}

pub fn sha256(data: &[u8]) -> [u8; 32] {
    let mut state = IV;
    let mut chunks = data.chunks_exact(64);
    for c in &mut chunks {
        let mut b = [0u8; 64];
        b.copy_from_slice(c);
        compress(&mut state, &b);
    }
    let rem = chunks.remainder();
    let mut tail = Vec::with_capacity(128);
    tail.extend_from_slice(rem);
    tail.push(0x80);
    while tail.len() % 64 != 56 {
        tail.push(0);
    }
    tail.extend_from_slice(&((data.len() as u64) * 8).to_be_bytes());
    for c in tail.chunks_exact(64) {
        let mut b = [0u8; 64];
        b.copy_from_slice(c);
        compress(&mut state, &b);
    }
    state_bytes(&state)
}

pub fn sha256d(data: &[u8]) -> [u8; 32] {
    sha256(&sha256(data))
}

/// BIP340-style tagged hash: sha256(sha256(tag) || sha256(tag) || data)
pub fn tagged(tag: &str, data: &[u8]) -> [u8; 32] {
    let t = sha256(tag.as_bytes());
    let mut v = Vec::with_capacity(64 + data.len());
    v.extend_from_slice(&t);
    v.extend_from_slice(&t);
    v.extend_from_slice(data);
    sha256(&v)
}

/// One application of the compression function to left||right from the initial state, no padding.
pub fn midstate_pair(left: &[u8; 32], right: &[u8; 32]) -> [u8; 32] {
    let mut b = [0u8; 64];
    b[..32].copy_from_slice(left);
    b[32..].copy_from_slice(right);
    let mut st = IV;
    compress(&mut st, &b);
    state_bytes(&st)
}

/// Definitional fast merkle root: pair adjacent nodes left to right, promote an odd last node.
pub fn fast_merkle_root(leaves: &[[u8; 32]]) -> [u8; 32] {
    if leaves.is_empty() {
        return [0u8; 32];
    }
    let mut level: Vec<[u8; 32]> = leaves.to_vec();
    while level.len() > 1 {
        let mut next = Vec::with_capacity(level.len() / 2 + 1);
        let mut i = 0;
        while i + 1 < level.len() {
            next.push(midstate_pair(&level[i], &level[i + 1]));
            i += 2;
        }
        if i < level.len() {
            next.push(level[i]);
        }
        level = next;
    }
    level[0]
}

/// self-test against FIPS vectors; Err(text) on mismatch
pub fn self_test() -> Result<(), String> {
    let h = |b: &[u8]| crate::engine::hex(&sha256(b));
    if h(b"") != "e3b0c44298fc1c149afbf4c8996fb92427ae41e4649b934ca495991b7852b855" {
        return Err("sha256('')".into());
    }
    if h(b"abc") != "ba7816bf8f01cfea414140de5dae2223b00361a396177a9cb410ff61f20015ad" {
        return Err("sha256('abc')".into());
    }
    if h(b"abcdbcdecdefdefgefghfghighijhijkijkljklmklmnlmnomnopnopq")
        != "248d6a61d20638b8e5c026930c3e6039a33ce45964ff2167f6ecedd419db06c1"
    {
        return Err("sha256(448-bit)".into());
    }
    let million = vec![b'a'; 1_000_000];
    if h(&million) != "cdc76e5c9914fb9281a1c7e284d73e67f1809a48a497200e046d39ccc7112cd0" {
        return Err("sha256(million a)".into());
    }
    Ok(())
}
