//! Reference model of Elements taproot script trees, written from BIP-341 with the
//! `/elements` tags: tree model, leaf / branch / tweak hashes over the harness's own SHA-256,
//! per-leaf sibling paths, output key as `P_even + t*G` (point addition through
//! `PublicKey::combine`, never the x-only tweak API the library uses), control-block bytes,
//! DFS depth-sequence parser (validity oracle), full-binary-tree shape enumeration and the
//! optimal Huffman cost.

use std::cmp::Reverse;
use std::collections::BinaryHeap;

use elements::secp256k1_zkp::{PublicKey, SecretKey};

use super::sha256::tagged;
use crate::gen::pool::secp;

pub const TAG_LEAF: &str = "TapLeaf/elements";
pub const TAG_BRANCH: &str = "TapBranch/elements";
pub const TAG_TWEAK: &str = "TapTweak/elements";
/// documented limit: `TAPROOT_CONTROL_MAX_NODE_COUNT`
pub const MAX_DEPTH: usize = 128;

pub type H = [u8; 32];

#[derive(Clone, Debug, PartialEq, Eq)]
pub enum Node {
    Leaf { script: Vec<u8>, ver: u8 },
    Hidden(H),
    Branch(Box<Node>, Box<Node>),
}

fn compact_size(out: &mut Vec<u8>, n: u64) {
    if n < 0xfd {
        out.push(n as u8);
    } else if n <= 0xffff {
        out.push(0xfd);
        out.extend_from_slice(&(n as u16).to_le_bytes());
    } else if n <= 0xffff_ffff {
        out.push(0xfe);
        out.extend_from_slice(&(n as u32).to_le_bytes());
    } else {
        out.push(0xff);
        out.extend_from_slice(&n.to_le_bytes());
    }
}

pub fn leaf_hash_tag(tag: &str, ver: u8, script: &[u8]) -> H {
    let mut m = Vec::with_capacity(script.len() + 10);
    m.push(ver);
    compact_size(&mut m, script.len() as u64);
    m.extend_from_slice(script);
    tagged(tag, &m)
}
pub fn leaf_hash(ver: u8, script: &[u8]) -> H {
    leaf_hash_tag(TAG_LEAF, ver, script)
}

pub fn branch_hash_tag(tag: &str, a: &H, b: &H) -> H {
    let mut m = [0u8; 64];
    // lexicographic order of the two 32-byte children
    let (lo, hi) = if a[..] <= b[..] { (a, b) } else { (b, a) };
    m[..32].copy_from_slice(lo);
    m[32..].copy_from_slice(hi);
    tagged(tag, &m)
}
pub fn branch_hash(a: &H, b: &H) -> H {
    branch_hash_tag(TAG_BRANCH, a, b)
}

/// one DFS item (visible leaf or hidden node) with its position in the tree
#[derive(Clone, Debug)]
pub struct Item {
    pub depth: usize,
    /// Leaf or Hidden (never Branch)
    pub node: Node,
    pub hash: H,
    /// sibling hashes from the item up to the root
    pub path: Vec<H>,
}

struct HashTree {
    hash: H,
    kids: Option<Box<(HashTree, HashTree)>>,
}

fn hash_tree(n: &Node) -> HashTree {
    match n {
        Node::Leaf { script, ver } => HashTree { hash: leaf_hash(*ver, script), kids: None },
        Node::Hidden(h) => HashTree { hash: *h, kids: None },
        Node::Branch(l, r) => {
            let (a, b) = (hash_tree(l), hash_tree(r));
            HashTree { hash: branch_hash(&a.hash, &b.hash), kids: Some(Box::new((a, b))) }
        }
    }
}

fn descend(n: &Node, ht: &HashTree, down: &mut Vec<H>, out: &mut Vec<Item>) {
    match (n, &ht.kids) {
        (Node::Branch(l, r), Some(k)) => {
            down.push(k.1.hash);
            descend(l, &k.0, down, out);
            down.pop();
            down.push(k.0.hash);
            descend(r, &k.1, down, out);
            down.pop();
        }
        _ => {
            let mut path = down.clone();
            path.reverse();
            out.push(Item { depth: down.len(), node: n.clone(), hash: ht.hash, path });
        }
    }
}

/// merkle root and the DFS (left first) list of leaves / hidden nodes with their paths
pub fn analyze(n: &Node) -> (H, Vec<Item>) {
    let ht = hash_tree(n);
    let mut out = Vec::new();
    descend(n, &ht, &mut Vec::new(), &mut out);
    (ht.hash, out)
}

pub fn merkle_root(n: &Node) -> H {
    hash_tree(n).hash
}

/// what a verifier computes: fold the path into the leaf hash
pub fn root_from_path(leaf: &H, path: &[H]) -> H {
    let mut cur = *leaf;
    for p in path {
        cur = branch_hash(&cur, p);
    }
    cur
}

pub fn tweak_tag(tag: &str, xonly: &H, root: Option<&H>) -> H {
    let mut m = Vec::with_capacity(64);
    m.extend_from_slice(xonly);
    if let Some(r) = root {
        m.extend_from_slice(r);
    }
    tagged(tag, &m)
}
pub fn tweak(xonly: &H, root: Option<&H>) -> H {
    tweak_tag(TAG_TWEAK, xonly, root)
}

#[derive(Clone, Copy, Debug, PartialEq, Eq)]
pub struct OutKey {
    pub x: H,
    pub odd: bool,
    /// compressed encoding of the full point
    pub full: [u8; 33],
}

/// lift_x(xonly) + tweak*G; None if xonly is not on the curve, the tweak is 0 or >= n, or the
/// sum is the point at infinity
pub fn output_key_from_tweak(xonly: &H, tweak: &H) -> Option<OutKey> {
    let mut c = [0u8; 33];
    c[0] = 0x02;
    c[1..].copy_from_slice(xonly);
    let p = PublicKey::from_slice(&c).ok()?;
    let sk = SecretKey::from_slice(tweak).ok()?;
    let tg = PublicKey::from_secret_key(secp(), &sk);
    let q = p.combine(&tg).ok()?;
    let full = q.serialize();
    let mut x = [0u8; 32];
    x.copy_from_slice(&full[1..]);
    Some(OutKey { x, odd: full[0] == 0x03, full })
}

pub fn output_key(xonly: &H, root: Option<&H>) -> Option<OutKey> {
    output_key_from_tweak(xonly, &tweak(xonly, root))
}

pub fn control_block_bytes(ver: u8, odd: bool, xonly: &H, path: &[H]) -> Vec<u8> {
    let mut v = Vec::with_capacity(33 + 32 * path.len());
    v.push((ver & 0xfe) | u8::from(odd));
    v.extend_from_slice(xonly);
    for p in path {
        v.extend_from_slice(p);
    }
    v
}

/// DFS (left first) list of (depth, Leaf | Hidden)
pub fn dfs_items(n: &Node) -> Vec<(usize, Node)> {
    fn go(n: &Node, d: usize, out: &mut Vec<(usize, Node)>) {
        match n {
            Node::Branch(l, r) => {
                go(l, d + 1, out);
                go(r, d + 1, out);
            }
            other => out.push((d, other.clone())),
        }
    }
    let mut out = Vec::new();
    go(n, 0, &mut out);
    out
}

/// Validity oracle for a builder history: the items are the DFS leaf sequence of a full binary
/// tree iff a recursive descent from depth 0 consumes exactly all of them. (Independent of
/// the library's bottom-up stack algorithm.) Depths beyond `MAX_DEPTH` are refused.
pub fn tree_from_dfs(items: &[(usize, Node)]) -> Option<Node> {
    fn parse(items: &[(usize, Node)], pos: &mut usize, depth: usize) -> Option<Node> {
        let (d, n) = items.get(*pos)?;
        if *d == depth {
            *pos += 1;
            Some(n.clone())
        } else if *d > depth {
            let l = parse(items, pos, depth + 1)?;
            let r = parse(items, pos, depth + 1)?;
            Some(Node::Branch(Box::new(l), Box::new(r)))
        } else {
            None
        }
    }
    if items.iter().any(|(d, n)| *d > MAX_DEPTH || matches!(n, Node::Branch(..))) {
        return None;
    }
    let mut pos = 0;
    let t = parse(items, &mut pos, 0)?;
    if pos == items.len() {
        Some(t)
    } else {
        None
    }
}

/// second, arithmetic formulation of the same oracle (used to cross-check `tree_from_dfs`):
/// Kraft sum exactly 1 and reached only at the last item, with every item no shallower than
/// the deepest unfinished level allows.
pub fn valid_depths_kraft(depths: &[usize]) -> bool {
    // work in units of 2^-MAXD
    let maxd = depths.iter().copied().max().unwrap_or(0);
    if depths.is_empty() || maxd > 120 {
        return false;
    }
    let one: u128 = 1u128 << maxd;
    let mut sum: u128 = 0;
    for (i, &d) in depths.iter().enumerate() {
        let unit = 1u128 << (maxd - d);
        // DFS order: the filled prefix must be a multiple of this leaf's width
        if sum % unit != 0 {
            return false;
        }
        sum += unit;
        if sum > one || (sum == one && i + 1 != depths.len()) {
            return false;
        }
    }
    sum == one
}

#[derive(Clone, Debug, PartialEq, Eq)]
pub enum Shape {
    L,
    B(Box<Shape>, Box<Shape>),
}

/// every full binary tree shape with `n` leaves (Catalan(n-1) of them), deterministic order
pub fn shapes(n: usize) -> Vec<Shape> {
    if n == 0 {
        return vec![];
    }
    if n == 1 {
        return vec![Shape::L];
    }
    let mut out = Vec::new();
    for l in 1..n {
        let ls = shapes(l);
        let rs = shapes(n - l);
        for a in &ls {
            for b in &rs {
                out.push(Shape::B(Box::new(a.clone()), Box::new(b.clone())));
            }
        }
    }
    out
}

impl Shape {
    pub fn leaves(&self) -> usize {
        match self {
            Shape::L => 1,
            Shape::B(a, b) => a.leaves() + b.leaves(),
        }
    }
    /// leaf depths in DFS order
    pub fn depths(&self) -> Vec<usize> {
        fn go(s: &Shape, d: usize, out: &mut Vec<usize>) {
            match s {
                Shape::L => out.push(d),
                Shape::B(a, b) => {
                    go(a, d + 1, out);
                    go(b, d + 1, out);
                }
            }
        }
        let mut v = Vec::new();
        go(self, 0, &mut v);
        v
    }
    /// fill the leaves (DFS order) with the nodes produced by `f`
    pub fn fill(&self, f: &mut dyn FnMut() -> Node) -> Node {
        match self {
            Shape::L => f(),
            Shape::B(a, b) => {
                let l = a.fill(f);
                let r = b.fill(f);
                Node::Branch(Box::new(l), Box::new(r))
            }
        }
    }
}

/// minimal sum of weight*depth over all binary trees with these leaves (Huffman's greedy)
pub fn huffman_cost(weights: &[u32]) -> u128 {
    let mut heap: BinaryHeap<Reverse<u128>> = weights.iter().map(|w| Reverse(u128::from(*w))).collect();
    let mut cost = 0u128;
    while heap.len() > 1 {
        let a = heap.pop().map_or(0, |r| r.0);
        let b = heap.pop().map_or(0, |r| r.0);
        cost += a + b;
        heap.push(Reverse(a + b));
    }
    cost
}

/// brute force over every shape and every assignment (small n only)
fn brute_cost(weights: &[u32]) -> u128 {
    fn perms(v: &mut Vec<u32>, k: usize, depths: &[usize], best: &mut u128) {
        if k == v.len() {
            let c: u128 = v.iter().zip(depths).map(|(w, d)| u128::from(*w) * *d as u128).sum();
            if c < *best {
                *best = c;
            }
            return;
        }
        for i in k..v.len() {
            v.swap(k, i);
            perms(v, k + 1, depths, best);
            v.swap(k, i);
        }
    }
    let mut best = u128::MAX;
    for s in shapes(weights.len()) {
        let d = s.depths();
        perms(&mut weights.to_vec(), 0, &d, &mut best);
    }
    best
}

fn unhex32(s: &str) -> H {
    let v = crate::engine::unhex(s).unwrap_or_default();
    let mut a = [0u8; 32];
    if v.len() == 32 {
        a.copy_from_slice(&v);
    }
    a
}

/// self-test of the reference: Catalan counts, parser round trip and agreement of the two
/// validity formulations, greedy == brute force, and the BIP-341 wallet vectors (bitcoin tags)
/// for the tag-independent parts (leaf hash layout, tweak, point addition, control block).
pub fn self_test() -> Result<(), String> {
    let catalan = [1usize, 1, 2, 5, 14, 42, 132];
    for (i, c) in catalan.iter().enumerate() {
        let s = shapes(i + 1);
        if s.len() != *c {
            return Err(format!("shape count for {} leaves: {} != {}", i + 1, s.len(), c));
        }
        for sh in &s {
            let d = sh.depths();
            if !valid_depths_kraft(&d) {
                return Err(format!("kraft oracle refuses the valid sequence {:?}", d));
            }
            let mut k = 0u8;
            let tree = sh.fill(&mut || {
                k += 1;
                Node::Leaf { script: vec![k], ver: 0xc4 }
            });
            if tree_from_dfs(&dfs_items(&tree)).as_ref() != Some(&tree) {
                return Err(format!("dfs parser does not invert dfs_items for {:?}", d));
            }
        }
    }
    // the two validity oracles agree on every sequence of length <= 5 over depths 0..=5
    let leaf = Node::Leaf { script: vec![], ver: 0xc4 };
    let mut valid = 0;
    for len in 1..=5usize {
        for code in 0..6usize.pow(len as u32) {
            let mut c = code;
            let seq: Vec<usize> = (0..len)
                .map(|_| {
                    let d = c % 6;
                    c /= 6;
                    d
                })
                .collect();
            let items: Vec<(usize, Node)> = seq.iter().map(|d| (*d, leaf.clone())).collect();
            let a = tree_from_dfs(&items).is_some();
            if a != valid_depths_kraft(&seq) {
                return Err(format!("validity oracles disagree on {:?}", seq));
            }
            valid += usize::from(a);
        }
    }
    if valid != 1 + 1 + 2 + 5 + 14 {
        return Err(format!("{} valid depth sequences of length <= 5, expected 23", valid));
    }
    for ws in [
        vec![5u32],
        vec![1, 1],
        vec![3, 2, 5],
        vec![10, 20, 20, 30, 19],
        vec![0, 0, 0, 7],
        vec![1, 1, 2, 3, 5, 8],
        vec![u32::MAX, u32::MAX, 1, 0, 7],
        vec![4, 4, 4, 4, 4, 4],
    ] {
        if huffman_cost(&ws) != brute_cost(&ws) {
            return Err(format!("huffman_cost({:?}) = {} but brute force gives {}", ws, huffman_cost(&ws), brute_cost(&ws)));
        }
    }
    // BIP-341 wallet test vectors (bitcoin tags)
    let p0 = unhex32("d6889cb081036e0faefa3a35157ad71086b123b2b144b649798b494c300a961d");
    let t0 = tweak_tag("TapTweak", &p0, None);
    if t0 != unhex32("b86e7be8f39bab32a6f2c0443abbc210f0edac0e2c53d501b36b64437d9c6c70") {
        return Err("BIP-341 vector 0: tweak".into());
    }
    match output_key_from_tweak(&p0, &t0) {
        Some(k) if k.x == unhex32("53a1f6e454df1aa2776a2814a721372d6258050de330b3c6d10ee8f4e0dda343") => {}
        other => return Err(format!("BIP-341 vector 0: output key {:?}", other)),
    }
    let p1 = unhex32("187791b6f712a8ea41c8ecdd0ee77fab3e85263b37e1ec18a3651926b3a6cf27");
    let script = crate::engine::unhex("20d85a959b0290bf19bb89ed43c916be835475d013da4b362117393e25a48229b8ac").unwrap_or_default();
    let lh = leaf_hash_tag("TapLeaf", 0xc0, &script);
    if lh != unhex32("5b75adecf53548f3ec6ad7d78383bf84cc57b55a3127c72b9a2481752dd88b21") {
        return Err("BIP-341 vector 1: leaf hash".into());
    }
    let t1 = tweak_tag("TapTweak", &p1, Some(&lh));
    if t1 != unhex32("cbd8679ba636c1110ea247542cfbd964131a6be84f873f7f3b62a777528ed001") {
        return Err("BIP-341 vector 1: tweak".into());
    }
    match output_key_from_tweak(&p1, &t1) {
        Some(k) if k.x == unhex32("147c9c57132f6e7ecddba9800bb0c4449251c92a1e60371ee77557b6620f3ea3") => {
            let cb = control_block_bytes(0xc0, k.odd, &p1, &[]);
            if crate::engine::hex(&cb) != "c1187791b6f712a8ea41c8ecdd0ee77fab3e85263b37e1ec18a3651926b3a6cf27" {
                return Err(format!("BIP-341 vector 1: control block {}", crate::engine::hex(&cb)));
            }
        }
        other => return Err(format!("BIP-341 vector 1: output key {:?}", other)),
    }
    // sorted-pair branch hash is symmetric and differs from the leaf tag
    let (a, b) = ([1u8; 32], [2u8; 32]);
    if branch_hash(&a, &b) != branch_hash(&b, &a) || branch_hash_tag("TapBranch", &a, &b) == branch_hash(&a, &b) {
        return Err("branch hash symmetry / tag".into());
    }
    Ok(())
}
