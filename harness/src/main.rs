use verif::engine::{self, Tier};

fn usage() -> ! {
    eprintln!("usage: verif check <ID> quick|thorough [sub] | replay <file> | list | selftest");
    std::process::exit(2)
}

fn selftests() -> Result<(), String> {
    verif::refimpl::sha256::self_test()?;
    verif::refimpl::self_test()?;
    Ok(())
}

fn main() {
    let args: Vec<String> = std::env::args().collect();
    if args.len() < 2 {
        usage();
    }
    engine::guard::init();
    if let Err(e) = selftests() {
        eprintln!("HARNESS-ERROR reference self-test failed: {}", e);
        std::process::exit(2);
    }
    match args[1].as_str() {
        "list" => {
            for f in verif::props::all() {
                let p = f();
                if p.subs.is_empty() { continue; }
                println!("{} {}", p.id, p.subs.iter().map(|s| s.name).collect::<Vec<_>>().join(","));
            }
        }
        "selftest" => println!("ok"),
        "check" => {
            if args.len() < 4 {
                usage();
            }
            let Some(p) = verif::props::by_id(&args[2]) else {
                eprintln!("unknown property {}", args[2]);
                std::process::exit(2)
            };
            let tier = match args[3].as_str() {
                "quick" => Tier::Quick,
                "thorough" => Tier::Thorough,
                _ => usage(),
            };
            let code = engine::run_property(&p, tier, engine::default_seed(), args.get(4).map(|s| s.as_str()));
            std::process::exit(code);
        }
        "gen-fuzz-corpus" => {
            // verif gen-fuzz-corpus <target> <dir>: deterministic seed inputs for a fuzz target
            if args.len() < 4 {
                usage();
            }
            let n = verif::fuzzapi::gen_corpus(&args[2], &args[3], engine::default_seed());
            println!("{} seed inputs written to {}", n, args[3]);
        }
        "artifact" => {
            // verif artifact <target> <crash file>: turn a libFuzzer artefact into a replay file
            if args.len() < 4 {
                usage();
            }
            match verif::fuzzapi::artifact_to_replay(&args[2], &args[3]) {
                Some(path) => println!("{}", path),
                None => {
                    eprintln!("cannot convert artefact");
                    std::process::exit(2)
                }
            }
        }
        "replay" => {
            if args.len() < 3 {
                usage();
            }
            let Ok(s) = std::fs::read_to_string(&args[2]) else {
                eprintln!("cannot read {}", args[2]);
                std::process::exit(2)
            };
            let Ok(v) = serde_json::from_str::<serde_json::Value>(&s) else {
                eprintln!("bad json {}", args[2]);
                std::process::exit(2)
            };
            let id = v.get("property").and_then(|x| x.as_str()).unwrap_or("");
            let Some(p) = verif::props::by_id(id) else {
                eprintln!("unknown property {}", id);
                std::process::exit(2)
            };
            match engine::replay_value(&p, &v, Tier::Quick) {
                Ok(()) => {
                    println!("replay passes: property={} file={}", id, args[2]);
                    std::process::exit(0)
                }
                Err(e) => {
                    if e.panic_loc.as_deref().map_or(false, engine::guard::location_is_harness) {
                        eprintln!("HARNESS-ERROR {}", e.msg);
                        std::process::exit(2)
                    }
                    println!("replay fails: {}", e.msg);
                    println!("VIOLATION property={} replay={}", id, args[2]);
                    std::process::exit(1)
                }
            }
        }
        _ => usage(),
    }
}
