//! C19 — dynafed parameter roots survive compaction and match the commitment layout.
use elements::dynafed::{self, FullParams, Params};
use elements::hashes::Hash as _;
use elements::{BlockExtData, BlockHash, BlockHeader, Script, TxMerkleNode};
use serde_json::json;

use crate::engine::*;
use crate::gen::{self, ext_g6};
use crate::refimpl::{enc, sha256 as r};
use crate::{ensure, ensure_eq};

fn h_bytes(b: &[u8]) -> [u8; 32] {
    let mut v = Vec::new();
    enc::var_bytes(&mut v, b);
    r::sha256d(&v)
}
fn ref_extra_root(f: &FullParams) -> [u8; 32] {
    let mut ext = Vec::new();
    enc::stack(&mut ext, &f.extension_space);
    r::fast_merkle_root(&[h_bytes(f.fedpeg_program.as_bytes()), h_bytes(&f.fedpegscript), r::sha256d(&ext)])
}
fn ref_compact_root(script: &Script, limit: u32) -> [u8; 32] {
    r::fast_merkle_root(&[h_bytes(script.as_bytes()), r::sha256d(&limit.to_le_bytes())])
}
fn ref_root(p: &Params) -> [u8; 32] {
    match p {
        Params::Null => [0u8; 32],
        Params::Compact { signblockscript, signblock_witness_limit, elided_root } => r::fast_merkle_root(&[
            ref_compact_root(signblockscript, *signblock_witness_limit),
            elided_root.to_byte_array(),
        ]),
        Params::Full(f) => {
            r::fast_merkle_root(&[ref_compact_root(&f.signblockscript, f.signblock_witness_limit), ref_extra_root(f)])
        }
    }
}
fn lib_root(p: &Params) -> Result<[u8; 32], Failure> {
    guard::guard("Params::calculate_root", 0, || p.calculate_root().to_byte_array())
}

fn full_params(t: &mut Tape, ctx: &mut Ctx) -> R {
    let f = ext_g6::gen_full_params_big(t);
    let want = ref_root(&Params::Full(f.clone()));
    let a = guard::guard("FullParams::calculate_root", 0, || f.calculate_root().to_byte_array())?;
    let b = lib_root(&Params::Full(f.clone()))?;
    let compact = guard::guard("FullParams::into_compact", 0, || f.clone().into_compact())?;
    let c = lib_root(&compact)?;
    let compact2 = guard::guard("Params::into_compact", 0, || Params::Full(f.clone()).into_compact())?;
    ctx.evals_n(4);
    ensure_eq!(hex(&a), hex(&want), "FullParams::calculate_root differs from the two-level commitment ({:?})", f);
    ensure_eq!(hex(&b), hex(&want), "Params::Full::calculate_root differs from the two-level commitment ({:?})", f);
    ensure_eq!(hex(&c), hex(&want), "root of the compact form differs from the root of the full form ({:?})", f);
    ensure!(compact2.as_ref() == Some(&compact), "Params::into_compact and FullParams::into_compact disagree");
    match &compact {
        Params::Compact { signblockscript, signblock_witness_limit, elided_root } => {
            ensure!(signblockscript == &f.signblockscript, "compaction changed signblockscript");
            ensure!(*signblock_witness_limit == f.signblock_witness_limit, "compaction changed the witness limit");
            ensure_eq!(hex(&elided_root.to_byte_array()), hex(&ref_extra_root(&f)), "elided root is not the extra root");
            ensure!(compact.elided_root() == Some(elided_root), "elided_root accessor");
        }
        other => return Err(Failure::new(format!("into_compact did not give a compact form: {:?}", other))),
    }
    // compacting the compact form again: the statement only promises that the root survives
    let again = guard::guard("Params::into_compact", 0, || compact.clone().into_compact())?;
    match &again {
        Some(c2) => {
            ensure_eq!(hex(&lib_root(c2)?), hex(&want), "compacting the compact form changed its root");
            ctx.class(if c2 == &compact { "recompact:identical" } else { "recompact:same-root-other-form" });
        }
        None => ctx.class("recompact:none"),
    }
    // (what the accessor reports for the *full* form is not part of the statement: histogram only)
    ctx.class(if Params::Full(f.clone()).elided_root().is_none() { "full.elided_root():none" } else { "full.elided_root():some" });
    // sensitivity: changing any single parameter changes the root
    for k in 0..5 {
        let mut g = f.clone();
        let label = match k {
            0 => {
                let mut b = g.signblockscript.to_bytes();
                b.push(t.u8());
                g.signblockscript = Script::from(b);
                "signblockscript"
            }
            1 => {
                g.signblock_witness_limit ^= 1 << t.below(32);
                "signblock_witness_limit"
            }
            2 => {
                let mut b = g.fedpeg_program.to_bytes();
                if b.is_empty() || t.bool() {
                    b.push(t.u8())
                } else {
                    let i = t.below(b.len());
                    b[i] ^= 1 << t.below(8)
                }
                g.fedpeg_program = elements::bitcoin::ScriptBuf::from_bytes(b);
                "fedpeg_program"
            }
            3 => {
                if g.fedpegscript.is_empty() || t.bool() {
                    g.fedpegscript.push(t.u8())
                } else {
                    let i = t.below(g.fedpegscript.len());
                    g.fedpegscript[i] ^= 1 << t.below(8)
                }
                "fedpegscript"
            }
            _ => {
                match t.below(3) {
                    0 => g.extension_space.push(vec![]),
                    1 if !g.extension_space.is_empty() => {
                        let i = t.below(g.extension_space.len());
                        g.extension_space[i].push(t.u8());
                    }
                    _ => g.extension_space.insert(0, t.bytes(2)),
                }
                "extension_space"
            }
        };
        let r2 = guard::guard("FullParams::calculate_root", 0, || g.calculate_root().to_byte_array())?;
        ctx.eval();
        ensure_eq!(hex(&r2), hex(&ref_root(&Params::Full(g.clone()))), "root after changing {} differs from reference", label);
        ensure!(r2 != a, "root unchanged by a change of {}", label);
        ctx.class(&format!("sensitivity:{}", label));
    }
    let max_entry = f.extension_space.iter().map(|e| e.len()).max();
    let big = f.signblockscript.len() >= 0xfd || f.fedpeg_program.len() >= 0xfd || f.fedpegscript.len() >= 0xfd || max_entry.map_or(false, |m| m >= 0xfd);
    let nt = big || !f.extension_space.is_empty() || f.signblockscript.is_empty() || f.fedpegscript.is_empty() || f.fedpeg_program.is_empty();
    ctx.class(if f.extension_space.is_empty() { "ext:empty" } else { "ext:non-empty" });
    ctx.class(&format!("len:signblockscript:{}", ext_g6::len_class(f.signblockscript.len())));
    ctx.class(&format!("len:fedpeg_program:{}", ext_g6::len_class(f.fedpeg_program.len())));
    ctx.class(&format!("len:fedpegscript:{}", ext_g6::len_class(f.fedpegscript.len())));
    if let Some(m) = max_entry {
        ctx.class(&format!("len:longest-ext-entry:{}", ext_g6::len_class(m)));
    }
    if f.extension_space.len() >= 0xfd {
        ctx.class("ext:count>=0xfd");
    }
    if nt {
        ctx.nontrivial(&hex(&a));
    }
    if ctx.wants_sample("full") && nt {
        ctx.sample("full", || json!({"params": format!("{:?}", f).chars().take(400).collect::<String>(), "root": hex(&a)}));
    }
    Ok(())
}

/// harness-built compact form of `p` (reference extra root as the elided root)
fn ref_compact(p: &Params) -> Params {
    match p {
        Params::Full(f) => Params::Compact {
            signblockscript: f.signblockscript.clone(),
            signblock_witness_limit: f.signblock_witness_limit,
            elided_root: dynafed::ElidedRoot::from_byte_array(ref_extra_root(f)),
        },
        other => other.clone(),
    }
}

/// a header whose two parameter sets are independent (10/16) or related the way they are on chain
/// between transitions: identical, one the compact form of the other, or a compact form whose
/// elided root equals its own signblock commitment
fn gen_header_rel(t: &mut Tape) -> (BlockHeader, &'static str) {
    let (ext, rel) = if t.chance(64) {
        (BlockExtData::Proof { challenge: gen::gen_script(t, false), solution: gen::gen_script(t, false) }, "proof")
    } else {
        let current = ext_g6::gen_params_big(t);
        let (current, proposed, rel) = match t.below(16) {
            0..=9 => {
                let p = ext_g6::gen_params_big(t);
                (current, p, "independent")
            }
            10 | 11 => (current.clone(), current, "proposed==current"),
            12 | 13 => {
                let c = ref_compact(&current);
                (current, c, "proposed==compact(current)")
            }
            14 => {
                let c = ref_compact(&current);
                (c, current, "current==compact(proposed)")
            }
            _ => {
                let (s, l) = match &current {
                    Params::Null => (gen::gen_script(t, false), t.edgy_u32()),
                    Params::Compact { signblockscript, signblock_witness_limit, .. } => (signblockscript.clone(), *signblock_witness_limit),
                    Params::Full(f) => (f.signblockscript.clone(), f.signblock_witness_limit),
                };
                let e = dynafed::ElidedRoot::from_byte_array(ref_compact_root(&s, l));
                (current, Params::Compact { signblockscript: s, signblock_witness_limit: l, elided_root: e }, "elided==own-signblock-commitment")
            }
        };
        (BlockExtData::Dynafed { current, proposed, signblock_witness: if t.bool() { gen::gen_stack(t, false) } else { vec![] } }, rel)
    };
    (
        BlockHeader {
            version: t.edgy_u32() & 0x7fff_ffff,
            prev_blockhash: BlockHash::from_byte_array(t.arr32()),
            merkle_root: TxMerkleNode::from_byte_array(t.arr32()),
            time: t.edgy_u32(),
            height: t.edgy_u32(),
            ext,
        },
        rel,
    )
}

fn any_params_and_headers(t: &mut Tape, ctx: &mut Ctx) -> R {
    let (h, rel) = gen_header_rel(t);
    let got = guard::guard("calculate_dynafed_params_root", 0, || h.calculate_dynafed_params_root().map(|r| r.to_byte_array()))?;
    ctx.eval();
    match &h.ext {
        BlockExtData::Proof { .. } => {
            ensure!(got.is_none(), "a proof header reports a dynafed params root");
            ctx.class("header:proof");
        }
        BlockExtData::Dynafed { current, proposed, .. } => {
            for p in [current, proposed] {
                let lr = lib_root(p)?;
                ctx.eval();
                ensure_eq!(hex(&lr), hex(&ref_root(p)), "Params::calculate_root differs from reference for {:?}", p);
                let c = guard::guard("Params::into_compact", 0, || p.clone().into_compact())?;
                match p {
                    Params::Null => {
                        ensure!(lr == [0u8; 32], "null params must have the all-zero root");
                        // whatever null parameters compact to must still have the all-zero root
                        match c {
                            None => ctx.class("null.into_compact():none"),
                            Some(c) => {
                                ensure_eq!(hex(&lib_root(&c)?), hex(&[0u8; 32]), "the compact form of null params does not have the all-zero root");
                                ctx.class("null.into_compact():some");
                            }
                        }
                    }
                    Params::Compact { elided_root, .. } => {
                        match c {
                            Some(c) => ensure_eq!(hex(&lib_root(&c)?), hex(&lr), "compacting a compact form changed its root"),
                            None => ctx.class("compact.into_compact():none"),
                        }
                        let e = elided_root.to_byte_array();
                        ctx.class(if e == [0u8; 32] { "elided:all-zero" } else if e == [0xff; 32] { "elided:all-ones" } else { "elided:other" });
                    }
                    Params::Full(_) => match c {
                        Some(c) => ensure_eq!(hex(&lib_root(&c)?), hex(&lr), "compaction changed the root"),
                        None => return Err(Failure::new("full params compact to None")),
                    },
                }
            }
            let (rc, rp) = (ref_root(current), ref_root(proposed));
            let want = r::fast_merkle_root(&[rc, rp]);
            ensure_eq!(got.map(|g| hex(&g)), Some(hex(&want)), "header dynafed root is not fm(root(current), root(proposed)) [{}]", rel);
            let kind = |p: &Params| match p {
                Params::Null => "null",
                Params::Compact { .. } => "compact",
                Params::Full(_) => "full",
            };
            ctx.class(&format!("header:dynafed:{}+{}", kind(current), kind(proposed)));
            ctx.class(&format!("header:relation:{}", rel));
            if !current.is_null() && rc == rp {
                ctx.class("header:equal-non-null-roots");
            }
            if !current.is_null() && !proposed.is_null() && (current != proposed || rel != "independent") {
                ctx.nontrivial(&hex(&want));
            }
            if ctx.wants_sample("header") {
                ctx.sample("header", || json!({"current": kind(current), "proposed": kind(proposed), "relation": rel, "root": hex(&want)}));
            }
        }
    }
    Ok(())
}

pub fn property() -> Property {
    Property {
        id: "C19",
        rule: "full_params: tape-generated full parameter sets; signblockscript, fedpeg program, fedpegscript and (for <= 8 entries) \
               extension entries have lengths 0, 1..80, 0xfc/0xfd/0xfe/0xff/0x100, 253..1100 and rarely 0xffff/0x10000/0x10001 \
               (classes len:*), any witness limit, extension space 0..8 entries or 0xfc/0xfd/0xfe/300 tiny entries; oracle: \
               FullParams::calculate_root == Params::Full root == root of the compact form == harness two-level fast-merkle \
               commitment over sha256d(serialization) leaves; elided root carried by the compact form == reference extra root; \
               compaction keeps the signblock fields; compacting again keeps the root; each of 5 single parameter changes \
               changes the root (backed by the reference). headers: dynafed headers over all Null/Compact(elided root \
               all-zero / all-ones / random)/Full combinations, parameter pairs independent or related (identical, one the \
               harness-built compact form of the other, elided root equal to the form's own signblock commitment), and proof \
               headers; every Params root == reference, null == all-zero root (also after into_compact, if that yields \
               anything), into_compact keeps the root; header root == fm(root(current), root(proposed)), None for proof. \
               Non-trivial: a field >= 0xfd bytes, non-empty extension space or an empty script field; header with two non-null \
               parameter sets that differ or are related by construction; distinct by root.",
        assumptions: &["harness SHA-256 / fast merkle root as in C18"],
        subs: vec![
            Sub { name: "full_params", kind: Kind::Tape { max_len: 2500, quick: 400_000, thorough: 4_000_000, f: full_params } },
            Sub { name: "headers", kind: Kind::Tape { max_len: 2500, quick: 400_000, thorough: 4_000_000, f: any_params_and_headers } },
        ],
        known: vec![],
    }
}
