//! C19 — dynafed parameter roots survive compaction and match the commitment layout.
use elements::dynafed::{self, FullParams, Params};
use elements::{BlockExtData, Script};
use serde_json::json;

use crate::engine::*;
use crate::gen;
use crate::refimpl::{enc, sha256 as r};
use crate::{ensure, ensure_eq};

fn h_bytes(b: &[u8]) -> [u8; 32] {
    let mut v = Vec::new();
    enc::var_bytes(&mut v, b);
    r::sha256d(&v)
}
fn ref_extra_root(f: &FullParams) -> [u8; 32] {
    let mut ext = Vec::new();
    enc::stack(&mut ext, &f.extension_space);
    r::fast_merkle_root(&[h_bytes(f.fedpeg_program.as_bytes()), h_bytes(&f.fedpegscript), r::sha256d(&ext)])
}
fn ref_compact_root(script: &Script, limit: u32) -> [u8; 32] {
    r::fast_merkle_root(&[h_bytes(script.as_bytes()), r::sha256d(&limit.to_le_bytes())])
}
fn ref_root(p: &Params) -> [u8; 32] {
    match p {
        Params::Null => [0u8; 32],
        Params::Compact { signblockscript, signblock_witness_limit, elided_root } => r::fast_merkle_root(&[
            ref_compact_root(signblockscript, *signblock_witness_limit),
            elided_root.to_byte_array(),
        ]),
        Params::Full(f) => {
            r::fast_merkle_root(&[ref_compact_root(&f.signblockscript, f.signblock_witness_limit), ref_extra_root(f)])
        }
    }
}
fn lib_root(p: &Params) -> Result<[u8; 32], Failure> {
    guard::guard("Params::calculate_root", 0, || p.calculate_root().to_byte_array())
}

fn full_params(t: &mut Tape, ctx: &mut Ctx) -> R {
    let f = gen::gen_full_params(t);
    let want = ref_root(&Params::Full(f.clone()));
    let a = guard::guard("FullParams::calculate_root", 0, || f.calculate_root().to_byte_array())?;
    let b = lib_root(&Params::Full(f.clone()))?;
    let compact = guard::guard("FullParams::into_compact", 0, || f.clone().into_compact())?;
    let c = lib_root(&compact)?;
    let compact2 = guard::guard("Params::into_compact", 0, || Params::Full(f.clone()).into_compact())?;
    ctx.evals_n(4);
    ensure_eq!(hex(&a), hex(&want), "FullParams::calculate_root differs from the two-level commitment ({:?})", f);
    ensure_eq!(hex(&b), hex(&want), "Params::Full::calculate_root differs from the two-level commitment ({:?})", f);
    ensure_eq!(hex(&c), hex(&want), "root of the compact form differs from the root of the full form ({:?})", f);
    ensure!(compact2.as_ref() == Some(&compact), "Params::into_compact and FullParams::into_compact disagree");
    match &compact {
        Params::Compact { signblockscript, signblock_witness_limit, elided_root } => {
            ensure!(signblockscript == &f.signblockscript, "compaction changed signblockscript");
            ensure!(*signblock_witness_limit == f.signblock_witness_limit, "compaction changed the witness limit");
            ensure_eq!(hex(&elided_root.to_byte_array()), hex(&ref_extra_root(&f)), "elided root is not the extra root");
            ensure!(compact.elided_root() == Some(elided_root), "elided_root accessor");
        }
        other => return Err(Failure::new(format!("into_compact did not give a compact form: {:?}", other))),
    }
    // idempotent
    let again = guard::guard("Params::into_compact", 0, || compact.clone().into_compact())?;
    ensure!(again.as_ref() == Some(&compact), "compaction is not idempotent");
    ensure!(Params::Full(f.clone()).elided_root().is_none(), "full params must not report an elided root");
    // sensitivity: changing any single parameter changes the root
    for k in 0..5 {
        let mut g = f.clone();
        let label = match k {
            0 => {
                let mut b = g.signblockscript.to_bytes();
                b.push(t.u8());
                g.signblockscript = Script::from(b);
                "signblockscript"
            }
            1 => {
                g.signblock_witness_limit ^= 1 << t.below(32);
                "signblock_witness_limit"
            }
            2 => {
                let mut b = g.fedpeg_program.to_bytes();
                if b.is_empty() || t.bool() {
                    b.push(t.u8())
                } else {
                    let i = t.below(b.len());
                    b[i] ^= 1 << t.below(8)
                }
                g.fedpeg_program = elements::bitcoin::ScriptBuf::from_bytes(b);
                "fedpeg_program"
            }
            3 => {
                if g.fedpegscript.is_empty() || t.bool() {
                    g.fedpegscript.push(t.u8())
                } else {
                    let i = t.below(g.fedpegscript.len());
                    g.fedpegscript[i] ^= 1 << t.below(8)
                }
                "fedpegscript"
            }
            _ => {
                match t.below(3) {
                    0 => g.extension_space.push(vec![]),
                    1 if !g.extension_space.is_empty() => {
                        let i = t.below(g.extension_space.len());
                        g.extension_space[i].push(t.u8());
                    }
                    _ => g.extension_space.insert(0, t.bytes(2)),
                }
                "extension_space"
            }
        };
        let r2 = guard::guard("FullParams::calculate_root", 0, || g.calculate_root().to_byte_array())?;
        ctx.eval();
        ensure_eq!(hex(&r2), hex(&ref_root(&Params::Full(g.clone()))), "root after changing {} differs from reference", label);
        ensure!(r2 != a, "root unchanged by a change of {}", label);
        ctx.class(&format!("sensitivity:{}", label));
    }
    let nt = !f.extension_space.is_empty() || f.signblockscript.is_empty() || f.fedpegscript.is_empty() || f.fedpeg_program.is_empty();
    ctx.class(if f.extension_space.is_empty() { "ext:empty" } else { "ext:non-empty" });
    if nt {
        ctx.nontrivial(&hex(&a));
    }
    if ctx.wants_sample("full") && nt {
        ctx.sample("full", || json!({"params": format!("{:?}", f).chars().take(400).collect::<String>(), "root": hex(&a)}));
    }
    Ok(())
}

fn any_params_and_headers(t: &mut Tape, ctx: &mut Ctx) -> R {
    let h = gen::gen_header(t);
    let got = guard::guard("calculate_dynafed_params_root", 0, || h.calculate_dynafed_params_root().map(|r| r.to_byte_array()))?;
    ctx.eval();
    match &h.ext {
        BlockExtData::Proof { .. } => {
            ensure!(got.is_none(), "a proof header reports a dynafed params root");
            ctx.class("header:proof");
        }
        BlockExtData::Dynafed { current, proposed, .. } => {
            for p in [current, proposed] {
                let lr = lib_root(p)?;
                ctx.eval();
                ensure_eq!(hex(&lr), hex(&ref_root(p)), "Params::calculate_root differs from reference for {:?}", p);
                match p {
                    Params::Null => {
                        ensure!(lr == [0u8; 32], "null params must have the all-zero root");
                        ensure!(p.clone().into_compact().is_none(), "null params compact to something");
                    }
                    Params::Compact { .. } => {
                        ensure!(p.clone().into_compact().as_ref() == Some(p), "compacting a compact form changed it");
                    }
                    Params::Full(_) => {
                        let c = p.clone().into_compact();
                        match c {
                            Some(c) => ensure_eq!(hex(&lib_root(&c)?), hex(&lr), "compaction changed the root"),
                            None => return Err(Failure::new("full params compact to None")),
                        }
                    }
                }
            }
            let want = r::fast_merkle_root(&[ref_root(current), ref_root(proposed)]);
            ensure_eq!(got.map(|g| hex(&g)), Some(hex(&want)), "header dynafed root is not fm(root(current), root(proposed))");
            let kind = |p: &Params| match p {
                Params::Null => "null",
                Params::Compact { .. } => "compact",
                Params::Full(_) => "full",
            };
            ctx.class(&format!("header:dynafed:{}+{}", kind(current), kind(proposed)));
            if !current.is_null() && !proposed.is_null() && current != proposed {
                ctx.nontrivial(&hex(&want));
            }
            if ctx.wants_sample("header") {
                ctx.sample("header", || json!({"current": kind(current), "proposed": kind(proposed), "root": hex(&want)}));
            }
        }
    }
    let _ = dynafed::Params::Null;
    Ok(())
}

pub fn property() -> Property {
    Property {
        id: "C19",
        rule: "full_params: tape-generated full parameter sets (scripts / fedpeg data 0..300 bytes, any witness limit, \
               extension space 0..8 entries of 0..70 bytes); oracle: FullParams::calculate_root == Params::Full root == \
               root of the compact form == harness two-level fast-merkle commitment over sha256d(serialization) leaves; \
               elided root == reference extra root; compaction keeps signblock fields, is idempotent; each of 5 single \
               parameter changes changes the root. headers: dynafed headers over all Null/Compact(arbitrary elided \
               root)/Full combinations and proof headers; header root == fm(root(current), root(proposed)), None for proof. \
               Non-trivial: non-empty extension space or an empty script field; header with two different non-null \
               parameter sets; distinct by root.",
        assumptions: &["harness SHA-256 / fast merkle root as in C18"],
        subs: vec![
            Sub { name: "full_params", kind: Kind::Tape { max_len: 2500, quick: 480_000, thorough: 4_000_000, f: full_params } },
            Sub { name: "headers", kind: Kind::Tape { max_len: 2500, quick: 480_000, thorough: 4_000_000, f: any_params_and_headers } },
        ],
        known: vec![],
    }
}
