//! C14 — merging PSETs never loses information, never panics, and is order-insensitive.
use std::collections::BTreeMap;

use elements::bitcoin::bip32::{ChildNumber, DerivationPath, Fingerprint, KeySource};
use elements::encode::serialize;
use elements::hashes::{hash160, ripemd160, sha256, sha256d, Hash};
use elements::pset::{Error as PsetError, PartiallySignedTransaction as Pset};
use elements::taproot::TapNodeHash;
use elements::{BlockHash, LockTime, Sequence};
use serde_json::json;

use crate::engine::*;
use crate::gen::pset::{self as gp, PsetOpts};
use crate::gen::{self, pool, TxOpts};
use crate::refimpl::psetraw::{self, RawMap};
use crate::refimpl::sha256::sha256 as ref_sha256;
use crate::{ensure, ensure_eq};

pub const KF_XPUB_UNDERFLOW: &str = "merge-xpub-unrelated-sources-of-different-length-panics";
pub const KF_XPUB_FINGERPRINT: &str = "merge-xpub-equal-path-different-fingerprint-silently-resolved";
pub const KF_DROPPED_FIELDS: &str = "merge-drops-optional-fields-present-only-in-second-operand";
pub const KF_UTXO_CLEAR: &str = "merge-witness-utxo-clears-non-witness-utxo";

/// One id-neutral addition: (level, position, field, key index). Its content is a pure function of
/// (case seed, slot), so two descendants adding the same slot add identical data.
#[derive(Clone, Copy, Debug, PartialEq, Eq, PartialOrd, Ord, Hash)]
pub struct Slot {
    level: u8, // 0 global, 1 input, 2 output
    pos: u8,
    field: u8,
    key: u8,
}

const N_GLOBAL_FIELDS: u8 = 7;
const N_INPUT_FIELDS: u8 = 38;
const N_OUTPUT_FIELDS: u8 = 17;
/// input slots 38..43 (review g5, C14-2) are drawn only by `families_ext`
const N_INPUT_FIELDS_EXT: u8 = 44;

fn slot_tape(seed: &[u8; 32], s: Slot) -> Vec<u8> {
    let mut out = Vec::new();
    let mut ctr = 0u8;
    while out.len() < 512 {
        let mut m = seed.to_vec();
        m.extend_from_slice(&[s.level, s.pos, s.field, s.key, ctr]);
        out.extend_from_slice(&ref_sha256(&m));
        ctr += 1;
    }
    out
}

/// the map key for keyed fields depends only on (case seed, level, pos, field, key index)
/// `ext` = Some(descendant index) in `families_ext`: there the global tx-modifiable slot ORs a byte that
/// depends on the descendant into the flags (each flag bit is a field of its own: two descendants set
/// disjoint or identical bits), and the input slots 38..43 exist.
fn apply_slot(p: &mut Pset, s: Slot, seed: &[u8; 32], ext: Option<usize>) -> Option<&'static str> {
    let bytes = slot_tape(seed, s);
    let t = &mut Tape::new(&bytes);
    let pl = pool();
    let rp = |t: &mut Tape| Box::new(pl.rangeproofs[t.below(pl.rangeproofs.len())].clone());
    let sp = |t: &mut Tape| Box::new(pl.surjproofs[t.below(pl.surjproofs.len())].clone());
    macro_rules! set_opt {
        ($field:expr, $val:expr, $label:expr) => {{
            if $field.is_none() {
                $field = Some($val);
                Some($label)
            } else {
                None
            }
        }};
    }
    macro_rules! add_key {
        ($map:expr, $k:expr, $v:expr, $label:expr) => {{
            let k = $k;
            if $map.contains_key(&k) {
                None
            } else {
                $map.insert(k, $v);
                Some($label)
            }
        }};
    }
    match s.level {
        0 => {
            let g = &mut p.global;
            match s.field {
                0 => add_key!(g.xpub, gp::gen_xpub(t), gp::gen_key_source(t), "global.xpub"),
                1 => {
                    let sc = gen::gen_tweak(t);
                    if g.scalars.contains(&sc) {
                        None
                    } else {
                        g.scalars.push(sc);
                        Some("global.scalars")
                    }
                }
                2 => match ext {
                    None => set_opt!(g.tx_data.tx_modifiable, t.u8(), "global.tx_modifiable"),
                    Some(di) => {
                        let choices = t.bytes(4);
                        let old = g.tx_data.tx_modifiable;
                        let new = old.unwrap_or(0) | choices[di % 4];
                        if old == Some(new) {
                            None
                        } else {
                            g.tx_data.tx_modifiable = Some(new);
                            Some("global.tx_modifiable(bits per descendant)")
                        }
                    }
                },
                3 => set_opt!(g.elements_tx_modifiable_flag, t.u8(), "global.elements_tx_modifiable_flag"),
                4 => {
                    let l = t.below(12);
                    add_key!(g.proprietary, gp::gen_prop_key(t, 0), t.bytes(l), "global.proprietary")
                }
                5 => {
                    let l = t.below(12);
                    add_key!(g.unknown, gp::gen_unknown_key(t, 0), t.bytes(l), "global.unknown")
                }
                // id-neutral only when an input's required lock time decides (else the descendant is discarded)
                _ => set_opt!(g.tx_data.fallback_locktime, LockTime::from_consensus(t.edgy_u32()), "global.fallback_locktime"),
            }
        }
        1 => {
            let n = p.inputs().len();
            if n == 0 {
                return None;
            }
            // lock-time context for the id-neutral lock-time slots
            let heights: Vec<u32> = p.inputs().iter().filter_map(|i| i.required_height_locktime).map(|h| h.to_consensus_u32()).collect();
            let fallback = p.global.tx_data.fallback_locktime;
            let i = &mut p.inputs_mut()[s.pos as usize % n];
            match s.field {
                // 38..43: optional fields with merge code of their own (cmp::max / merge!) that are id-neutral
                // in the situations constructed here; descendants whose id changes all the same are discarded
                38 => {
                    // a height that another input's requirement already covers, or 0 next to a zero fallback
                    let lo = heights.iter().copied().min().unwrap_or(0);
                    let hi = heights.iter().copied().max().unwrap_or(0);
                    let h = t.choose(&[0u32, lo, hi, hi / 2]);
                    match elements::locktime::Height::from_consensus(h) {
                        Ok(h) => set_opt!(i.required_height_locktime, h, "in.required_height_locktime"),
                        Err(_) => None,
                    }
                }
                39 => {
                    // a time lock beside a height lock of the same input (the height is preferred), or the
                    // fallback's own time
                    let tm = match fallback {
                        Some(LockTime::Seconds(x)) if i.required_height_locktime.is_none() || t.bool() => x,
                        _ => gp::gen_time(t),
                    };
                    set_opt!(i.required_time_locktime, tm, "in.required_time_locktime")
                }
                40 => {
                    if i.issuance_value_comm.is_some() {
                        set_opt!(i.issuance_value_amount, t.edgy_u64(), "in.issuance_value_amount(beside commitment)")
                    } else {
                        None
                    }
                }
                41 => {
                    if i.issuance_inflation_keys_comm.is_some() {
                        set_opt!(i.issuance_inflation_keys, t.edgy_u64(), "in.issuance_inflation_keys(beside commitment)")
                    } else {
                        None
                    }
                }
                42 => set_opt!(i.issuance_blinding_nonce, elements::secp256k1_zkp::ZERO_TWEAK, "in.issuance_blinding_nonce(zero)"),
                43 => set_opt!(i.issuance_asset_entropy, [0u8; 32], "in.issuance_asset_entropy(zero)"),
                0 => set_opt!(i.non_witness_utxo, gp::gen_small_tx(t), "in.non_witness_utxo"),
                1 => set_opt!(i.witness_utxo, gen::gen_txout(t, &TxOpts { big: false, witness: false, ..TxOpts::default() }), "in.witness_utxo"),
                2 => {
                    let l = t.range(1, 72);
                    add_key!(i.partial_sigs, gp::gen_btc_key(t), t.bytes(l), "in.partial_sigs")
                }
                3 => set_opt!(i.sighash_type, t.choose(&gp::SCHNORR_TYPES).into(), "in.sighash_type"),
                4 => set_opt!(i.redeem_script, gen::gen_script(t, false), "in.redeem_script"),
                5 => set_opt!(i.witness_script, gen::gen_script(t, false), "in.witness_script"),
                6 => add_key!(i.bip32_derivation, gp::gen_btc_key(t), gp::gen_key_source(t), "in.bip32_derivation"),
                7 => set_opt!(i.final_script_sig, gen::gen_script(t, false), "in.final_script_sig"),
                8 => set_opt!(i.final_script_witness, gen::gen_stack(t, false), "in.final_script_witness"),
                9 => {
                    let l = t.below(30);
                    let pre = t.bytes(l);
                    add_key!(i.ripemd160_preimages, ripemd160::Hash::hash(&pre), pre, "in.ripemd160_preimages")
                }
                10 => {
                    let l = t.below(30);
                    let pre = t.bytes(l);
                    add_key!(i.sha256_preimages, sha256::Hash::hash(&pre), pre, "in.sha256_preimages")
                }
                11 => {
                    let l = t.below(30);
                    let pre = t.bytes(l);
                    add_key!(i.hash160_preimages, hash160::Hash::hash(&pre), pre, "in.hash160_preimages")
                }
                12 => {
                    let l = t.below(30);
                    let pre = t.bytes(l);
                    add_key!(i.hash256_preimages, sha256d::Hash::hash(&pre), pre, "in.hash256_preimages")
                }
                13 => set_opt!(i.sequence, Sequence(t.edgy_u32()), "in.sequence"),
                14 => set_opt!(i.tap_key_sig, gp::gen_schnorr_sig(t), "in.tap_key_sig"),
                15 => add_key!(i.tap_script_sigs, (gp::gen_xonly(t), gp::gen_leaf_hash(t)), gp::gen_schnorr_sig(t), "in.tap_script_sigs"),
                16 => match gp::gen_control_block(t) {
                    Some(cb) => add_key!(i.tap_scripts, cb, (gen::gen_script(t, false), gp::gen_leaf_version(t)), "in.tap_scripts"),
                    None => None,
                },
                17 => add_key!(i.tap_key_origins, gp::gen_xonly(t), (vec![gp::gen_leaf_hash(t)], gp::gen_key_source(t)), "in.tap_key_origins"),
                18 => set_opt!(i.tap_internal_key, gp::gen_xonly(t), "in.tap_internal_key"),
                19 => set_opt!(i.tap_merkle_root, TapNodeHash::from_byte_array(t.arr32()), "in.tap_merkle_root"),
                20 => set_opt!(i.issuance_value_rangeproof, rp(t), "in.issuance_value_rangeproof"),
                21 => set_opt!(i.issuance_keys_rangeproof, rp(t), "in.issuance_keys_rangeproof"),
                22 => set_opt!(i.pegin_tx, gp::gen_btc_tx(t), "in.pegin_tx"),
                23 => {
                    let l = t.below(60);
                    set_opt!(i.pegin_txout_proof, t.bytes(l), "in.pegin_txout_proof")
                }
                24 => set_opt!(i.pegin_genesis_hash, BlockHash::from_byte_array(t.arr32()), "in.pegin_genesis_hash"),
                25 => set_opt!(i.pegin_claim_script, gen::gen_script(t, false), "in.pegin_claim_script"),
                26 => set_opt!(i.pegin_value, t.edgy_u64(), "in.pegin_value"),
                27 => set_opt!(i.pegin_witness, gen::gen_stack(t, false), "in.pegin_witness"),
                28 => set_opt!(i.in_utxo_rangeproof, rp(t), "in.in_utxo_rangeproof"),
                29 => set_opt!(i.in_issuance_blind_value_proof, rp(t), "in.in_issuance_blind_value_proof"),
                30 => set_opt!(i.in_issuance_blind_inflation_keys_proof, rp(t), "in.in_issuance_blind_inflation_keys_proof"),
                31 => set_opt!(i.amount, t.edgy_u64(), "in.amount"),
                32 => set_opt!(i.blind_value_proof, rp(t), "in.blind_value_proof"),
                33 => set_opt!(i.asset, gen::gen_asset_id(t), "in.asset"),
                34 => set_opt!(i.blind_asset_proof, sp(t), "in.blind_asset_proof"),
                35 => set_opt!(i.blinded_issuance, t.u8(), "in.blinded_issuance"),
                36 => {
                    let l = t.below(12);
                    add_key!(i.proprietary, gp::gen_prop_key(t, 1), t.bytes(l), "in.proprietary")
                }
                _ => {
                    let l = t.below(12);
                    add_key!(i.unknown, gp::gen_unknown_key(t, 1), t.bytes(l), "in.unknown")
                }
            }
        }
        _ => {
            let n = p.outputs().len();
            if n == 0 {
                return None;
            }
            let o = &mut p.outputs_mut()[s.pos as usize % n];
            match s.field {
                0 => set_opt!(o.redeem_script, gen::gen_script(t, false), "out.redeem_script"),
                1 => set_opt!(o.witness_script, gen::gen_script(t, false), "out.witness_script"),
                2 => add_key!(o.bip32_derivation, gp::gen_btc_key(t), gp::gen_key_source(t), "out.bip32_derivation"),
                3 => set_opt!(o.tap_internal_key, gp::gen_xonly(t), "out.tap_internal_key"),
                4 => match gp::gen_tap_tree(t, 5) {
                    Some((tt, _)) => set_opt!(o.tap_tree, tt, "out.tap_tree"),
                    None => None,
                },
                5 => add_key!(o.tap_key_origins, gp::gen_xonly(t), (vec![gp::gen_leaf_hash(t)], gp::gen_key_source(t)), "out.tap_key_origins"),
                6 => {
                    // explicit amount next to an existing commitment (id-neutral: the commitment wins)
                    if o.amount_comm.is_some() {
                        set_opt!(o.amount, t.edgy_u64(), "out.amount(beside commitment)")
                    } else {
                        None
                    }
                }
                7 => {
                    if o.asset_comm.is_some() {
                        set_opt!(o.asset, gen::gen_asset_id(t), "out.asset(beside commitment)")
                    } else {
                        None
                    }
                }
                8 => set_opt!(o.value_rangeproof, rp(t), "out.value_rangeproof"),
                9 => set_opt!(o.asset_surjection_proof, sp(t), "out.asset_surjection_proof"),
                10 => set_opt!(o.blinding_key, gp::gen_btc_key(t), "out.blinding_key"),
                11 => set_opt!(o.blinder_index, t.edgy_u32(), "out.blinder_index"),
                12 => set_opt!(o.blind_value_proof, rp(t), "out.blind_value_proof"),
                13 => set_opt!(o.blind_asset_proof, sp(t), "out.blind_asset_proof"),
                14 => {
                    let l = t.below(12);
                    add_key!(o.proprietary, gp::gen_prop_key(t, 2), t.bytes(l), "out.proprietary")
                }
                15 => {
                    let l = t.below(12);
                    add_key!(o.unknown, gp::gen_unknown_key(t, 2), t.bytes(l), "out.unknown")
                }
                _ => None,
            }
        }
    }
}

fn gen_slot(t: &mut Tape) -> Slot {
    let level = t.choose(&[0u8, 1, 1, 1, 2, 2]);
    let field = match level {
        0 => t.below(N_GLOBAL_FIELDS as usize) as u8,
        1 => t.below(N_INPUT_FIELDS as usize) as u8,
        _ => t.below(N_OUTPUT_FIELDS as usize) as u8,
    };
    Slot { level, pos: t.below(3) as u8, field, key: t.below(3) as u8 }
}

fn gen_slot_ext(t: &mut Tape) -> Slot {
    let level = t.choose(&[0u8, 1, 1, 1, 2, 2]);
    let field = match level {
        0 => t.choose(&[0u8, 1, 2, 2, 2, 3, 4, 5, 6]),
        1 => {
            if t.chance(72) {
                t.range(N_INPUT_FIELDS as usize, N_INPUT_FIELDS_EXT as usize - 1) as u8
            } else {
                t.below(N_INPUT_FIELDS as usize) as u8
            }
        }
        _ => t.below(N_OUTPUT_FIELDS as usize) as u8,
    };
    Slot { level, pos: t.below(3) as u8, field, key: t.below(3) as u8 }
}

fn uid(p: &Pset) -> Result<Option<[u8; 32]>, Failure> {
    Ok(guard::guard("unique_id", 0, || p.unique_id())?.ok().map(|x| x.to_byte_array()))
}

fn do_merge(a: &Pset, b: &Pset) -> Result<Result<Pset, PsetError>, Failure> {
    let mut x = a.clone();
    let y = b.clone();
    let r = guard::guard("PartiallySignedTransaction::merge", 0, || x.merge(y))?;
    Ok(r.map(|()| x))
}

type KvMaps = Vec<BTreeMap<Vec<u8>, Vec<u8>>>;

/// the raw key/value maps of a PSET; the library's serializer runs under the guard, so a panic in it is
/// reported as a violation with the library's location
fn raw_maps(p: &Pset) -> Result<KvMaps, Failure> {
    let bytes = guard::guard("serialize(pset)", 0, || serialize(p))?;
    let Some(maps): Option<Vec<RawMap>> = psetraw::split(&bytes) else {
        return Err(Failure::panic("raw split failed".into(), "src/props/c14.rs".into()));
    };
    Ok(maps.into_iter().map(|m| m.into_iter().map(|pr| (pr.key, pr.value)).collect()).collect())
}

/// keys whose values are combined by rule rather than copied (presence is still required)
fn combined_by_rule(map_index: usize, key: &[u8]) -> bool {
    // global tx modifiable (OR of both)
    map_index == 0 && key == [0x06]
}

fn describe_key(map_index: usize, nin: usize, key: &[u8]) -> String {
    let lvl = if map_index == 0 { "global".to_string() } else if map_index <= nin { format!("input {}", map_index - 1) } else { format!("output {}", map_index - 1 - nin) };
    format!("{} key {}", lvl, hex(key))
}

/// every key/value of either operand must be in the merged PSET
fn check_contains(result: &Pset, operand: &Pset, which: &str, ctx: &mut Ctx) -> R {
    check_contains_except(result, operand, which, None, ctx)
}

/// `exempt`: one global raw key whose value is decided by a separate oracle (the reconciled xpub)
fn check_contains_except(result: &Pset, operand: &Pset, which: &str, exempt: Option<&[u8]>, ctx: &mut Ctx) -> R {
    let (r, o) = (raw_maps(result)?, raw_maps(operand)?);
    ensure_eq!(r.len(), o.len(), "merged PSET has a different number of maps");
    let nin = operand.inputs().len();
    for (mi, om) in o.iter().enumerate() {
        for (k, v) in om {
            match r[mi].get(k) {
                None => {
                    let what = describe_key(mi, nin, k);
                    // listed findings, by exact key
                    let dropped_known = (mi >= 1 && mi <= nin && (k == &[0x03u8][..] || k == &[0x10u8][..]))
                        || (mi > nin && (k == &[0x03u8][..] || k.ends_with(&[b'p', b's', b'e', b't', 0x02])))
                        || (mi == 0 && k == &[0x03u8][..]);
                    if dropped_known && ctx.is_known(KF_DROPPED_FIELDS) {
                        continue;
                    }
                    if mi >= 1 && mi <= nin && k == &[0x00u8][..] && ctx.is_known(KF_UTXO_CLEAR) {
                        continue;
                    }
                    return Err(Failure::new(format!("merge lost a field that is present in the {} operand: {} (value {})", which, what, hex(&v[..v.len().min(40)]))));
                }
                Some(rv) => {
                    if mi == 0 && exempt == Some(&k[..]) {
                        continue;
                    }
                    if combined_by_rule(mi, k) {
                        // flags are ORed: every bit set in an operand is set in the result
                        let lost = v.len() != rv.len() || v.iter().zip(rv.iter()).any(|(a, b)| a & b != *a);
                        if lost {
                            return Err(Failure::new(format!(
                                "merge lost modifiable-flag bits of the {} operand: {} is {} in the operand and {} in the result",
                                which,
                                describe_key(mi, nin, k),
                                hex(v),
                                hex(rv)
                            )));
                        }
                        continue;
                    }
                    if rv != v {
                        return Err(Failure::new(format!(
                            "merge changed the value of {}: operand {} has {}, result has {}",
                            describe_key(mi, nin, k),
                            which,
                            hex(&v[..v.len().min(40)]),
                            hex(&rv[..rv.len().min(40)])
                        )));
                    }
                }
            }
        }
    }
    Ok(())
}

fn pset_eq(a: &Pset, b: &Pset) -> bool {
    super::c07::pset_eq(a, b)
}

/// human-readable difference of two PSETs by raw key
fn diff_maps(a: &Pset, b: &Pset) -> String {
    let (Ok(x), Ok(y)) = (raw_maps(a), raw_maps(b)) else { return "serialization of a merged PSET failed".into() };
    let nin = a.inputs().len();
    let mut out = Vec::new();
    for mi in 0..x.len().max(y.len()) {
        let (mx, my) = (x.get(mi), y.get(mi));
        let empty = BTreeMap::new();
        let (mx, my) = (mx.unwrap_or(&empty), my.unwrap_or(&empty));
        for k in mx.keys().chain(my.keys()) {
            let (vx, vy) = (mx.get(k), my.get(k));
            if vx != vy {
                let f = |v: Option<&Vec<u8>>| v.map_or("<absent>".to_string(), |v| hex(&v[..v.len().min(24)]));
                let d = format!("{}: {} vs {}", describe_key(mi, nin, k), f(vx), f(vy));
                if !out.contains(&d) {
                    out.push(d);
                }
            }
        }
    }
    out.truncate(6);
    out.join("; ")
}

fn families(t: &mut Tape, ctx: &mut Ctx) -> R {
    families_impl(t, ctx, false)
}

/// the same with the extended slot table (lock-time and issuance fields, per-descendant flag bits) and one
/// more tape-chosen order and grouping
fn families_ext(t: &mut Tape, ctx: &mut Ctx) -> R {
    families_impl(t, ctx, true)
}

fn families_impl(t: &mut Tape, ctx: &mut Ctx, ext: bool) -> R {
    let seed = t.arr32();
    let anc = gp::gen_pset(t, &PsetOpts { extractable: true, ..PsetOpts::default() });
    let Some(id0) = uid(&anc)? else { return Ok(()) };
    let k = 2 + t.below(3);
    let mut desc: Vec<Pset> = Vec::new();
    let mut slots_used: Vec<Vec<Slot>> = Vec::new();
    let mut labels: Vec<Vec<&'static str>> = Vec::new();
    let mut registry: BTreeMap<(usize, Vec<u8>), Vec<u8>> = BTreeMap::new();
    for di in 0..k {
        let mut d = anc.clone();
        let n = 1 + t.below(8);
        let mut used = Vec::new();
        let mut lab = Vec::new();
        for _ in 0..n {
            let mut s = if ext { gen_slot_ext(t) } else { gen_slot(t) };
            // normalise the position so that equal effective positions are equal slots
            let n = match s.level {
                1 => d.inputs().len(),
                2 => d.outputs().len(),
                _ => 1,
            };
            s.pos = if n == 0 { 0 } else { (s.pos as usize % n) as u8 };
            // optional (non-map) fields have one slot each; only map fields are keyed
            let keyed: &[u8] = match s.level {
                0 => &[0, 1, 4, 5],
                1 => &[2, 6, 9, 10, 11, 12, 15, 16, 17, 36, 37],
                _ => &[2, 5, 14, 15],
            };
            if !keyed.contains(&s.field) {
                s.key = 0;
            }
            // apply on a scratch copy and admit the addition only if every raw key it adds is new to
            // the family or carries the value the family already knows for it ("same key => identical
            // value, else disjoint keys")
            let mut scratch = d.clone();
            if let Some(l) = apply_slot(&mut scratch, s, &seed, if ext { Some(di) } else { None }) {
                let (before, after) = (raw_maps(&d)?, raw_maps(&scratch)?);
                let mut ok = before.len() == after.len();
                let mut fresh: Vec<((usize, Vec<u8>), Vec<u8>)> = Vec::new();
                if ok {
                    for (mi, m) in after.iter().enumerate() {
                        for (k, v) in m {
                            if before[mi].get(k) != Some(v) {
                                if ext && combined_by_rule(mi, k) {
                                    // flag bits: combined by OR, not copied; descendants may set different bits
                                    continue;
                                }
                                match registry.get(&(mi, k.clone())) {
                                    Some(known) if known != v => ok = false,
                                    _ => fresh.push(((mi, k.clone()), v.clone())),
                                }
                            }
                        }
                    }
                }
                if ok {
                    for (k, v) in fresh {
                        registry.insert(k, v);
                    }
                    d = scratch;
                    used.push(s);
                    lab.push(l);
                } else {
                    ctx.class("addition-skipped(key collides with another descendant's)");
                }
            }
        }
        match uid(&d)? {
            Some(id) if id == id0 => {
                desc.push(d);
                slots_used.push(used);
                labels.push(lab);
            }
            _ => {
                // an addition that changed the identity: not a descendant of the same transaction
                ctx.exclude();
                ctx.class("descendant-discarded(id changed)");
            }
        }
    }
    if desc.len() < 2 {
        return Ok(());
    }
    // pairwise: merge Ok, id kept, superset of both operands, commutative
    let (a, b) = (&desc[0], &desc[1]);
    let ab = match do_merge(a, b)? {
        Ok(x) => x,
        Err(e) => return Err(Failure::new(format!("merge of two descendants of one PSET failed: {} ({:?})\n additions a={:?}\n additions b={:?}", e, e, labels[0], labels[1]))),
    };
    let ba = match do_merge(b, a)? {
        Ok(x) => x,
        Err(e) => return Err(Failure::new(format!("merge of two descendants failed in the other order: {}", e))),
    };
    ctx.evals_n(2);
    ensure!(uid(&ab)? == Some(id0), "merge changed the unique id");
    check_contains(&ab, a, "first", ctx)?;
    check_contains(&ab, b, "second", ctx)?;
    check_contains(&ba, a, "second", ctx)?;
    check_contains(&ba, b, "first", ctx)?;
    if !pset_eq(&ab, &ba) {
        let tolerated = ctx.is_known(KF_UTXO_CLEAR) && {
            let strip = |p: &Pset| {
                let mut q = p.clone();
                for i in q.inputs_mut() {
                    i.non_witness_utxo = None;
                }
                q
            };
            pset_eq(&strip(&ab), &strip(&ba))
        };
        if !tolerated {
            return Err(Failure::new(format!(
                "merge(a,b) != merge(b,a); {}\n additions a={:?}\n additions b={:?}",
                diff_maps(&ab, &ba),
                labels[0],
                labels[1]
            )));
        }
    }
    // all orders and groupings of the k descendants
    if desc.len() >= 3 {
        let fold = |order: &[usize]| -> Result<Option<Pset>, Failure> {
            let mut acc = desc[order[0]].clone();
            for &i in &order[1..] {
                match do_merge(&acc, &desc[i])? {
                    Ok(x) => acc = x,
                    Err(_) => return Ok(None),
                }
            }
            Ok(Some(acc))
        };
        let n = desc.len();
        let base_order: Vec<usize> = (0..n).collect();
        let Some(base) = fold(&base_order)? else { return Err(Failure::new("left fold of the descendants failed".to_string())) };
        let mut rev = base_order.clone();
        rev.reverse();
        let mut rot = base_order.clone();
        rot.rotate_left(1);
        for order in [rev, rot] {
            match fold(&order)? {
                Some(x) => {
                    if !pset_eq(&x, &base) && !ctx.is_known(KF_UTXO_CLEAR) {
                        return Err(Failure::new(format!("merging {} descendants in order {:?} differs from order {:?}; {}", n, order, base_order, diff_maps(&x, &base))));
                    }
                }
                None => return Err(Failure::new(format!("merging descendants in order {:?} failed", order))),
            }
            ctx.eval();
        }
        // grouping: (d0+d1) + (d2 [+d3])
        let left = do_merge(&desc[0], &desc[1])?;
        let right = if n >= 4 { do_merge(&desc[2], &desc[3])? } else { Ok(desc[2].clone()) };
        if let (Ok(l), Ok(r)) = (left, right) {
            match do_merge(&l, &r)? {
                Ok(x) => {
                    if !pset_eq(&x, &base) && !ctx.is_known(KF_UTXO_CLEAR) {
                        return Err(Failure::new(format!("grouped merge differs from the left fold; {}", diff_maps(&x, &base))));
                    }
                }
                Err(e) => return Err(Failure::new(format!("grouped merge failed: {}", e))),
            }
            ctx.eval();
        }
        for d in &desc {
            check_contains(&base, d, "a folded", ctx)?;
        }
        ctx.class("family:>=3-descendants");
        if ext {
            // one more order and one more grouping, both from the tape
            let mut perm = base_order.clone();
            for i in (1..perm.len()).rev() {
                let j = t.below(i + 1);
                perm.swap(i, j);
            }
            match fold(&perm)? {
                Some(x) => {
                    if !pset_eq(&x, &base) {
                        return Err(Failure::new(format!("merging {} descendants in order {:?} differs from order {:?}; {}", n, perm, base_order, diff_maps(&x, &base))));
                    }
                    ensure!(uid(&x)? == Some(id0), "merging {} descendants in order {:?} changed the unique id", n, perm);
                }
                None => return Err(Failure::new(format!("merging descendants in order {:?} failed", perm))),
            }
            ctx.eval();
            // (perm[..cut] folded) + (perm[cut..] folded)
            let cut = 1 + t.below(n - 1);
            let (l, r) = (fold(&perm[..cut])?, fold(&perm[cut..])?);
            match (l, r) {
                (Some(l), Some(r)) => match do_merge(&l, &r)? {
                    Ok(x) => {
                        if !pset_eq(&x, &base) {
                            return Err(Failure::new(format!("grouped merge ({:?}) + ({:?}) differs from the left fold; {}", &perm[..cut], &perm[cut..], diff_maps(&x, &base))));
                        }
                    }
                    Err(e) => return Err(Failure::new(format!("grouped merge ({:?}) + ({:?}) failed: {}", &perm[..cut], &perm[cut..], e))),
                },
                _ => return Err(Failure::new(format!("merging a group of descendants of order {:?} split at {} failed", perm, cut))),
            }
            ctx.eval();
            ctx.class("family:extra-order-and-grouping");
        }
    }
    // non-triviality: different fields in the same map, or both set an optional field
    let same_map_diff = slots_used[0].iter().any(|x| slots_used[1].iter().any(|y| x.level == y.level && x.pos == y.pos && x.field == y.field && x.key != y.key));
    let both_same = slots_used[0].iter().any(|x| slots_used[1].contains(x));
    if same_map_diff {
        ctx.class("pair:different-keys-in-same-map");
    }
    if both_same {
        ctx.class("pair:both-added-same-field");
    }
    for l in labels.iter().flatten() {
        ctx.class(&format!("add:{}", l));
    }
    if same_map_diff || both_same {
        ctx.nontrivial(&(hex(&id0), format!("{:?}", slots_used)));
    }
    if ctx.wants_sample("family") && (same_map_diff || both_same) {
        ctx.sample("family", || json!({"descendants": desc.len(), "additions": labels, "inputs": anc.inputs().len(), "outputs": anc.outputs().len()}));
    }
    Ok(())
}

fn different_ids(t: &mut Tape, ctx: &mut Ctx) -> R {
    let mut a = gp::gen_pset(t, &PsetOpts { extractable: true, ..PsetOpts::default() });
    // change identifying data (review g5, C14-5: every component of the unsigned transaction, and the
    // number of maps); pairs whose ids turn out equal or not computable are skipped and counted
    let kind = t.below(14);
    if a.inputs().is_empty() {
        let mut i = gp::gen_input(t, 60);
        i.required_time_locktime = None;
        a.add_input(i);
    }
    if a.outputs().is_empty() {
        let n = a.inputs().len();
        a.add_output(gp::gen_output(t, 60, n));
    }
    let mut b = a.clone();
    let pl = pool();
    let what = match kind {
        0 => {
            let k = t.below(b.inputs().len());
            let mut x = b.inputs()[k].previous_txid.to_byte_array();
            x[t.below(32)] ^= 1 << t.below(8);
            b.inputs_mut()[k].previous_txid = elements::Txid::from_byte_array(x);
            "prev txid"
        }
        1 => {
            let k = t.below(b.outputs().len());
            let mut s = b.outputs()[k].script_pubkey.to_bytes();
            s.push(0x51);
            b.outputs_mut()[k].script_pubkey = elements::Script::from(s);
            "output script"
        }
        2 => {
            b.global.tx_data.version ^= 1 << t.below(32);
            "tx version"
        }
        3 => {
            let mut i = gp::gen_input(t, 60);
            i.required_time_locktime = None;
            i.required_height_locktime = None;
            b.add_input(i);
            "one more input"
        }
        4 => {
            let n = b.inputs().len();
            let o = gp::gen_output(t, 60, n);
            b.add_output(o);
            "one more output"
        }
        5 => {
            let k = t.below(b.outputs().len());
            b.remove_output(k);
            "one output fewer"
        }
        6 => {
            let k = t.below(b.inputs().len());
            b.remove_input(k);
            "one input fewer"
        }
        7 => {
            let k = t.below(b.inputs().len());
            b.inputs_mut()[k].previous_output_index ^= 1 << t.below(30);
            "prev output index"
        }
        8 => {
            let k = t.below(b.inputs().len());
            b.inputs_mut()[k].previous_output_index ^= if t.bool() { 1 << 30 } else { 1 << 31 };
            "prevout pegin / issuance flag bit"
        }
        9 => {
            let k = t.below(b.outputs().len());
            let o = &mut b.outputs_mut()[k];
            match (o.amount_comm, o.amount) {
                (Some(c), _) => {
                    let j = t.below(pl.commitments.len());
                    let other = pl.commitments[j];
                    o.amount_comm = Some(if other == c { pl.commitments[(j + 1) % pl.commitments.len()] } else { other });
                    "output amount commitment"
                }
                (None, Some(x)) => {
                    o.amount = Some(x ^ (1 << t.below(64)));
                    "output explicit amount"
                }
                (None, None) => "output amount (absent)",
            }
        }
        10 => {
            let k = t.below(b.outputs().len());
            let o = &mut b.outputs_mut()[k];
            match (o.asset_comm, o.asset) {
                (Some(_), _) => {
                    o.asset_comm = Some(pl.generators[t.below(pl.generators.len())]);
                    "output asset commitment"
                }
                (None, Some(x)) => {
                    let y = elements::AssetId::from_byte_array(t.arr32());
                    o.asset = Some(if y == x { pl.assets[0] } else { y });
                    "output explicit asset"
                }
                (None, None) => "output asset (absent)",
            }
        }
        11 => {
            // decides only when no input requires a lock time
            let old = b.global.tx_data.fallback_locktime.map_or(0, |l| l.to_consensus_u32());
            b.global.tx_data.fallback_locktime = Some(LockTime::from_consensus(old ^ (1 << t.below(32))));
            "fallback lock time"
        }
        12 => {
            let k = t.below(b.outputs().len());
            let o = &mut b.outputs_mut()[k];
            o.ecdh_pubkey = match o.ecdh_pubkey {
                Some(_) if t.bool() => None,
                _ => Some(gp::gen_btc_key(t)),
            };
            "output nonce (ecdh key)"
        }
        _ => {
            let k = t.below(b.inputs().len());
            let i = &mut b.inputs_mut()[k];
            match t.below(3) {
                0 => {
                    i.issuance_value_amount = Some(i.issuance_value_amount.unwrap_or(0) ^ (1 << t.below(64)));
                    "issuance amount"
                }
                1 => {
                    let mut e = i.issuance_asset_entropy.unwrap_or_default();
                    e[t.below(32)] ^= 1 << t.below(8);
                    i.issuance_asset_entropy = Some(e);
                    "issuance entropy"
                }
                _ => {
                    let h = i.required_height_locktime.map_or(0, |h| h.to_consensus_u32());
                    let h2 = (h ^ (1 << t.below(28))) % 500_000_000;
                    i.required_height_locktime = elements::locktime::Height::from_consensus(h2).ok();
                    "required height lock time"
                }
            }
        }
    };
    let (ia, ib) = (uid(&a)?, uid(&b)?);
    if ia.is_none() || ib.is_none() || ia == ib {
        ctx.class(&format!("different-ids:skipped({}: id unchanged or not computable)", what));
        return Ok(());
    }
    for (x, y, order) in [(&a, &b, "a.merge(b)"), (&b, &a, "b.merge(a)")] {
        let r = do_merge(x, y)?;
        ctx.eval();
        // refused = any Err (the statement does not name the variant)
        match r {
            Err(PsetError::UniqueIdMismatch { .. }) => {}
            Err(_) => ctx.class("different-ids:refused-with-another-error-variant"),
            Ok(m) => {
                return Err(Failure::new(format!(
                    "PSETs with different unique ids ({} changed; {} / {} inputs, {} / {} outputs) were merged by {}: result has {} inputs, {} outputs",
                    what,
                    a.inputs().len(),
                    b.inputs().len(),
                    a.outputs().len(),
                    b.outputs().len(),
                    order,
                    m.inputs().len(),
                    m.outputs().len()
                )))
            }
        }
    }
    ctx.class(&format!("different-ids:{}", what));
    ctx.nontrivial(&(what, hex(&ia.unwrap_or([0; 32]))));
    Ok(())
}

fn path_of(v: &[u32]) -> DerivationPath {
    DerivationPath::from(v.iter().map(|n| ChildNumber::from(*n)).collect::<Vec<_>>())
}

/// all relations between two key sources of the same global xpub
fn xpub_sources(idx: u64, seed: u64, ctx: &mut Ctx) -> R {
    let rnd = seeded_bytes(seed, idx, 256);
    let mut t = Tape::new(&rnd);
    let xpub = gp::gen_xpub(&mut t);
    let base: Vec<u32> = (0..(1 + t.below(4))).map(|_| t.edgy_u32()).collect();
    let fp1 = Fingerprint::from([1, 2, 3, 4]);
    let fp2 = Fingerprint::from([9, 9, 9, 9]);
    // relation kinds
    let rel = idx % 8;
    let (s1, s2, expect): ((Fingerprint, Vec<u32>), (Fingerprint, Vec<u32>), Option<usize>) = match rel {
        0 => ((fp1, base.clone()), (fp1, base.clone()), Some(0)),
        1 => {
            // s1 is a strict suffix of s2
            let mut long = vec![t.edgy_u32(), t.edgy_u32()];
            long.extend(&base);
            ((fp1, base.clone()), (fp2, long), Some(2))
        }
        2 => {
            let mut long = vec![t.edgy_u32()];
            long.extend(&base);
            ((fp2, long), (fp1, base.clone()), Some(1))
        }
        3 => {
            // unrelated, equal length
            let mut other = base.clone();
            other[0] ^= 1;
            ((fp1, base.clone()), (fp1, other), None)
        }
        4 => {
            // unrelated, first shorter
            let mut long = vec![t.edgy_u32()];
            long.extend(&base);
            let l = long.len();
            long[l - 1] ^= 1;
            ((fp1, base.clone()), (fp1, long), None)
        }
        5 => {
            // unrelated, first longer
            let mut long = vec![t.edgy_u32(), t.edgy_u32()];
            long.extend(&base);
            let l = long.len();
            long[l - 1] ^= 1;
            ((fp1, long), (fp1, base.clone()), None)
        }
        6 => ((fp1, base.clone()), (fp2, base.clone()), None),
        _ => {
            // empty path vs non-empty: the empty path is a suffix of everything
            ((fp1, vec![]), (fp2, base.clone()), Some(2))
        }
    };
    let mk = |s: &(Fingerprint, Vec<u32>)| {
        let mut p = Pset::new_v2();
        let ks: KeySource = (s.0, path_of(&s.1));
        p.global.xpub.insert(xpub, ks);
        p
    };
    let (a, b) = (mk(&s1), mk(&s2));
    let want: Option<KeySource> = expect.map(|w| match w {
        0 | 1 => (s1.0, path_of(&s1.1)),
        _ => (s2.0, path_of(&s2.1)),
    });
    for (x, y, order) in [(&a, &b, "a.merge(b)"), (&b, &a, "b.merge(a)")] {
        let r = match do_merge(x, y) {
            Ok(r) => r,
            Err(f) => {
                if f.panic_loc.is_some() && matches!(rel, 4 | 5) && ctx.is_known(KF_XPUB_UNDERFLOW) {
                    ctx.class("known:xpub-underflow");
                    continue;
                }
                return Err(Failure { msg: format!("{} with xpub key sources {:?} / {:?}: {}", order, s1, s2, f.msg), panic_loc: f.panic_loc });
            }
        };
        ctx.eval();
        match (&r, &want) {
            (Ok(m), Some(w)) => {
                let got = m.global.xpub.get(&xpub);
                ensure!(got == Some(w), "{}: key sources {:?} / {:?} must be reconciled to the longer one {:?}, got {:?}", order, s1, s2, w, got);
            }
            (Err(PsetError::MergeConflict(_)), None) => {}
            // the unique ids are equal by construction, so any refusal is the conflict report; the variant is
            // counted, not demanded
            (Err(_), None) => ctx.class("xpub:conflict-reported-with-another-error-variant"),
            (Ok(m), None) => {
                if rel == 6 && ctx.is_known(KF_XPUB_FINGERPRINT) {
                    ctx.class("known:xpub-fingerprint");
                    continue;
                }
                return Err(Failure::new(format!(
                    "{}: conflicting key sources {:?} / {:?} (relation {}) were silently resolved to {:?} instead of a merge conflict",
                    order,
                    s1,
                    s2,
                    ["equal", "suffix", "suffix", "unrelated-equal-length", "unrelated-first-shorter", "unrelated-first-longer", "equal-path-different-fingerprint", "empty-path"][rel as usize],
                    m.global.xpub.get(&xpub)
                )));
            }
            (Err(e), Some(_)) => return Err(Failure::new(format!("{}: reconcilable key sources {:?} / {:?} gave {:?}", order, s1, s2, e))),
        }
    }
    ctx.class(&format!("xpub-relation:{}", rel));
    ctx.nontrivial(&(rel, base));
    let _ = LockTime::ZERO;
    Ok(())
}

/// Key-source relations the first table does not reach, in populated PSETs (review g5, C14-1 / C14-3):
/// the mismatch position of unrelated sources is chosen over the whole overlap, empty paths on both
/// sides, suffix pairs with equal fingerprints, paths of up to 8 elements; and the operands carry other
/// xpubs (ordered before and after the tested one), a scalar, flags, proprietary and unknown pairs, an
/// input and an output field, which a reconciling merge must keep.
fn xpub_sources_ext(idx: u64, seed: u64, ctx: &mut Ctx) -> R {
    let rnd = seeded_bytes(seed, idx, 4096);
    let mut t = Tape::new(&rnd);
    let t = &mut t;
    let xpub = gp::gen_xpub(t);
    let fp1 = Fingerprint::from([1, 2, 3, 4]);
    let fp2 = Fingerprint::from([9, 9, 9, 9]);
    // distinct elements (a flipped element never collides with a neighbour by accident)
    let fresh = |t: &mut Tape, n: usize| -> Vec<u32> { (0..n).map(|i| (t.edgy_u32() & !0xf00) | ((i as u32 + 1) << 8)).collect() };
    let rel = idx % 12;
    let other_fp = |t: &mut Tape| if t.bool() { fp1 } else { fp2 };
    const NAMES: [&str; 12] = [
        "equal",
        "first-is-suffix-of-second",
        "second-is-suffix-of-first",
        "unrelated-equal-length(any position)",
        "unrelated-first-shorter(any position of the overlap)",
        "unrelated-first-longer(any position of the overlap)",
        "equal-path-different-fingerprint",
        "both-empty-different-fingerprint",
        "both-empty-equal",
        "empty-vs-non-empty",
        "unrelated-first-shorter(first overlapped element only)",
        "unrelated-first-longer(first overlapped element only)",
    ];
    // expect: Some(0) equal, Some(1) the first source wins (it is the longer one), Some(2) the second, None conflict
    let (s1, s2, expect): ((Fingerprint, Vec<u32>), (Fingerprint, Vec<u32>), Option<usize>) = match rel {
        0 => {
            let n = t.below(9);
            let base = fresh(t, n);
            ((fp1, base.clone()), (fp1, base), Some(0))
        }
        1 | 2 => {
            let n = 1 + t.below(8);
            let base = fresh(t, n);
            let extra = 1 + t.below(3);
            let mut long: Vec<u32> = (0..extra).map(|_| t.edgy_u32()).collect();
            long.extend(&base);
            let f = other_fp(t);
            if rel == 1 {
                ((fp1, base), (f, long), Some(2))
            } else {
                ((f, long), (fp1, base), Some(1))
            }
        }
        3 => {
            let n = 1 + t.below(8);
            let base = fresh(t, n);
            let mut other = base.clone();
            let at = t.below(n);
            other[at] ^= 1 << t.below(32);
            ((fp1, base), (other_fp(t), other), None)
        }
        4 | 5 | 10 | 11 => {
            let n = if rel >= 10 { 2 + t.below(7) } else { 1 + t.below(8) };
            let base = fresh(t, n);
            let extra = 1 + t.below(3);
            let mut long: Vec<u32> = (0..extra).map(|_| t.edgy_u32()).collect();
            long.extend(&base);
            let at = if rel >= 10 { 0 } else { t.below(n) };
            long[extra + at] ^= 1 << t.below(32);
            let f = other_fp(t);
            if rel == 4 || rel == 10 {
                ((fp1, base), (f, long), None)
            } else {
                ((f, long), (fp1, base), None)
            }
        }
        6 => {
            let n = 1 + t.below(8);
            let base = fresh(t, n);
            ((fp1, base.clone()), (fp2, base), None)
        }
        7 => ((fp1, vec![]), (fp2, vec![]), None),
        8 => ((fp1, vec![]), (fp1, vec![]), Some(0)),
        _ => {
            let n = 1 + t.below(8);
            let base = fresh(t, n);
            let f = other_fp(t);
            if t.bool() {
                ((fp1, vec![]), (f, base), Some(2))
            } else {
                ((f, base), (fp1, vec![]), Some(1))
            }
        }
    };
    // a common transaction: one input, one output
    let mut base_pset = Pset::new_v2();
    let mut inp = gp::gen_input(t, 0);
    inp.required_time_locktime = None;
    base_pset.add_input(inp);
    base_pset.add_output(gp::gen_output(t, 0, 1));
    // company for the second operand (and for the first one on odd rounds)
    let mut before = xpub;
    before.chain_code = elements::bitcoin::bip32::ChainCode::from([0u8; 32]);
    let mut after = xpub;
    after.chain_code = elements::bitcoin::bip32::ChainCode::from([0xffu8; 32]);
    let company = |t: &mut Tape, p: &mut Pset, tag: u8| {
        if before != xpub {
            p.global.xpub.insert(before, gp::gen_key_source(t));
        }
        if after != xpub {
            p.global.xpub.insert(after, gp::gen_key_source(t));
        }
        p.global.xpub.insert(gp::gen_xpub(t), gp::gen_key_source(t));
        p.global.scalars.push(gen::gen_tweak(t));
        p.global.elements_tx_modifiable_flag = Some(tag);
        p.global.tx_data.tx_modifiable = Some(1 << (tag & 3));
        let l = t.below(12);
        let mut pk = gp::gen_prop_key(t, 0);
        pk.key.push(tag);
        p.global.proprietary.insert(pk, t.bytes(l));
        let l = t.below(12);
        let mut uk = gp::gen_unknown_key(t, 0);
        uk.key.push(tag);
        p.global.unknown.insert(uk, t.bytes(l));
        let l = t.range(1, 72);
        p.inputs_mut()[0].partial_sigs.insert(gp::gen_btc_key(t), t.bytes(l));
        p.outputs_mut()[0].bip32_derivation.insert(gp::gen_btc_key(t), gp::gen_key_source(t));
    };
    let (mut a, mut b) = (base_pset.clone(), base_pset);
    a.global.xpub.insert(xpub, (s1.0, path_of(&s1.1)));
    b.global.xpub.insert(xpub, (s2.0, path_of(&s2.1)));
    // the registry idea of `families`: both operands draw the company from the SAME tape position, so equal
    // keys carry equal values; the tag makes the proprietary / unknown keys of the two operands disjoint
    let company_tape = t.clone();
    company(&mut company_tape.clone(), &mut b, 2);
    let both = idx / 12 % 2 == 1;
    if both {
        company(&mut company_tape.clone(), &mut a, 1);
        // identical flag fields on both sides (first-wins fields must not differ inside a family)
        a.global.elements_tx_modifiable_flag = b.global.elements_tx_modifiable_flag;
    }
    let (ia, ib) = (uid(&a)?, uid(&b)?);
    if ia.is_none() || ia != ib {
        return Err(Failure::panic("xpub_sources_ext: operands do not share a unique id".into(), "src/props/c14.rs".into()));
    }
    let want: Option<KeySource> = expect.map(|w| match w {
        0 | 1 => (s1.0, path_of(&s1.1)),
        _ => (s2.0, path_of(&s2.1)),
    });
    let mut xkey = vec![0x01u8];
    xkey.extend_from_slice(&xpub.encode());
    for (x, y, order) in [(&a, &b, "a.merge(b)"), (&b, &a, "b.merge(a)")] {
        let r = match do_merge(x, y) {
            Ok(r) => r,
            Err(f) => return Err(Failure { msg: format!("{} with xpub key sources {:?} / {:?} ({}): {}", order, s1, s2, NAMES[rel as usize], f.msg), panic_loc: f.panic_loc }),
        };
        ctx.eval();
        match (&r, &want) {
            (Ok(m), Some(w)) => {
                let got = m.global.xpub.get(&xpub);
                ensure!(
                    got == Some(w),
                    "{}: key sources {:?} / {:?} ({}) must be reconciled to {:?}, got {:?}",
                    order,
                    s1,
                    s2,
                    NAMES[rel as usize],
                    w,
                    got
                );
                // reconciliation must not cost anything else
                ensure!(uid(m)? == ia, "{}: merge changed the unique id", order);
                if let Err(f) = check_contains_except(m, x, "first", Some(&xkey), ctx).and_then(|()| check_contains_except(m, y, "second", Some(&xkey), ctx)) {
                    return Err(Failure {
                        msg: format!("{} while reconciling key sources {:?} / {:?} ({}) of a global xpub: {}", order, s1, s2, NAMES[rel as usize], f.msg),
                        panic_loc: f.panic_loc,
                    });
                }
            }
            (Err(_), None) => {}
            (Ok(m), None) => {
                return Err(Failure::new(format!(
                    "{}: conflicting key sources {:?} / {:?} ({}) were silently resolved to {:?} instead of a merge conflict",
                    order,
                    s1,
                    s2,
                    NAMES[rel as usize],
                    m.global.xpub.get(&xpub)
                )));
            }
            (Err(e), Some(_)) => return Err(Failure::new(format!("{}: reconcilable key sources {:?} / {:?} ({}) gave {:?}", order, s1, s2, NAMES[rel as usize], e))),
        }
    }
    ctx.class(&format!("xpub-ext:{}", NAMES[rel as usize]));
    ctx.class(if both { "xpub-ext:company-in-both-operands" } else { "xpub-ext:company-in-second-operand" });
    if s1.0 == s2.0 && s1.1 != s2.1 {
        ctx.class("xpub-ext:different-paths-equal-fingerprints");
    }
    ctx.nontrivial(&(rel, &s1.1, &s2.1, both));
    Ok(())
}

/// merge never panics, whatever the operands: unique ids that cannot be computed (lock-time conflict) on
/// one or both sides, unrelated PSETs, different numbers of maps (review g5, C14-4). Every Ok / Err is
/// accepted, except Ok for two computable, different ids.
fn no_panic(t: &mut Tape, ctx: &mut Ctx) -> R {
    let kind = t.below(4);
    let mut a = gp::gen_pset(t, &PsetOpts::default());
    let conflict = |t: &mut Tape, p: &mut Pset| {
        // one input requires a time, another one a height: no lock time satisfies both
        while p.inputs().len() < 2 {
            p.add_input(gp::gen_input(t, 40));
        }
        let n = p.inputs().len();
        let k = t.below(n);
        let j = (k + 1 + t.below(n - 1)) % n;
        let tm = gp::gen_time(t);
        let h = gp::gen_height(t);
        let ins = p.inputs_mut();
        ins[k].required_time_locktime = Some(tm);
        ins[k].required_height_locktime = None;
        ins[j].required_time_locktime = None;
        ins[j].required_height_locktime = Some(h);
    };
    let (b, label) = match kind {
        0 => (gp::gen_pset(t, &PsetOpts::default()), "independent"),
        1 => {
            // the same transaction, one side cannot compute its id
            let b = a.clone();
            conflict(t, &mut a);
            (b, "conflict-vs-sibling")
        }
        2 => {
            // both fail the same way, but have different numbers of maps
            conflict(t, &mut a);
            let mut b = a.clone();
            match t.below(4) {
                0 => b.add_input(gp::gen_input(t, 60)),
                1 => {
                    let n = b.inputs().len();
                    b.add_output(gp::gen_output(t, 60, n))
                }
                2 if !b.outputs().is_empty() => {
                    let k = t.below(b.outputs().len());
                    b.remove_output(k);
                }
                _ => {
                    // removing a non-conflicting input keeps the conflict when there are >= 3
                    let k = b.inputs().len() - 1;
                    b.remove_input(k);
                }
            }
            (b, "both-conflict-different-map-counts")
        }
        _ => {
            conflict(t, &mut a);
            let mut b = gp::gen_pset(t, &PsetOpts::default());
            if t.bool() {
                conflict(t, &mut b);
            }
            (b, "conflict-vs-independent")
        }
    };
    let (ia, ib) = (uid(&a)?, uid(&b)?);
    for (x, y, order) in [(&a, &b, "a.merge(b)"), (&b, &a, "b.merge(a)")] {
        let r = match do_merge(x, y) {
            Ok(r) => r,
            Err(f) => {
                return Err(Failure {
                    msg: format!(
                        "{} of PSETs with {} / {} inputs, {} / {} outputs, unique id computable: {} / {} ({}): {}",
                        order,
                        x.inputs().len(),
                        y.inputs().len(),
                        x.outputs().len(),
                        y.outputs().len(),
                        if std::ptr::eq(x, &a) { ia.is_some() } else { ib.is_some() },
                        if std::ptr::eq(x, &a) { ib.is_some() } else { ia.is_some() },
                        label,
                        f.msg
                    ),
                    panic_loc: f.panic_loc,
                })
            }
        };
        ctx.eval();
        if let (Some(i), Some(j), Ok(_)) = (ia, ib, &r) {
            ensure!(i == j, "{}: PSETs with different unique ids were merged ({})", order, label);
        }
        ctx.class(&format!("no-panic:{}:{}", label, if r.is_ok() { "merged" } else { "refused" }));
    }
    ctx.class(match (ia.is_some(), ib.is_some()) {
        (true, true) => "no-panic:ids:both-computable",
        (false, false) => "no-panic:ids:neither-computable",
        _ => "no-panic:ids:one-computable",
    });
    if ia.is_none() || ib.is_none() {
        ctx.nontrivial(&(label, a.inputs().len(), b.inputs().len(), a.outputs().len(), b.outputs().len(), hex(&ia.unwrap_or([0; 32])), hex(&ib.unwrap_or([0; 32]))));
    }
    Ok(())
}

fn repro_underflow() -> bool {
    std::panic::catch_unwind(|| {
        let mut t = Tape::new(&[]);
        let xpub = gp::gen_xpub(&mut t);
        let mut a = Pset::new_v2();
        a.global.xpub.insert(xpub, (Fingerprint::from([1; 4]), path_of(&[1])));
        let mut b = Pset::new_v2();
        b.global.xpub.insert(xpub, (Fingerprint::from([1; 4]), path_of(&[2, 3])));
        let _ = b.merge(a);
    })
    .is_err()
}
fn repro_fingerprint() -> bool {
    let mut t = Tape::new(&[]);
    let xpub = gp::gen_xpub(&mut t);
    let mut a = Pset::new_v2();
    a.global.xpub.insert(xpub, (Fingerprint::from([1; 4]), path_of(&[1])));
    let mut b = Pset::new_v2();
    b.global.xpub.insert(xpub, (Fingerprint::from([2; 4]), path_of(&[1])));
    a.merge(b).is_ok()
}
fn repro_dropped() -> bool {
    let mut a = Pset::new_v2();
    a.add_input(elements::pset::Input::default());
    let mut b = a.clone();
    b.inputs_mut()[0].sighash_type = Some(elements::SchnorrSighashType::All.into());
    a.merge(b).is_ok() && a.inputs()[0].sighash_type.is_none()
}
fn repro_utxo_clear() -> bool {
    let mut t = Tape::new(&[]);
    let mut a = Pset::new_v2();
    a.add_input(elements::pset::Input::default());
    let mut b = a.clone();
    a.inputs_mut()[0].non_witness_utxo = Some(gp::gen_small_tx(&mut t));
    b.inputs_mut()[0].witness_utxo = Some(elements::TxOut::default());
    a.merge(b).is_ok() && a.inputs()[0].non_witness_utxo.is_none()
}

pub fn property() -> Property {
    Property {
        id: "C14",
        rule: "families: an extractable ancestor PSET (C07 generator) and 2..4 descendants, each applying 1..8 id-neutral \
               additions from a table of 61 slots covering every map and optional field at global / input / output level \
               (the content of a slot is a function of the case seed, so equal slots carry identical data and different key \
               indices give disjoint keys); descendants whose unique id changed are discarded and counted. Oracle: merge Ok, \
               unique id kept, every raw key/value pair of either operand present in the result (for the global \
               tx-modifiable flags: every bit of either operand set in the result), merge(a,b) == merge(b,a), all \
               tried orders / rotations / groupings of >=3 descendants equal. families_ext: the same with 67 slots (adds \
               required height / time lock times that another input's requirement or the fallback covers, explicit \
               issuance amount / inflation keys beside their commitments, zero issuance nonce / entropy), flag bits that \
               differ between descendants, and one more tape-chosen order and grouping. different_ids: a changed prevout \
               txid / index / flag bit, output script / amount / asset / nonce, tx version, fallback or required lock time, \
               issuance field, or one input / output more or fewer, whenever it changes the id => any Err, in both orders. \
               xpub_sources: all 8 relations between two key sources of one xpub (equal, \
               suffix either way, empty path, unrelated equal / shorter / longer, equal path with other fingerprint) in \
               both orders: reconciled to the longer one or Err; never a panic. xpub_sources_ext: 12 relations (mismatch at \
               any position of the overlap, first overlapped element only, both paths empty with equal / different \
               fingerprints, suffix pairs with equal fingerprints, paths up to 11 elements) in PSETs that also carry other \
               xpubs ordered before and after the tested one, a scalar, flags, proprietary / unknown pairs, a partial \
               signature and an output derivation: reconciled to the longer source AND nothing else lost, or Err. \
               no_panic: operands whose unique id cannot be computed (time-vs-height conflict) on one or both sides, \
               unrelated PSETs, different numbers of maps: any Ok / Err, no panic. Non-trivial: operands added \
               different keys to the same map or both added the same field, any xpub relation, any no_panic pair with an \
               uncomputable id; distinct by slots.",
        assumptions: &[
            "additions are restricted to fields that do not enter the unsigned transaction id (checked: descendants with a changed id are discarded)",
            "each bit of the global tx-modifiable flags is a field of its own: descendants setting different bits make disjoint additions, and the merged flags must contain the bits of every operand",
            "key sources of one xpub related by a strict suffix are reconciled to the longer one (the algorithm documented in Global::merge); a refusal of such a pair is reported",
        ],
        subs: vec![
            Sub { name: "families", kind: Kind::Tape { max_len: 7000, quick: 48_000, thorough: 600_000, f: families } },
            Sub { name: "different_ids", kind: Kind::Tape { max_len: 6000, quick: 24_000, thorough: 180_000, f: different_ids } },
            Sub { name: "xpub_sources", kind: Kind::Index { count: |t| t.pick(8 * 50, 8 * 2000), exhaustive: false, f: xpub_sources } },
            Sub { name: "families_ext", kind: Kind::Tape { max_len: 7000, quick: 32_000, thorough: 600_000, f: families_ext } },
            Sub { name: "xpub_sources_ext", kind: Kind::Index { count: |t| t.pick(12 * 400, 12 * 8000), exhaustive: false, f: xpub_sources_ext } },
            Sub { name: "no_panic", kind: Kind::Tape { max_len: 9000, quick: 24_000, thorough: 480_000, f: no_panic } },
        ],
        known: vec![
            Known { key: KF_XPUB_UNDERFLOW, what: "merge panics when one global xpub has unrelated key sources of different length", repro: repro_underflow },
            Known { key: KF_XPUB_FINGERPRINT, what: "merge silently resolves equal derivation paths with different fingerprints", repro: repro_fingerprint },
            Known { key: KF_DROPPED_FIELDS, what: "merge drops sighash_type / sequence / explicit amount / asset / fallback_locktime present only in the second operand", repro: repro_dropped },
            Known { key: KF_UTXO_CLEAR, what: "merging a witness UTXO into a PSET clears its non-witness UTXO (one direction only)", repro: repro_utxo_clear },
        ],
    }
}
