//! C14 — merging PSETs never loses information, never panics, and is order-insensitive.
use std::collections::BTreeMap;

use elements::bitcoin::bip32::{ChildNumber, DerivationPath, Fingerprint, KeySource};
use elements::encode::serialize;
use elements::hashes::{hash160, ripemd160, sha256, sha256d, Hash};
use elements::pset::{Error as PsetError, PartiallySignedTransaction as Pset};
use elements::taproot::TapNodeHash;
use elements::{BlockHash, LockTime, Sequence};
use serde_json::json;

use crate::engine::*;
use crate::gen::pset::{self as gp, PsetOpts};
use crate::gen::{self, pool, TxOpts};
use crate::refimpl::psetraw::{self, RawMap};
use crate::refimpl::sha256::sha256 as ref_sha256;
use crate::{ensure, ensure_eq};

pub const KF_XPUB_UNDERFLOW: &str = "merge-xpub-unrelated-sources-of-different-length-panics";
pub const KF_XPUB_FINGERPRINT: &str = "merge-xpub-equal-path-different-fingerprint-silently-resolved";
pub const KF_DROPPED_FIELDS: &str = "merge-drops-optional-fields-present-only-in-second-operand";
pub const KF_UTXO_CLEAR: &str = "merge-witness-utxo-clears-non-witness-utxo";

/// One id-neutral addition: (level, position, field, key index). Its content is a pure function of
/// (case seed, slot), so two descendants adding the same slot add identical data.
#[derive(Clone, Copy, Debug, PartialEq, Eq, PartialOrd, Ord, Hash)]
pub struct Slot {
    level: u8, // 0 global, 1 input, 2 output
    pos: u8,
    field: u8,
    key: u8,
}

const N_GLOBAL_FIELDS: u8 = 7;
const N_INPUT_FIELDS: u8 = 38;
const N_OUTPUT_FIELDS: u8 = 17;

fn slot_tape(seed: &[u8; 32], s: Slot) -> Vec<u8> {
    let mut out = Vec::new();
    let mut ctr = 0u8;
    while out.len() < 512 {
        let mut m = seed.to_vec();
        m.extend_from_slice(&[s.level, s.pos, s.field, s.key, ctr]);
        out.extend_from_slice(&ref_sha256(&m));
        ctr += 1;
    }
    out
}

/// the map key for keyed fields depends only on (case seed, level, pos, field, key index)
fn apply_slot(p: &mut Pset, s: Slot, seed: &[u8; 32]) -> Option<&'static str> {
    let bytes = slot_tape(seed, s);
    let t = &mut Tape::new(&bytes);
    let pl = pool();
    let rp = |t: &mut Tape| Box::new(pl.rangeproofs[t.below(pl.rangeproofs.len())].clone());
    let sp = |t: &mut Tape| Box::new(pl.surjproofs[t.below(pl.surjproofs.len())].clone());
    macro_rules! set_opt {
        ($field:expr, $val:expr, $label:expr) => {{
            if $field.is_none() {
                $field = Some($val);
                Some($label)
            } else {
                None
            }
        }};
    }
    macro_rules! add_key {
        ($map:expr, $k:expr, $v:expr, $label:expr) => {{
            let k = $k;
            if $map.contains_key(&k) {
                None
            } else {
                $map.insert(k, $v);
                Some($label)
            }
        }};
    }
    match s.level {
        0 => {
            let g = &mut p.global;
            match s.field {
                0 => add_key!(g.xpub, gp::gen_xpub(t), gp::gen_key_source(t), "global.xpub"),
                1 => {
                    let sc = gen::gen_tweak(t);
                    if g.scalars.contains(&sc) {
                        None
                    } else {
                        g.scalars.push(sc);
                        Some("global.scalars")
                    }
                }
                2 => set_opt!(g.tx_data.tx_modifiable, t.u8(), "global.tx_modifiable"),
                3 => set_opt!(g.elements_tx_modifiable_flag, t.u8(), "global.elements_tx_modifiable_flag"),
                4 => {
                    let l = t.below(12);
                    add_key!(g.proprietary, gp::gen_prop_key(t, 0), t.bytes(l), "global.proprietary")
                }
                5 => {
                    let l = t.below(12);
                    add_key!(g.unknown, gp::gen_unknown_key(t, 0), t.bytes(l), "global.unknown")
                }
                // id-neutral only when an input's required lock time decides (else the descendant is discarded)
                _ => set_opt!(g.tx_data.fallback_locktime, LockTime::from_consensus(t.edgy_u32()), "global.fallback_locktime"),
            }
        }
        1 => {
            let n = p.inputs().len();
            if n == 0 {
                return None;
            }
            let i = &mut p.inputs_mut()[s.pos as usize % n];
            match s.field {
                0 => set_opt!(i.non_witness_utxo, gp::gen_small_tx(t), "in.non_witness_utxo"),
                1 => set_opt!(i.witness_utxo, gen::gen_txout(t, &TxOpts { big: false, witness: false, ..TxOpts::default() }), "in.witness_utxo"),
                2 => {
                    let l = t.range(1, 72);
                    add_key!(i.partial_sigs, gp::gen_btc_key(t), t.bytes(l), "in.partial_sigs")
                }
                3 => set_opt!(i.sighash_type, t.choose(&gp::SCHNORR_TYPES).into(), "in.sighash_type"),
                4 => set_opt!(i.redeem_script, gen::gen_script(t, false), "in.redeem_script"),
                5 => set_opt!(i.witness_script, gen::gen_script(t, false), "in.witness_script"),
                6 => add_key!(i.bip32_derivation, gp::gen_btc_key(t), gp::gen_key_source(t), "in.bip32_derivation"),
                7 => set_opt!(i.final_script_sig, gen::gen_script(t, false), "in.final_script_sig"),
                8 => set_opt!(i.final_script_witness, gen::gen_stack(t, false), "in.final_script_witness"),
                9 => {
                    let l = t.below(30);
                    let pre = t.bytes(l);
                    add_key!(i.ripemd160_preimages, ripemd160::Hash::hash(&pre), pre, "in.ripemd160_preimages")
                }
                10 => {
                    let l = t.below(30);
                    let pre = t.bytes(l);
                    add_key!(i.sha256_preimages, sha256::Hash::hash(&pre), pre, "in.sha256_preimages")
                }
                11 => {
                    let l = t.below(30);
                    let pre = t.bytes(l);
                    add_key!(i.hash160_preimages, hash160::Hash::hash(&pre), pre, "in.hash160_preimages")
                }
                12 => {
                    let l = t.below(30);
                    let pre = t.bytes(l);
                    add_key!(i.hash256_preimages, sha256d::Hash::hash(&pre), pre, "in.hash256_preimages")
                }
                13 => set_opt!(i.sequence, Sequence(t.edgy_u32()), "in.sequence"),
                14 => set_opt!(i.tap_key_sig, gp::gen_schnorr_sig(t), "in.tap_key_sig"),
                15 => add_key!(i.tap_script_sigs, (gp::gen_xonly(t), gp::gen_leaf_hash(t)), gp::gen_schnorr_sig(t), "in.tap_script_sigs"),
                16 => match gp::gen_control_block(t) {
                    Some(cb) => add_key!(i.tap_scripts, cb, (gen::gen_script(t, false), gp::gen_leaf_version(t)), "in.tap_scripts"),
                    None => None,
                },
                17 => add_key!(i.tap_key_origins, gp::gen_xonly(t), (vec![gp::gen_leaf_hash(t)], gp::gen_key_source(t)), "in.tap_key_origins"),
                18 => set_opt!(i.tap_internal_key, gp::gen_xonly(t), "in.tap_internal_key"),
                19 => set_opt!(i.tap_merkle_root, TapNodeHash::from_byte_array(t.arr32()), "in.tap_merkle_root"),
                20 => set_opt!(i.issuance_value_rangeproof, rp(t), "in.issuance_value_rangeproof"),
                21 => set_opt!(i.issuance_keys_rangeproof, rp(t), "in.issuance_keys_rangeproof"),
                22 => set_opt!(i.pegin_tx, gp::gen_btc_tx(t), "in.pegin_tx"),
                23 => {
                    let l = t.below(60);
                    set_opt!(i.pegin_txout_proof, t.bytes(l), "in.pegin_txout_proof")
                }
                24 => set_opt!(i.pegin_genesis_hash, BlockHash::from_byte_array(t.arr32()), "in.pegin_genesis_hash"),
                25 => set_opt!(i.pegin_claim_script, gen::gen_script(t, false), "in.pegin_claim_script"),
                26 => set_opt!(i.pegin_value, t.edgy_u64(), "in.pegin_value"),
                27 => set_opt!(i.pegin_witness, gen::gen_stack(t, false), "in.pegin_witness"),
                28 => set_opt!(i.in_utxo_rangeproof, rp(t), "in.in_utxo_rangeproof"),
                29 => set_opt!(i.in_issuance_blind_value_proof, rp(t), "in.in_issuance_blind_value_proof"),
                30 => set_opt!(i.in_issuance_blind_inflation_keys_proof, rp(t), "in.in_issuance_blind_inflation_keys_proof"),
                31 => set_opt!(i.amount, t.edgy_u64(), "in.amount"),
                32 => set_opt!(i.blind_value_proof, rp(t), "in.blind_value_proof"),
                33 => set_opt!(i.asset, gen::gen_asset_id(t), "in.asset"),
                34 => set_opt!(i.blind_asset_proof, sp(t), "in.blind_asset_proof"),
                35 => set_opt!(i.blinded_issuance, t.u8(), "in.blinded_issuance"),
                36 => {
                    let l = t.below(12);
                    add_key!(i.proprietary, gp::gen_prop_key(t, 1), t.bytes(l), "in.proprietary")
                }
                _ => {
                    let l = t.below(12);
                    add_key!(i.unknown, gp::gen_unknown_key(t, 1), t.bytes(l), "in.unknown")
                }
            }
        }
        _ => {
            let n = p.outputs().len();
            if n == 0 {
                return None;
            }
            let o = &mut p.outputs_mut()[s.pos as usize % n];
            match s.field {
                0 => set_opt!(o.redeem_script, gen::gen_script(t, false), "out.redeem_script"),
                1 => set_opt!(o.witness_script, gen::gen_script(t, false), "out.witness_script"),
                2 => add_key!(o.bip32_derivation, gp::gen_btc_key(t), gp::gen_key_source(t), "out.bip32_derivation"),
                3 => set_opt!(o.tap_internal_key, gp::gen_xonly(t), "out.tap_internal_key"),
                4 => match gp::gen_tap_tree(t, 5) {
                    Some((tt, _)) => set_opt!(o.tap_tree, tt, "out.tap_tree"),
                    None => None,
                },
                5 => add_key!(o.tap_key_origins, gp::gen_xonly(t), (vec![gp::gen_leaf_hash(t)], gp::gen_key_source(t)), "out.tap_key_origins"),
                6 => {
                    // explicit amount next to an existing commitment (id-neutral: the commitment wins)
                    if o.amount_comm.is_some() {
                        set_opt!(o.amount, t.edgy_u64(), "out.amount(beside commitment)")
                    } else {
                        None
                    }
                }
                7 => {
                    if o.asset_comm.is_some() {
                        set_opt!(o.asset, gen::gen_asset_id(t), "out.asset(beside commitment)")
                    } else {
                        None
                    }
                }
                8 => set_opt!(o.value_rangeproof, rp(t), "out.value_rangeproof"),
                9 => set_opt!(o.asset_surjection_proof, sp(t), "out.asset_surjection_proof"),
                10 => set_opt!(o.blinding_key, gp::gen_btc_key(t), "out.blinding_key"),
                11 => set_opt!(o.blinder_index, t.edgy_u32(), "out.blinder_index"),
                12 => set_opt!(o.blind_value_proof, rp(t), "out.blind_value_proof"),
                13 => set_opt!(o.blind_asset_proof, sp(t), "out.blind_asset_proof"),
                14 => {
                    let l = t.below(12);
                    add_key!(o.proprietary, gp::gen_prop_key(t, 2), t.bytes(l), "out.proprietary")
                }
                15 => {
                    let l = t.below(12);
                    add_key!(o.unknown, gp::gen_unknown_key(t, 2), t.bytes(l), "out.unknown")
                }
                _ => None,
            }
        }
    }
}

fn gen_slot(t: &mut Tape) -> Slot {
    let level = t.choose(&[0u8, 1, 1, 1, 2, 2]);
    let field = match level {
        0 => t.below(N_GLOBAL_FIELDS as usize) as u8,
        1 => t.below(N_INPUT_FIELDS as usize) as u8,
        _ => t.below(N_OUTPUT_FIELDS as usize) as u8,
    };
    Slot { level, pos: t.below(3) as u8, field, key: t.below(3) as u8 }
}

fn uid(p: &Pset) -> Result<Option<[u8; 32]>, Failure> {
    Ok(guard::guard("unique_id", 0, || p.unique_id())?.ok().map(|x| x.to_byte_array()))
}

fn do_merge(a: &Pset, b: &Pset) -> Result<Result<Pset, PsetError>, Failure> {
    let mut x = a.clone();
    let y = b.clone();
    let r = guard::guard("PartiallySignedTransaction::merge", 0, || x.merge(y))?;
    Ok(r.map(|()| x))
}

fn raw_maps(p: &Pset) -> Option<Vec<BTreeMap<Vec<u8>, Vec<u8>>>> {
    let bytes = serialize(p);
    let maps: Vec<RawMap> = psetraw::split(&bytes)?;
    Some(maps.into_iter().map(|m| m.into_iter().map(|pr| (pr.key, pr.value)).collect()).collect())
}

/// keys whose values are combined by rule rather than copied (presence is still required)
fn combined_by_rule(map_index: usize, key: &[u8]) -> bool {
    // global tx modifiable (OR of both)
    map_index == 0 && key == [0x06]
}

fn describe_key(map_index: usize, nin: usize, key: &[u8]) -> String {
    let lvl = if map_index == 0 { "global".to_string() } else if map_index <= nin { format!("input {}", map_index - 1) } else { format!("output {}", map_index - 1 - nin) };
    format!("{} key {}", lvl, hex(key))
}

/// every key/value of either operand must be in the merged PSET
fn check_contains(result: &Pset, operand: &Pset, which: &str, ctx: &mut Ctx) -> R {
    let (Some(r), Some(o)) = (raw_maps(result), raw_maps(operand)) else {
        return Err(Failure::panic("raw split failed".into(), "src/props/c14.rs".into()));
    };
    ensure_eq!(r.len(), o.len(), "merged PSET has a different number of maps");
    let nin = operand.inputs().len();
    for (mi, om) in o.iter().enumerate() {
        for (k, v) in om {
            match r[mi].get(k) {
                None => {
                    let what = describe_key(mi, nin, k);
                    // listed findings, by exact key
                    let dropped_known = (mi >= 1 && mi <= nin && (k == &[0x03u8][..] || k == &[0x10u8][..]))
                        || (mi > nin && (k == &[0x03u8][..] || k.ends_with(&[b'p', b's', b'e', b't', 0x02])))
                        || (mi == 0 && k == &[0x03u8][..]);
                    if dropped_known && ctx.is_known(KF_DROPPED_FIELDS) {
                        continue;
                    }
                    if mi >= 1 && mi <= nin && k == &[0x00u8][..] && ctx.is_known(KF_UTXO_CLEAR) {
                        continue;
                    }
                    return Err(Failure::new(format!("merge lost a field that is present in the {} operand: {} (value {})", which, what, hex(&v[..v.len().min(40)]))));
                }
                Some(rv) => {
                    if rv != v && !combined_by_rule(mi, k) {
                        return Err(Failure::new(format!(
                            "merge changed the value of {}: operand {} has {}, result has {}",
                            describe_key(mi, nin, k),
                            which,
                            hex(&v[..v.len().min(40)]),
                            hex(&rv[..rv.len().min(40)])
                        )));
                    }
                }
            }
        }
    }
    Ok(())
}

fn pset_eq(a: &Pset, b: &Pset) -> bool {
    super::c07::pset_eq(a, b)
}

/// human-readable difference of two PSETs by raw key
fn diff_maps(a: &Pset, b: &Pset) -> String {
    let (Some(x), Some(y)) = (raw_maps(a), raw_maps(b)) else { return "raw split failed".into() };
    let nin = a.inputs().len();
    let mut out = Vec::new();
    for mi in 0..x.len().max(y.len()) {
        let (mx, my) = (x.get(mi), y.get(mi));
        let empty = BTreeMap::new();
        let (mx, my) = (mx.unwrap_or(&empty), my.unwrap_or(&empty));
        for k in mx.keys().chain(my.keys()) {
            let (vx, vy) = (mx.get(k), my.get(k));
            if vx != vy {
                let f = |v: Option<&Vec<u8>>| v.map_or("<absent>".to_string(), |v| hex(&v[..v.len().min(24)]));
                let d = format!("{}: {} vs {}", describe_key(mi, nin, k), f(vx), f(vy));
                if !out.contains(&d) {
                    out.push(d);
                }
            }
        }
    }
    out.truncate(6);
    out.join("; ")
}

fn families(t: &mut Tape, ctx: &mut Ctx) -> R {
    let seed = t.arr32();
    let anc = gp::gen_pset(t, &PsetOpts { extractable: true, ..PsetOpts::default() });
    let Some(id0) = uid(&anc)? else { return Ok(()) };
    let k = 2 + t.below(3);
    let mut desc: Vec<Pset> = Vec::new();
    let mut slots_used: Vec<Vec<Slot>> = Vec::new();
    let mut labels: Vec<Vec<&'static str>> = Vec::new();
    let mut registry: BTreeMap<(usize, Vec<u8>), Vec<u8>> = BTreeMap::new();
    for _ in 0..k {
        let mut d = anc.clone();
        let n = 1 + t.below(8);
        let mut used = Vec::new();
        let mut lab = Vec::new();
        for _ in 0..n {
            let mut s = gen_slot(t);
            // normalise the position so that equal effective positions are equal slots
            let n = match s.level {
                1 => d.inputs().len(),
                2 => d.outputs().len(),
                _ => 1,
            };
            s.pos = if n == 0 { 0 } else { (s.pos as usize % n) as u8 };
            // optional (non-map) fields have one slot each; only map fields are keyed
            let keyed: &[u8] = match s.level {
                0 => &[0, 1, 4, 5],
                1 => &[2, 6, 9, 10, 11, 12, 15, 16, 17, 36, 37],
                _ => &[2, 5, 14, 15],
            };
            if !keyed.contains(&s.field) {
                s.key = 0;
            }
            // apply on a scratch copy and admit the addition only if every raw key it adds is new to
            // the family or carries the value the family already knows for it ("same key => identical
            // value, else disjoint keys")
            let mut scratch = d.clone();
            if let Some(l) = apply_slot(&mut scratch, s, &seed) {
                let (Some(before), Some(after)) = (raw_maps(&d), raw_maps(&scratch)) else { continue };
                let mut ok = before.len() == after.len();
                let mut fresh: Vec<((usize, Vec<u8>), Vec<u8>)> = Vec::new();
                if ok {
                    for (mi, m) in after.iter().enumerate() {
                        for (k, v) in m {
                            if before[mi].get(k) != Some(v) {
                                match registry.get(&(mi, k.clone())) {
                                    Some(known) if known != v => ok = false,
                                    _ => fresh.push(((mi, k.clone()), v.clone())),
                                }
                            }
                        }
                    }
                }
                if ok {
                    for (k, v) in fresh {
                        registry.insert(k, v);
                    }
                    d = scratch;
                    used.push(s);
                    lab.push(l);
                } else {
                    ctx.class("addition-skipped(key collides with another descendant's)");
                }
            }
        }
        match uid(&d)? {
            Some(id) if id == id0 => {
                desc.push(d);
                slots_used.push(used);
                labels.push(lab);
            }
            _ => {
                // an addition that changed the identity: not a descendant of the same transaction
                ctx.exclude();
                ctx.class("descendant-discarded(id changed)");
            }
        }
    }
    if desc.len() < 2 {
        return Ok(());
    }
    // pairwise: merge Ok, id kept, superset of both operands, commutative
    let (a, b) = (&desc[0], &desc[1]);
    let ab = match do_merge(a, b)? {
        Ok(x) => x,
        Err(e) => return Err(Failure::new(format!("merge of two descendants of one PSET failed: {} ({:?})\n additions a={:?}\n additions b={:?}", e, e, labels[0], labels[1]))),
    };
    let ba = match do_merge(b, a)? {
        Ok(x) => x,
        Err(e) => return Err(Failure::new(format!("merge of two descendants failed in the other order: {}", e))),
    };
    ctx.evals_n(2);
    ensure!(uid(&ab)? == Some(id0), "merge changed the unique id");
    check_contains(&ab, a, "first", ctx)?;
    check_contains(&ab, b, "second", ctx)?;
    check_contains(&ba, a, "second", ctx)?;
    check_contains(&ba, b, "first", ctx)?;
    if !pset_eq(&ab, &ba) {
        let tolerated = ctx.is_known(KF_UTXO_CLEAR) && {
            let strip = |p: &Pset| {
                let mut q = p.clone();
                for i in q.inputs_mut() {
                    i.non_witness_utxo = None;
                }
                q
            };
            pset_eq(&strip(&ab), &strip(&ba))
        };
        if !tolerated {
            return Err(Failure::new(format!(
                "merge(a,b) != merge(b,a); {}\n additions a={:?}\n additions b={:?}",
                diff_maps(&ab, &ba),
                labels[0],
                labels[1]
            )));
        }
    }
    // all orders and groupings of the k descendants
    if desc.len() >= 3 {
        let fold = |order: &[usize]| -> Result<Option<Pset>, Failure> {
            let mut acc = desc[order[0]].clone();
            for &i in &order[1..] {
                match do_merge(&acc, &desc[i])? {
                    Ok(x) => acc = x,
                    Err(_) => return Ok(None),
                }
            }
            Ok(Some(acc))
        };
        let n = desc.len();
        let base_order: Vec<usize> = (0..n).collect();
        let Some(base) = fold(&base_order)? else { return Err(Failure::new("left fold of the descendants failed".to_string())) };
        let mut rev = base_order.clone();
        rev.reverse();
        let mut rot = base_order.clone();
        rot.rotate_left(1);
        for order in [rev, rot] {
            match fold(&order)? {
                Some(x) => {
                    if !pset_eq(&x, &base) && !ctx.is_known(KF_UTXO_CLEAR) {
                        return Err(Failure::new(format!("merging {} descendants in order {:?} differs from order {:?}; {}", n, order, base_order, diff_maps(&x, &base))));
                    }
                }
                None => return Err(Failure::new(format!("merging descendants in order {:?} failed", order))),
            }
            ctx.eval();
        }
        // grouping: (d0+d1) + (d2 [+d3])
        let left = do_merge(&desc[0], &desc[1])?;
        let right = if n >= 4 { do_merge(&desc[2], &desc[3])? } else { Ok(desc[2].clone()) };
        if let (Ok(l), Ok(r)) = (left, right) {
            match do_merge(&l, &r)? {
                Ok(x) => {
                    if !pset_eq(&x, &base) && !ctx.is_known(KF_UTXO_CLEAR) {
                        return Err(Failure::new(format!("grouped merge differs from the left fold; {}", diff_maps(&x, &base))));
                    }
                }
                Err(e) => return Err(Failure::new(format!("grouped merge failed: {}", e))),
            }
            ctx.eval();
        }
        for d in &desc {
            check_contains(&base, d, "a folded", ctx)?;
        }
        ctx.class("family:>=3-descendants");
    }
    // non-triviality: different fields in the same map, or both set an optional field
    let same_map_diff = slots_used[0].iter().any(|x| slots_used[1].iter().any(|y| x.level == y.level && x.pos == y.pos && x.field == y.field && x.key != y.key));
    let both_same = slots_used[0].iter().any(|x| slots_used[1].contains(x));
    if same_map_diff {
        ctx.class("pair:different-keys-in-same-map");
    }
    if both_same {
        ctx.class("pair:both-added-same-field");
    }
    for l in labels.iter().flatten() {
        ctx.class(&format!("add:{}", l));
    }
    if same_map_diff || both_same {
        ctx.nontrivial(&(hex(&id0), format!("{:?}", slots_used)));
    }
    if ctx.wants_sample("family") && (same_map_diff || both_same) {
        ctx.sample("family", || json!({"descendants": desc.len(), "additions": labels, "inputs": anc.inputs().len(), "outputs": anc.outputs().len()}));
    }
    Ok(())
}

fn different_ids(t: &mut Tape, ctx: &mut Ctx) -> R {
    let a = gp::gen_pset(t, &PsetOpts { extractable: true, ..PsetOpts::default() });
    let mut b = a.clone();
    // change identifying data
    let what = match t.below(3) {
        0 if !b.inputs().is_empty() => {
            let k = t.below(b.inputs().len());
            let mut x = b.inputs()[k].previous_txid.to_byte_array();
            x[t.below(32)] ^= 1 << t.below(8);
            b.inputs_mut()[k].previous_txid = elements::Txid::from_byte_array(x);
            "prev txid"
        }
        1 if !b.outputs().is_empty() => {
            let k = t.below(b.outputs().len());
            let mut s = b.outputs()[k].script_pubkey.to_bytes();
            s.push(0x51);
            b.outputs_mut()[k].script_pubkey = elements::Script::from(s);
            "output script"
        }
        _ => {
            b.global.tx_data.version ^= 1 << t.below(32);
            "tx version"
        }
    };
    let (ia, ib) = (uid(&a)?, uid(&b)?);
    if ia.is_none() || ib.is_none() || ia == ib {
        return Ok(());
    }
    let r = do_merge(&a, &b)?;
    ctx.eval();
    match r {
        Err(PsetError::UniqueIdMismatch { .. }) => {}
        Err(e) => return Err(Failure::new(format!("PSETs with different unique ids ({} changed) are refused with {:?} instead of UniqueIdMismatch", what, e))),
        Ok(_) => return Err(Failure::new(format!("PSETs with different unique ids ({} changed) were merged", what))),
    }
    ctx.class(&format!("different-ids:{}", what));
    ctx.nontrivial(&(what, hex(&ia.unwrap_or([0; 32]))));
    Ok(())
}

fn path_of(v: &[u32]) -> DerivationPath {
    DerivationPath::from(v.iter().map(|n| ChildNumber::from(*n)).collect::<Vec<_>>())
}

/// all relations between two key sources of the same global xpub
fn xpub_sources(idx: u64, seed: u64, ctx: &mut Ctx) -> R {
    let rnd = seeded_bytes(seed, idx, 256);
    let mut t = Tape::new(&rnd);
    let xpub = gp::gen_xpub(&mut t);
    let base: Vec<u32> = (0..(1 + t.below(4))).map(|_| t.edgy_u32()).collect();
    let fp1 = Fingerprint::from([1, 2, 3, 4]);
    let fp2 = Fingerprint::from([9, 9, 9, 9]);
    // relation kinds
    let rel = idx % 8;
    let (s1, s2, expect): ((Fingerprint, Vec<u32>), (Fingerprint, Vec<u32>), Option<usize>) = match rel {
        0 => ((fp1, base.clone()), (fp1, base.clone()), Some(0)),
        1 => {
            // s1 is a strict suffix of s2
            let mut long = vec![t.edgy_u32(), t.edgy_u32()];
            long.extend(&base);
            ((fp1, base.clone()), (fp2, long), Some(2))
        }
        2 => {
            let mut long = vec![t.edgy_u32()];
            long.extend(&base);
            ((fp2, long), (fp1, base.clone()), Some(1))
        }
        3 => {
            // unrelated, equal length
            let mut other = base.clone();
            other[0] ^= 1;
            ((fp1, base.clone()), (fp1, other), None)
        }
        4 => {
            // unrelated, first shorter
            let mut long = vec![t.edgy_u32()];
            long.extend(&base);
            let l = long.len();
            long[l - 1] ^= 1;
            ((fp1, base.clone()), (fp1, long), None)
        }
        5 => {
            // unrelated, first longer
            let mut long = vec![t.edgy_u32(), t.edgy_u32()];
            long.extend(&base);
            let l = long.len();
            long[l - 1] ^= 1;
            ((fp1, long), (fp1, base.clone()), None)
        }
        6 => ((fp1, base.clone()), (fp2, base.clone()), None),
        _ => {
            // empty path vs non-empty: the empty path is a suffix of everything
            ((fp1, vec![]), (fp2, base.clone()), Some(2))
        }
    };
    let mk = |s: &(Fingerprint, Vec<u32>)| {
        let mut p = Pset::new_v2();
        let ks: KeySource = (s.0, path_of(&s.1));
        p.global.xpub.insert(xpub, ks);
        p
    };
    let (a, b) = (mk(&s1), mk(&s2));
    let want: Option<KeySource> = expect.map(|w| match w {
        0 | 1 => (s1.0, path_of(&s1.1)),
        _ => (s2.0, path_of(&s2.1)),
    });
    for (x, y, order) in [(&a, &b, "a.merge(b)"), (&b, &a, "b.merge(a)")] {
        let r = match do_merge(x, y) {
            Ok(r) => r,
            Err(f) => {
                if f.panic_loc.is_some() && matches!(rel, 4 | 5) && ctx.is_known(KF_XPUB_UNDERFLOW) {
                    ctx.class("known:xpub-underflow");
                    continue;
                }
                return Err(Failure { msg: format!("{} with xpub key sources {:?} / {:?}: {}", order, s1, s2, f.msg), panic_loc: f.panic_loc });
            }
        };
        ctx.eval();
        match (&r, &want) {
            (Ok(m), Some(w)) => {
                let got = m.global.xpub.get(&xpub);
                ensure!(got == Some(w), "{}: key sources {:?} / {:?} must be reconciled to the longer one {:?}, got {:?}", order, s1, s2, w, got);
            }
            (Err(PsetError::MergeConflict(_)), None) => {}
            (Ok(m), None) => {
                if rel == 6 && ctx.is_known(KF_XPUB_FINGERPRINT) {
                    ctx.class("known:xpub-fingerprint");
                    continue;
                }
                return Err(Failure::new(format!(
                    "{}: conflicting key sources {:?} / {:?} (relation {}) were silently resolved to {:?} instead of a merge conflict",
                    order,
                    s1,
                    s2,
                    ["equal", "suffix", "suffix", "unrelated-equal-length", "unrelated-first-shorter", "unrelated-first-longer", "equal-path-different-fingerprint", "empty-path"][rel as usize],
                    m.global.xpub.get(&xpub)
                )));
            }
            (Err(e), Some(_)) => return Err(Failure::new(format!("{}: reconcilable key sources {:?} / {:?} gave {:?}", order, s1, s2, e))),
            (Err(e), None) => return Err(Failure::new(format!("{}: conflicting key sources are refused with {:?}, not MergeConflict", order, e))),
        }
    }
    ctx.class(&format!("xpub-relation:{}", rel));
    ctx.nontrivial(&(rel, base));
    let _ = LockTime::ZERO;
    Ok(())
}

fn repro_underflow() -> bool {
    std::panic::catch_unwind(|| {
        let mut t = Tape::new(&[]);
        let xpub = gp::gen_xpub(&mut t);
        let mut a = Pset::new_v2();
        a.global.xpub.insert(xpub, (Fingerprint::from([1; 4]), path_of(&[1])));
        let mut b = Pset::new_v2();
        b.global.xpub.insert(xpub, (Fingerprint::from([1; 4]), path_of(&[2, 3])));
        let _ = b.merge(a);
    })
    .is_err()
}
fn repro_fingerprint() -> bool {
    let mut t = Tape::new(&[]);
    let xpub = gp::gen_xpub(&mut t);
    let mut a = Pset::new_v2();
    a.global.xpub.insert(xpub, (Fingerprint::from([1; 4]), path_of(&[1])));
    let mut b = Pset::new_v2();
    b.global.xpub.insert(xpub, (Fingerprint::from([2; 4]), path_of(&[1])));
    a.merge(b).is_ok()
}
fn repro_dropped() -> bool {
    let mut a = Pset::new_v2();
    a.add_input(elements::pset::Input::default());
    let mut b = a.clone();
    b.inputs_mut()[0].sighash_type = Some(elements::SchnorrSighashType::All.into());
    a.merge(b).is_ok() && a.inputs()[0].sighash_type.is_none()
}
fn repro_utxo_clear() -> bool {
    let mut t = Tape::new(&[]);
    let mut a = Pset::new_v2();
    a.add_input(elements::pset::Input::default());
    let mut b = a.clone();
    a.inputs_mut()[0].non_witness_utxo = Some(gp::gen_small_tx(&mut t));
    b.inputs_mut()[0].witness_utxo = Some(elements::TxOut::default());
    a.merge(b).is_ok() && a.inputs()[0].non_witness_utxo.is_none()
}

pub fn property() -> Property {
    Property {
        id: "C14",
        rule: "families: an extractable ancestor PSET (C07 generator) and 2..4 descendants, each applying 1..8 id-neutral \
               additions from a table of 61 slots covering every map and optional field at global / input / output level \
               (the content of a slot is a function of the case seed, so equal slots carry identical data and different key \
               indices give disjoint keys); descendants whose unique id changed are discarded and counted. Oracle: merge Ok, \
               unique id kept, every raw key/value pair of either operand present in the result, merge(a,b) == merge(b,a), all \
               tried orders / rotations / groupings of >=3 descendants equal. different_ids: a changed prevout / output / tx \
               version => Err(UniqueIdMismatch). xpub_sources: all 8 relations between two key sources of one xpub (equal, \
               suffix either way, empty path, unrelated equal / shorter / longer, equal path with other fingerprint) in \
               both orders: reconciled to the longer one or Err(MergeConflict); never a panic. Non-trivial: operands added \
               different keys to the same map or both added the same field, or any xpub relation; distinct by slots.",
        assumptions: &["additions are restricted to fields that do not enter the unsigned transaction id (checked: descendants with a changed id are discarded)"],
        subs: vec![
            Sub { name: "families", kind: Kind::Tape { max_len: 7000, quick: 48_000, thorough: 600_000, f: families } },
            Sub { name: "different_ids", kind: Kind::Tape { max_len: 6000, quick: 24_000, thorough: 180_000, f: different_ids } },
            Sub { name: "xpub_sources", kind: Kind::Index { count: |t| t.pick(8 * 50, 8 * 2000), exhaustive: false, f: xpub_sources } },
        ],
        known: vec![
            Known { key: KF_XPUB_UNDERFLOW, what: "merge panics when one global xpub has unrelated key sources of different length", repro: repro_underflow },
            Known { key: KF_XPUB_FINGERPRINT, what: "merge silently resolves equal derivation paths with different fingerprints", repro: repro_fingerprint },
            Known { key: KF_DROPPED_FIELDS, what: "merge drops sighash_type / sequence / explicit amount / asset / fallback_locktime present only in the second operand", repro: repro_dropped },
            Known { key: KF_UTXO_CLEAR, what: "merging a witness UTXO into a PSET clears its non-witness UTXO (one direction only)", repro: repro_utxo_clear },
        ],
    }
}
