//! C18 — fast_merkle_root is the definitional midstate merkle tree for every leaf count.
use crate::engine::*;
use crate::refimpl::sha256 as r;
use crate::{ensure, ensure_eq};
use serde_json::json;

fn lib_root(leaves: &[[u8; 32]]) -> Result<[u8; 32], Failure> {
    guard::guard("fast_merkle_root", leaves.len() * 32, || elements::fast_merkle_root(leaves).to_parts().0)
}

fn multi_level(n: usize) -> bool {
    // not of the form 2^k or 2^k+1: the final sweep crosses several unfinished levels
    n >= 3 && !n.is_power_of_two() && !(n - 1).is_power_of_two()
}

fn check_leaves(leaves: &mut Vec<[u8; 32]>, t: &mut Tape, ctx: &mut Ctx, perturb: usize) -> R {
    let n = leaves.len();
    let want = r::fast_merkle_root(leaves);
    let got = lib_root(leaves)?;
    ctx.eval();
    ensure_eq!(hex(&got), hex(&want), "fast_merkle_root of {} leaves differs from the definitional tree", n);
    if n == 0 {
        ensure_eq!(got, [0u8; 32], "empty list must give the all-zero value");
    }
    if n == 1 {
        ensure_eq!(got, leaves[0], "single leaf must give that leaf");
    }
    ctx.class(if multi_level(n) { "count:multi-level-sweep" } else { "count:2^k|2^k+1|<3" });
    if multi_level(n) {
        ctx.nontrivial(&("count", n));
    }
    if n == 0 {
        return Ok(());
    }
    for p in 0..perturb {
        // one byte of one leaf flipped: root must change (depends on every leaf)
        let i = if p == 0 { n - 1 } else if p == 1 { 0 } else { t.below(n) };
        let byte = t.below(32);
        let bit = 1u8 << t.below(8);
        leaves[i][byte] ^= bit;
        let got2 = lib_root(leaves)?;
        let want2 = r::fast_merkle_root(leaves);
        leaves[i][byte] ^= bit;
        ctx.eval();
        ensure_eq!(hex(&got2), hex(&want2), "root after flipping leaf {} of {} differs from reference", i, n);
        ensure!(got2 != got, "root of {} leaves does not depend on leaf {} (byte {} flipped)", n, i, byte);
        if multi_level(n) {
            ctx.nontrivial(&("flip", n, i));
        }
        ctx.class("perturb:flip");
        // two distinct leaves swapped: root must change (depends on order)
        if n >= 2 {
            let a = t.below(n);
            let mut b = t.below(n - 1);
            if b >= a {
                b += 1;
            }
            if leaves[a] != leaves[b] {
                leaves.swap(a, b);
                let got3 = lib_root(leaves)?;
                let want3 = r::fast_merkle_root(leaves);
                leaves.swap(a, b);
                ctx.eval();
                ensure_eq!(hex(&got3), hex(&want3), "root after swapping leaves {},{} of {} differs from reference", a, b, n);
                ensure!(got3 != got, "root of {} leaves unchanged by swapping distinct leaves {} and {}", n, a, b);
                if multi_level(n) {
                    ctx.nontrivial(&("swap", n, a, b));
                }
                ctx.class("perturb:swap");
            }
        }
    }
    Ok(())
}

/// every count 0..=N, leaves filled from the seed
fn all_counts(idx: u64, seed: u64, ctx: &mut Ctx) -> R {
    let n = idx as usize;
    let bytes = seeded_bytes(seed, idx, 32 * n + 64);
    let mut leaves: Vec<[u8; 32]> = (0..n)
        .map(|i| {
            let mut a = [0u8; 32];
            a.copy_from_slice(&bytes[32 * i..32 * i + 32]);
            a
        })
        .collect();
    let mut t = Tape::new(&bytes[32 * n..]);
    if ctx.wants_sample("all-counts") && (n == 7 || n == 11) {
        let l0 = leaves.first().map(|l| hex(l));
        let root = hex(&r::fast_merkle_root(&leaves));
        ctx.sample("all-counts", || json!({"leaf_count": n, "first_leaf": l0, "root": root, "perturbations": 6}));
    }
    check_leaves(&mut leaves, &mut t, ctx, 6)
}

/// sampled larger counts (edge-biased around powers of two, up to 70 000) and small lists with
/// repeated leaves
fn sampled(t: &mut Tape, ctx: &mut Ctx) -> R {
    let n = match t.below(6) {
        0 => t.below(64),
        1 => {
            let k = t.range(2, 16);
            ((1usize << k) + t.below(5)).saturating_sub(2)
        }
        2 => t.below(5000),
        3 => t.below(70_001),
        4 => {
            // binary patterns with many set bits (several pending levels)
            let k = t.range(3, 16);
            (1usize << k) - 1 - (t.below(4) << t.below(k - 1))
        }
        _ => t.below(300),
    }
    .min(70_000);
    let dup = t.chance(40);
    let base = t.arr32();
    let mut leaves: Vec<[u8; 32]> = Vec::with_capacity(n);
    for i in 0..n {
        let mut l = base;
        if !(dup && i % 3 == 1) {
            l[..8].copy_from_slice(&(i as u64).to_le_bytes());
            l[31] ^= (i as u8).wrapping_mul(7);
        }
        leaves.push(l);
    }
    ctx.class(if n > 4200 { "sampled:>4200" } else { "sampled:<=4200" });
    if ctx.wants_sample("sampled") {
        ctx.sample("sampled", || json!({"leaf_count": n, "repeated_leaves": dup}));
    }
    check_leaves(&mut leaves, t, ctx, 2)
}

pub fn property() -> Property {
    Property {
        id: "C18",
        rule: "all-counts: every leaf count 0..=1200 (quick) / 0..=6000 (thorough) enumerated completely with seeded \
               leaf contents, each with 6 single-bit leaf flips and up to 6 swaps of two distinct leaves; sampled: \
               tape-chosen counts up to 70000 biased to 2^k-2..2^k+2 and to counts with many set bits. Oracle: \
               naive level-by-level tree over the harness's own SHA-256 compression function. Non-trivial = leaf \
               count not of the form 2^k or 2^k+1 (and >= 3), distinct by (count, perturbation, positions).",
        assumptions: &["the harness SHA-256 is checked against FIPS 180-4 vectors at start-up"],
        subs: vec![
            Sub { name: "all_counts", kind: Kind::Index { count: |t| t.pick(1201, 6001), exhaustive: true, f: all_counts } },
            Sub { name: "sampled", kind: Kind::Tape { max_len: 256, quick: 1_500, thorough: 20_000, f: sampled } },
        ],
        known: vec![],
    }
}
