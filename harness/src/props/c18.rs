//! C18 — fast_merkle_root is the definitional midstate merkle tree for every leaf count.
use crate::engine::*;
use crate::refimpl::sha256 as r;
use crate::{ensure, ensure_eq};
use serde_json::json;

fn lib_root(leaves: &[[u8; 32]]) -> Result<[u8; 32], Failure> {
    guard::guard("fast_merkle_root", leaves.len() * 32, || elements::fast_merkle_root(leaves).to_parts().0)
}

fn multi_level(n: usize) -> bool {
    // not of the form 2^k or 2^k+1: the final sweep crosses several unfinished levels
    n >= 3 && !n.is_power_of_two() && !(n - 1).is_power_of_two()
}

/// Leaf values an implementation is tempted to use as "empty slot" / "initial state" markers:
/// 32 zero bytes (the default midstate), the SHA-256 initial state, 32 0xff bytes.
fn sentinel(k: usize) -> ([u8; 32], &'static str) {
    match k {
        0 => ([0u8; 32], "zero"),
        1 => (r::state_bytes(&r::IV), "sha256-iv"),
        _ => ([0xffu8; 32], "ones"),
    }
}

/// up to which leaf count the lists of the purity probe are also compared with the reference
const PURITY_REF_MAX: usize = 6100;
/// above this count the purity probe leaves out the (2n+1)-leaf call
const PURITY_BIG_MAX: usize = 10_000;

/// library root == definitional root, nothing else (used for the patterned lists)
fn check_plain(leaves: &[[u8; 32]], what: &str, ctx: &mut Ctx) -> R {
    let want = r::fast_merkle_root(leaves);
    let got = lib_root(leaves)?;
    ctx.eval();
    ensure_eq!(hex(&got), hex(&want), "fast_merkle_root of {} leaves ({}) differs from the definitional tree", leaves.len(), what);
    Ok(())
}

/// The root is a function of the list alone: a call on a longer list and one on a shorter list
/// (which an implementation with scratch state shared between calls would remember) must not
/// change the answer for `leaves`. Every expected value comes from the reference.
fn purity_probe(leaves: &[[u8; 32]], want: &[u8; 32], ctx: &mut Ctx) -> R {
    let n = leaves.len();
    if n == 0 {
        return Ok(());
    }
    if n <= PURITY_BIG_MAX {
        // 2n+1 leaves: one more level than `leaves` occupies
        let mut big: Vec<[u8; 32]> = Vec::with_capacity(2 * n + 1);
        big.extend_from_slice(leaves);
        big.extend(leaves.iter().map(|l| {
            let mut x = *l;
            x[0] ^= 0x5a;
            x
        }));
        big.push(leaves[n - 1]);
        let got_big = lib_root(&big)?;
        if n <= PURITY_REF_MAX {
            let want_big = r::fast_merkle_root(&big);
            ctx.eval();
            ensure_eq!(hex(&got_big), hex(&want_big), "fast_merkle_root of {} leaves (asked after a list of {}) differs from the definitional tree", big.len(), n);
        }
        ctx.class("purity:larger-list-between");
    }
    // n/2 leaves: at least one level fewer (for n >= 2)
    let small = &leaves[..n / 2];
    let got_small = lib_root(small)?;
    if n <= PURITY_REF_MAX {
        let want_small = r::fast_merkle_root(small);
        ctx.eval();
        ensure_eq!(
            hex(&got_small),
            hex(&want_small),
            "fast_merkle_root of {} leaves differs from the definitional tree when asked after a list of {} leaves on the same thread (the result depends on earlier calls)",
            small.len(),
            if n <= PURITY_BIG_MAX { 2 * n + 1 } else { n }
        );
    }
    ctx.class("purity:smaller-list-between");
    let again = lib_root(leaves)?;
    ctx.eval();
    ensure_eq!(
        hex(&again),
        hex(want),
        "fast_merkle_root of the same {} leaves differs from the definitional tree after calls on a longer and a shorter list (the result depends on earlier calls)",
        n
    );
    ctx.class("purity:asked-again");
    Ok(())
}

fn check_leaves(leaves: &mut Vec<[u8; 32]>, t: &mut Tape, ctx: &mut Ctx, perturb: usize) -> R {
    let n = leaves.len();
    let want = r::fast_merkle_root(leaves);
    let got = lib_root(leaves)?;
    ctx.eval();
    ensure_eq!(hex(&got), hex(&want), "fast_merkle_root of {} leaves differs from the definitional tree", n);
    if n == 0 {
        ensure_eq!(got, [0u8; 32], "empty list must give the all-zero value");
    }
    if n == 1 {
        ensure_eq!(got, leaves[0], "single leaf must give that leaf");
    }
    ctx.class(if multi_level(n) { "count:multi-level-sweep" } else { "count:2^k|2^k+1|<3" });
    if multi_level(n) {
        ctx.nontrivial(&("count", n));
    }
    if n == 0 {
        return Ok(());
    }
    purity_probe(leaves, &want, ctx)?;
    for p in 0..perturb {
        // one byte of one leaf flipped: root must change (depends on every leaf)
        let i = if p == 0 { n - 1 } else if p == 1 { 0 } else { t.below(n) };
        let byte = t.below(32);
        let bit = 1u8 << t.below(8);
        leaves[i][byte] ^= bit;
        let got2 = lib_root(leaves)?;
        let want2 = r::fast_merkle_root(leaves);
        leaves[i][byte] ^= bit;
        ctx.eval();
        ensure_eq!(hex(&got2), hex(&want2), "root after flipping leaf {} of {} differs from reference", i, n);
        ensure!(got2 != got, "root of {} leaves does not depend on leaf {} (byte {} flipped)", n, i, byte);
        if multi_level(n) {
            ctx.nontrivial(&("flip", n, i));
        }
        ctx.class("perturb:flip");
        // two distinct leaves swapped: root must change (depends on order)
        if n >= 2 {
            let a = t.below(n);
            let mut b = t.below(n - 1);
            if b >= a {
                b += 1;
            }
            if leaves[a] != leaves[b] {
                leaves.swap(a, b);
                let got3 = lib_root(leaves)?;
                let want3 = r::fast_merkle_root(leaves);
                leaves.swap(a, b);
                ctx.eval();
                ensure_eq!(hex(&got3), hex(&want3), "root after swapping leaves {},{} of {} differs from reference", a, b, n);
                ensure!(got3 != got, "root of {} leaves unchanged by swapping distinct leaves {} and {}", n, a, b);
                if multi_level(n) {
                    ctx.nontrivial(&("swap", n, a, b));
                }
                ctx.class("perturb:swap");
            }
        }
        // one leaf overwritten with a marker-like value (all-zero = default midstate, the SHA-256
        // initial state, all-ones) at the first / second / last / a random position: leaf contents
        // are arbitrary, the root is still the definitional one
        let (pos, pos_name) = match (p + t.below(4)) % 4 {
            0 => (n - 1, "last"),
            1 => (0, "first"),
            2 => (1.min(n - 1), "second"),
            _ => (t.below(n), "random"),
        };
        let (val, val_name) = sentinel(t.below(3));
        let saved = leaves[pos];
        leaves[pos] = val;
        let got4 = lib_root(leaves)?;
        let want4 = r::fast_merkle_root(leaves);
        leaves[pos] = saved;
        ctx.eval();
        ensure_eq!(hex(&got4), hex(&want4), "root of {} leaves with leaf {} set to the {} value differs from the definitional tree", n, pos, val_name);
        ctx.class(&format!("sentinel:{}:{}", val_name, pos_name));
        ctx.class(if pos % 2 == 1 {
            "sentinel-at:odd-index(right sibling)"
        } else if pos + 1 == n {
            "sentinel-at:unpaired-last"
        } else {
            "sentinel-at:even-index(left sibling)"
        });
        if multi_level(n) {
            ctx.nontrivial(&("sentinel", n, pos, val_name));
        }
    }
    Ok(())
}

fn arr(b: &[u8]) -> [u8; 32] {
    let mut a = [0u8; 32];
    a.copy_from_slice(&b[..32]);
    a
}

/// every count 0..=N, leaves filled from the seed; plus, for the same count, lists whose leaves
/// repeat with period 1 (all equal: random value and a marker value), 2 and 4, which produce
/// equal siblings / equal sub-trees at every level
fn all_counts(idx: u64, seed: u64, ctx: &mut Ctx) -> R {
    let n = idx as usize;
    let bytes = seeded_bytes(seed, idx, 32 * n + 128 + 128);
    let mut leaves: Vec<[u8; 32]> = (0..n).map(|i| arr(&bytes[32 * i..])).collect();
    let pat: Vec<[u8; 32]> = (0..4).map(|i| arr(&bytes[32 * n + 128 + 32 * i..])).collect();
    let mut t = Tape::new(&bytes[32 * n..32 * n + 128]);
    if ctx.wants_sample("all-counts") && (n == 7 || n == 11) {
        let l0 = leaves.first().map(|l| hex(l));
        let root = hex(&r::fast_merkle_root(&leaves));
        ctx.sample("all-counts", || json!({"leaf_count": n, "first_leaf": l0, "root": root, "perturbations": 6,
            "patterned_lists": ["all-equal(random)", "all-equal(marker)", "period-2", "period-4"]}));
    }
    check_leaves(&mut leaves, &mut t, ctx, 6)?;
    if n >= 2 {
        let eq: Vec<[u8; 32]> = vec![pat[0]; n];
        check_plain(&eq, "all leaves equal", ctx)?;
        ctx.class("pattern:all-equal");
        let (s, s_name) = sentinel(n % 3);
        let eqs: Vec<[u8; 32]> = vec![s; n];
        check_plain(&eqs, &format!("all leaves equal to the {} value", s_name), ctx)?;
        ctx.class(&format!("pattern:all-equal:{}", s_name));
        let p2: Vec<[u8; 32]> = (0..n).map(|i| pat[i % 2]).collect();
        check_plain(&p2, "leaves a,b,a,b,...", ctx)?;
        ctx.class("pattern:period-2");
        let p4: Vec<[u8; 32]> = (0..n).map(|i| pat[i % 4]).collect();
        check_plain(&p4, "leaves a,b,c,d,a,b,c,d,...", ctx)?;
        ctx.class("pattern:period-4");
        if multi_level(n) {
            ctx.nontrivial(&("patterns", n));
        }
    }
    Ok(())
}

/// sampled larger counts (edge-biased around powers of two, up to 70 000) and lists with
/// repeated leaves (equal siblings, equal sub-trees) and marker-valued leaves
fn sampled(t: &mut Tape, ctx: &mut Ctx) -> R {
    let n = match t.below(6) {
        0 => t.below(64),
        1 => {
            let k = t.range(2, 16);
            ((1usize << k) + t.below(5)).saturating_sub(2)
        }
        2 => t.below(5000),
        3 => t.below(70_001),
        4 => {
            // binary patterns with many set bits (several pending levels)
            let k = t.range(3, 16);
            (1usize << k) - 1 - (t.below(4) << t.below(k - 1))
        }
        _ => t.below(300),
    }
    .min(70_000);
    // 0: all leaves distinct (index-stamped); 1: all equal; 2: a,b,a,b..; 3: every third leaf equal
    // (never siblings); 4: a,b,c,d,a,b,c,d..; 5: equal pairs (x0,x0,x1,x1,..): equal siblings at level 0 only
    let mode = if t.chance(112) { 1 + t.below(5) } else { 0 };
    let base = match t.below(8) {
        1 => sentinel(0).0,
        2 => sentinel(1).0,
        3 => sentinel(2).0,
        _ => t.arr32(),
    };
    let stamp = |k: usize| {
        let mut l = base;
        l[..8].copy_from_slice(&(k as u64).to_le_bytes());
        l[31] ^= (k as u8).wrapping_mul(7);
        l
    };
    let mut leaves: Vec<[u8; 32]> = Vec::with_capacity(n);
    for i in 0..n {
        leaves.push(match mode {
            0 => stamp(i),
            1 => base,
            2 => {
                if i % 2 == 0 {
                    base
                } else {
                    stamp(1)
                }
            }
            3 => {
                if i % 3 == 1 {
                    base
                } else {
                    stamp(i)
                }
            }
            4 => {
                if i % 4 == 0 {
                    base
                } else {
                    stamp(i % 4)
                }
            }
            _ => stamp(i / 2),
        });
    }
    ctx.class(if n > 4200 { "sampled:>4200" } else { "sampled:<=4200" });
    let mode_name = ["distinct", "all-equal", "period-2", "every-third-equal", "period-4", "equal-pairs"][mode];
    ctx.class(&format!("sampled:leaves:{}", mode_name));
    if ctx.wants_sample("sampled") {
        ctx.sample("sampled", || json!({"leaf_count": n, "leaves": mode_name}));
    }
    check_leaves(&mut leaves, t, ctx, 2)
}

const HIGH_COUNTS: [usize; 12] = [
    (1 << 17) - 1,
    1 << 17,
    (1 << 17) + 1,
    (1 << 17) + (1 << 16) + 11,
    (1 << 18) - 1,
    (1 << 18) + 3,
    // thorough only
    (1 << 19) - 1,
    (1 << 19) + 1,
    (1 << 19) + (1 << 17) + 5,
    (1 << 20) - 1,
    1 << 20,
    (1 << 20) + 1,
];

/// counts that occupy tree levels 17..20 (the per-level array beyond what `sampled` reaches)
fn high_levels(idx: u64, seed: u64, ctx: &mut Ctx) -> R {
    let n = HIGH_COUNTS[(idx as usize).min(HIGH_COUNTS.len() - 1)];
    let bytes = seeded_bytes(seed, idx, 32 + 64);
    let base = arr(&bytes);
    let mut leaves: Vec<[u8; 32]> = (0..n)
        .map(|i| {
            let mut l = base;
            l[..8].copy_from_slice(&(i as u64).to_le_bytes());
            l[31] ^= (i as u8).wrapping_mul(7);
            l
        })
        .collect();
    let mut t = Tape::new(&bytes[32..]);
    ctx.class("count:>=2^17-1");
    if ctx.wants_sample("high-levels") {
        ctx.sample("high-levels", || json!({"leaf_count": n}));
    }
    check_leaves(&mut leaves, &mut t, ctx, 1)
}

pub fn property() -> Property {
    Property {
        id: "C18",
        rule: "all-counts: every leaf count 0..=1200 (quick) / 0..=6000 (thorough) enumerated completely with seeded \
               leaf contents, each with 6 single-bit leaf flips, up to 6 swaps of two distinct leaves and 6 overwrites of \
               one leaf (first / second / last / random position) with a marker-like value (all-zero, SHA-256 initial \
               state, all-ones); for the same count also lists whose leaves repeat with period 1 (all equal: random value \
               and a marker value), 2 and 4 (equal siblings and equal sub-trees at every level). sampled: tape-chosen \
               counts up to 70000 biased to 2^k-2..2^k+2 and to counts with many set bits, leaves distinct or repeating \
               (all equal, period 2 / 4, equal pairs, every third), base value random or a marker value. high_levels: 6 \
               (quick) / 12 (thorough) counts around 2^17..2^20. purity (every case): the library is also asked for a \
               list of 2n+1 and of n/2 leaves and then again for the same list; all three answers must equal the \
               reference's (2n+1 only up to n=10000; reference for the side lists up to n=6100). Oracle: naive \
               level-by-level tree over the harness's own SHA-256 compression function. Non-trivial = leaf \
               count not of the form 2^k or 2^k+1 (and >= 3), distinct by (count, perturbation, positions).",
        assumptions: &["the harness SHA-256 is checked against FIPS 180-4 vectors at start-up"],
        subs: vec![
            Sub { name: "all_counts", kind: Kind::Index { count: |t| t.pick(1201, 6001), exhaustive: true, f: all_counts } },
            Sub { name: "sampled", kind: Kind::Tape { max_len: 256, quick: 1_500, thorough: 20_000, f: sampled } },
            Sub { name: "high_levels", kind: Kind::Index { count: |t| t.pick(6, 12), exhaustive: false, f: high_levels } },
        ],
        known: vec![],
    }
}
