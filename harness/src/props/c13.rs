//! C13 — a sighash cache answers every query as a fresh one would, in any order.
use elements::sighash::SighashCache;
use elements::SchnorrSighashType;
use serde_json::json;

use super::c03::{self, Answer, PrevMode, Query};
use crate::engine::*;
use crate::ensure;

fn same(a: &Answer, b: &Answer) -> bool {
    match (a, b) {
        (Answer::Digest(x), Answer::Digest(y)) => x == y,
        (Answer::Err(_), Answer::Err(_)) => true,
        _ => false,
    }
}

fn histories(t: &mut Tape, ctx: &mut Ctx) -> R {
    let case = c03::gen_case(t);
    let mut live_tx = case.tx.clone();
    let mut model_tx = case.tx.clone();
    let spent = case.spent.clone();
    let mut cache = SighashCache::new(&mut live_tx);
    let nops = 2 + t.below(15);
    let mut kinds_seen: Vec<&'static str> = Vec::new();
    let mut witness_between = false;
    let mut one_query = false;
    let mut queries = 0;
    let mut trace = Vec::new();
    for step in 0..nops {
        match t.below(8) {
            0 => {
                // witness_mut
                let i = t.below(model_tx.input.len() + 1);
                let push = t.bool();
                let item = t.bytes(3);
                let got = guard::guard("witness_mut", 0, || match cache.witness_mut(i) {
                    Some(w) => {
                        if push {
                            w.push(item.clone())
                        } else {
                            w.clear()
                        }
                        true
                    }
                    None => false,
                })?;
                ensure!(got == (i < model_tx.input.len()), "witness_mut({}) returned {} for {} inputs", i, if got { "Some" } else { "None" }, model_tx.input.len());
                if got {
                    let w = &mut model_tx.input[i].witness.script_witness;
                    if push {
                        w.push(item)
                    } else {
                        w.clear()
                    }
                    if queries > 0 {
                        witness_between = true;
                    }
                }
                trace.push(json!({"witness_mut": i, "push": push}));
                ctx.class("op:witness_mut");
            }
            1 => {
                // ANYONECANPAY: One must equal All; non-ANYONECANPAY: One must be an error
                let ty = t.choose(&c03::SCHNORR_TYPES);
                let idx = t.below(model_tx.input.len());
                let mk = |prev: PrevMode| Query::Taproot { idx, ty, annex: None, leaf: None, prev, api: c03::TapApi::Generic, genesis: [7; 32] };
                let one = c03::lib_answer(&mut cache, &spent, &mk(PrevMode::One), false)?.0;
                let all = c03::lib_answer(&mut cache, &spent, &mk(PrevMode::All), false)?.0;
                ctx.evals_n(2);
                one_query = true;
                let acp = (ty as u8) & 0x80 != 0;
                let single_missing = (ty as u8) & 3 == 3 && idx >= model_tx.output.len();
                if acp {
                    if !same(&one, &all) {
                        if ty == SchnorrSighashType::AllPlusAnyoneCanPay && matches!(one, Answer::Err(_)) && ctx.is_known(c03::KF_ACP_ONE) {
                            // recorded finding
                        } else {
                            return Err(Failure::new(format!(
                                "taproot {} at input {}: Prevouts::One gives {:?} but Prevouts::All gives {:?} (step {})",
                                ty, idx, one, all, step
                            )));
                        }
                    }
                    if !single_missing && !matches!(all, Answer::Digest(_)) {
                        return Err(Failure::new(format!("taproot {} with all prevouts is an error: {:?}", ty, all)));
                    }
                } else {
                    ensure!(matches!(one, Answer::Err(_)), "taproot {} accepted a single spent output although it needs all of them", ty);
                }
                trace.push(json!({"one_vs_all": ty.to_string(), "index": idx}));
                ctx.class(&format!("op:one-vs-all:{}", if acp { "anyonecanpay" } else { "needs-all" }));
                queries += 1;
                if !kinds_seen.contains(&"taproot") {
                    kinds_seen.push("taproot");
                }
            }
            _ => {
                let mcase = c03::Case { tx: model_tx.clone(), spent: spent.clone() };
                let q = c03::gen_query(t, &mcase, true);
                let live = c03::lib_answer(&mut cache, &spent, &q, false)?;
                let mut fresh_cache = SighashCache::new(&model_tx);
                let fresh = c03::lib_answer(&mut fresh_cache, &spent, &q, false)?;
                ctx.eval();
                if !same(&live.0, &fresh.0) {
                    return Err(Failure::new(format!(
                        "step {}: the shared cache answers {:?} but a fresh cache answers {:?}\n query={}\n history={}",
                        step,
                        live.0,
                        fresh.0,
                        q.render(),
                        serde_json::Value::Array(trace.clone())
                    )));
                }
                // and both agree with the reference algorithm (C03 oracle)
                c03::compare(&model_tx, &spent, &q, &live, ctx)?;
                if let Query::Taproot { prev: PrevMode::One, .. } = &q {
                    one_query = true;
                }
                if !kinds_seen.contains(&q.kind()) {
                    kinds_seen.push(q.kind());
                }
                queries += 1;
                ctx.class(&format!("op:query:{}", q.kind()));
                trace.push(q.render());
            }
        }
    }
    drop(cache);
    ensure!(live_tx == model_tx, "the transaction behind the cache differs from the model after the history");
    let nt = (kinds_seen.len() >= 2 && queries >= 3) || witness_between || one_query;
    if nt {
        ctx.nontrivial(&format!("{}", serde_json::Value::Array(trace.clone())));
    }
    ctx.class(if nt { "history:non-trivial" } else { "history:trivial" });
    if witness_between {
        ctx.class("history:witness_mut-between-queries");
    }
    if ctx.wants_sample("history") && nt {
        ctx.sample("history", || json!({"inputs": model_tx.input.len(), "outputs": model_tx.output.len(), "ops": trace}));
    }
    Ok(())
}

pub fn property() -> Property {
    Property {
        id: "C13",
        rule: "histories: a transaction with spent outputs (as C03) and 2..16 operations against ONE SighashCache: queries \
               (legacy / segwit-v0 / taproot, any index, type, script / leaf / annex, prevouts All or One, also erroneous \
               ones), witness_mut push/clear (also out of range), and One-vs-All probes for each Schnorr type. Model: a fresh \
               cache over the current transaction per query; results (digest or error) must be equal at every step and equal \
               to the C03 reference; ANYONECANPAY types: One == All; other types: One is an error. Non-trivial: >=2 query \
               kinds with >=3 queries, or a witness_mut between queries, or a One query; distinct by rendered history.",
        assumptions: &["spent outputs are fixed for a cache (they are a function of the unchanged transaction's inputs)"],
        subs: vec![Sub { name: "histories", kind: Kind::Tape { max_len: 4000, quick: 225_000, thorough: 2_000_000, f: histories } }],
        known: c03::knowns().into_iter().filter(|k| k.key == c03::KF_ACP_ONE || k.key == c03::KF_LEGACY_SINGLE).collect(),
    }
}
