//! C13 — a sighash cache answers every query as a fresh one would, in any order.
use elements::sighash::SighashCache;
use elements::{SchnorrSighashType, Transaction, TxOut};
use serde_json::json;

use super::c03::{self, Answer, PrevMode, Query};
use crate::engine::*;
use crate::ensure;

fn same(a: &Answer, b: &Answer) -> bool {
    match (a, b) {
        (Answer::Digest(x), Answer::Digest(y)) => x == y,
        (Answer::Err(_), Answer::Err(_)) => true,
        (Answer::Skipped(_), Answer::Skipped(_)) => true,
        _ => false,
    }
}

fn histories(t: &mut Tape, ctx: &mut Ctx) -> R {
    let case = c03::gen_case(t);
    let mut live_tx = case.tx.clone();
    let mut model_tx = case.tx.clone();
    let spent = case.spent.clone();
    let mut cache = SighashCache::new(&mut live_tx);
    let nops = 2 + t.below(15);
    let mut kinds_seen: Vec<&'static str> = Vec::new();
    let mut witness_between = false;
    let mut one_query = false;
    let mut queries = 0;
    let mut trace = Vec::new();
    for step in 0..nops {
        match t.below(8) {
            0 => {
                // witness_mut
                let i = t.below(model_tx.input.len() + 1);
                let push = t.bool();
                let item = t.bytes(3);
                let in_range = i < model_tx.input.len();
                let got = match guard::guard("witness_mut", 0, || match cache.witness_mut(i) {
                    // beyond the inputs there is no witness to fill: whatever comes back is left alone
                    Some(w) if in_range => {
                        if push {
                            w.push(item.clone())
                        } else {
                            w.clear()
                        }
                        true
                    }
                    Some(_) => true,
                    None => false,
                }) {
                    Ok(g) => g,
                    Err(f) if !in_range => {
                        // the statement says nothing about an index beyond the inputs
                        let _ = f;
                        ctx.class("not-stated:witness_mut-beyond-inputs-panics");
                        false
                    }
                    Err(f) => return Err(f),
                };
                if in_range {
                    ensure!(got, "witness_mut({}) returned None for {} inputs: the witness cannot be filled in through the cache", i, model_tx.input.len());
                } else {
                    ctx.class(if got { "not-stated:witness_mut-beyond-inputs-some" } else { "witness_mut:beyond-inputs-none" });
                }
                if got && in_range {
                    let w = &mut model_tx.input[i].witness.script_witness;
                    if push {
                        w.push(item)
                    } else {
                        w.clear()
                    }
                    if queries > 0 {
                        witness_between = true;
                    }
                }
                trace.push(json!({"witness_mut": i, "push": push}));
                ctx.class("op:witness_mut");
            }
            1 => {
                // ANYONECANPAY: One must equal All; non-ANYONECANPAY: One must be an error
                let ty = t.choose(&c03::SCHNORR_TYPES);
                let idx = t.below(model_tx.input.len());
                let mk = |prev: PrevMode| Query::Taproot { idx, ty, annex: None, leaf: None, prev, api: c03::TapApi::Generic, genesis: [7; 32] };
                let one = c03::lib_answer(&mut cache, &spent, &mk(PrevMode::One), false)?.0;
                let all = c03::lib_answer(&mut cache, &spent, &mk(PrevMode::All), false)?.0;
                ctx.evals_n(2);
                one_query = true;
                let acp = (ty as u8) & 0x80 != 0;
                let single_missing = (ty as u8) & 3 == 3 && idx >= model_tx.output.len();
                if acp {
                    if !same(&one, &all) {
                        if ty == SchnorrSighashType::AllPlusAnyoneCanPay && matches!(one, Answer::Err(_)) && ctx.is_known(c03::KF_ACP_ONE) {
                            // recorded finding
                        } else {
                            return Err(Failure::new(format!(
                                "taproot {} at input {}: Prevouts::One gives {:?} but Prevouts::All gives {:?} (step {})",
                                ty, idx, one, all, step
                            )));
                        }
                    }
                    if !single_missing && !matches!(all, Answer::Digest(_)) {
                        return Err(Failure::new(format!("taproot {} with all prevouts is an error: {:?}", ty, all)));
                    }
                } else {
                    ensure!(matches!(one, Answer::Err(_)), "taproot {} accepted a single spent output although it needs all of them", ty);
                }
                trace.push(json!({"one_vs_all": ty.to_string(), "index": idx}));
                ctx.class(&format!("op:one-vs-all:{}", if acp { "anyonecanpay" } else { "needs-all" }));
                queries += 1;
                if !kinds_seen.contains(&"taproot") {
                    kinds_seen.push("taproot");
                }
            }
            _ => {
                let mcase = c03::Case { tx: model_tx.clone(), spent: spent.clone() };
                let q = c03::gen_query(t, &mcase, true);
                if c03::unstated(&q, model_tx.input.len()) {
                    // outside the quantifier: not put to the shared cache, nothing demanded
                    c03::observe_unstated(&model_tx, &spent, &q, ctx);
                    ctx.class("op:query:not-stated");
                    continue;
                }
                let live = c03::lib_answer(&mut cache, &spent, &q, false)?;
                let mut fresh_cache = SighashCache::new(&model_tx);
                let fresh = c03::lib_answer(&mut fresh_cache, &spent, &q, false)?;
                ctx.eval();
                if !same(&live.0, &fresh.0) {
                    return Err(Failure::new(format!(
                        "step {}: the shared cache answers {:?} but a fresh cache answers {:?}\n query={}\n history={}",
                        step,
                        live.0,
                        fresh.0,
                        q.render(),
                        serde_json::Value::Array(trace.clone())
                    )));
                }
                // and both agree with the reference algorithm (C03 oracle)
                c03::compare(&model_tx, &spent, &q, &live, ctx)?;
                if let Query::Taproot { prev: PrevMode::One, .. } = &q {
                    one_query = true;
                }
                if !kinds_seen.contains(&q.kind()) {
                    kinds_seen.push(q.kind());
                }
                queries += 1;
                ctx.class(&format!("op:query:{}", q.kind()));
                trace.push(q.render());
            }
        }
    }
    drop(cache);
    ensure!(live_tx == model_tx, "the transaction behind the cache differs from the model after the history");
    let nt = (kinds_seen.len() >= 2 && queries >= 3) || witness_between || one_query;
    if nt {
        ctx.nontrivial(&format!("{}", serde_json::Value::Array(trace.clone())));
    }
    ctx.class(if nt { "history:non-trivial" } else { "history:trivial" });
    if witness_between {
        ctx.class("history:witness_mut-between-queries");
    }
    if ctx.wants_sample("history") && nt {
        ctx.sample("history", || json!({"inputs": model_tx.input.len(), "outputs": model_tx.output.len(), "ops": trace}));
    }
    Ok(())
}

/// one query against the shared cache: equal to a fresh cache over the current transaction, and
/// equal to the C03 reference (digest, error where stated, signing message when requested)
#[allow(clippy::too_many_arguments)]
fn ask_both(
    cache: &mut SighashCache<&mut Transaction>,
    model_tx: &Transaction,
    spent: &[TxOut],
    q: &Query,
    want_message: bool,
    step: usize,
    trace: &[serde_json::Value],
    ctx: &mut Ctx,
) -> Result<Answer, Failure> {
    let live = c03::lib_answer_ord(cache, spent, q, want_message, true)?;
    let mut fresh_cache = SighashCache::new(model_tx);
    let fresh = c03::lib_answer(&mut fresh_cache, spent, q, false)?;
    ctx.eval();
    if !same(&live.0, &fresh.0) {
        return Err(Failure::new(format!(
            "step {}: the shared cache answers {:?} but a fresh cache answers {:?}\n query={}\n history={}",
            step,
            live.0,
            fresh.0,
            q.render(),
            serde_json::Value::Array(trace.to_vec())
        )));
    }
    if let Err(mut f) = c03::compare(model_tx, spent, q, &live, ctx) {
        f.msg = clip(format!("step {} on the shared cache: {}\n history={}", step, f.msg, serde_json::Value::Array(trace.to_vec())));
        return Err(f);
    }
    Ok(live.0)
}

fn with_prev(q: &Query, p: PrevMode) -> Query {
    match q {
        Query::Taproot { idx, ty, annex, leaf, api, genesis, .. } => {
            Query::Taproot { idx: *idx, ty: *ty, annex: annex.clone(), leaf: leaf.clone(), prev: p, api: api.clone(), genesis: *genesis }
        }
        other => other.clone(),
    }
}
fn with_idx(q: &Query, i: usize) -> Query {
    let mut q = q.clone();
    match &mut q {
        Query::Legacy { idx, .. } | Query::Segwit { idx, .. } | Query::Taproot { idx, .. } => *idx = i,
    }
    q
}

/// Histories over the extended generators of C03 (`gen_case_x` / `gen_query_x`) with operations the
/// plain histories lack: an earlier query repeated verbatim or with the other `Prevouts` kind, probes
/// in tape-chosen order (One->All, All->One, One->All->One, All->One of another input) that reuse the
/// annex / leaf / genesis / API of the previous taproot query, `witness_mut` aimed at the input the
/// next query signs (also 253 items at once), and the signing-message entry points on the shared cache.
fn histories_x(t: &mut Tape, ctx: &mut Ctx) -> R {
    let case = c03::gen_case_x(t);
    let mut live_tx = case.tx.clone();
    let mut model_tx = case.tx.clone();
    let spent = case.spent.clone();
    let n = model_tx.input.len();
    let mut cache = SighashCache::new(&mut live_tx);
    let nops = 2 + t.below(15);
    let mut kinds_seen: Vec<&'static str> = Vec::new();
    let mut witness_between = false;
    let mut one_query = false;
    let mut repeated = false;
    let mut queries = 0usize;
    let mut trace: Vec<serde_json::Value> = Vec::new();
    let mut asked: Vec<Query> = Vec::new();
    let mut aimed: Option<usize> = None;
    for step in 0..nops {
        let op = t.below(10);
        // the queries of this step
        let mut batch: Vec<Query> = Vec::new();
        match op {
            0 | 1 => {
                let i = t.below(n);
                let kind = match t.below(16) {
                    0..=8 => 0,  // push a 3-byte item
                    9..=12 => 1, // clear
                    _ => 2,      // 253 one-byte items: the witness stack count crosses the compact-size boundary
                };
                let item = t.bytes(3);
                let aim = t.bool();
                let got = guard::guard("witness_mut", 0, || match cache.witness_mut(i) {
                    Some(w) => {
                        match kind {
                            0 => w.push(item.clone()),
                            1 => w.clear(),
                            _ => w.extend((0..253).map(|k| vec![item[0].wrapping_add(k as u8)])),
                        }
                        true
                    }
                    None => false,
                })?;
                ensure!(got, "witness_mut({}) returned None for {} inputs: the witness cannot be filled in through the cache", i, n);
                let w = &mut model_tx.input[i].witness.script_witness;
                match kind {
                    0 => w.push(item.clone()),
                    1 => w.clear(),
                    _ => w.extend((0..253).map(|k| vec![item[0].wrapping_add(k as u8)])),
                }
                if queries > 0 {
                    witness_between = true;
                }
                if aim {
                    aimed = Some(i);
                }
                let kind_name = ["push", "clear", "push-253"][kind];
                trace.push(json!({"witness_mut": i, "kind": kind_name, "next-query-signs-it": aim}));
                ctx.class(&format!("op:witness_mut:{}", kind_name));
                if model_tx.input[i].asset_issuance != elements::AssetIssuance::null() {
                    ctx.class("op:witness_mut:on-issuance-input");
                }
                continue;
            }
            2 | 3 => {
                // probe: the same question with different Prevouts kinds, in a tape-chosen order
                let ty = t.choose(&c03::SCHNORR_TYPES);
                let idx = aimed.take().unwrap_or_else(|| t.below(n));
                let reuse = t.bool();
                let last_tap = asked.iter().rev().find(|q| matches!(q, Query::Taproot { .. }));
                let proto = match (reuse, last_tap) {
                    (true, Some(Query::Taproot { annex, leaf, api, genesis, .. })) => {
                        ctx.class("op:probe:reuses-previous-parameters");
                        Query::Taproot { idx, ty, annex: annex.clone(), leaf: leaf.clone(), prev: PrevMode::All, api: api.clone(), genesis: *genesis }
                    }
                    _ => Query::Taproot { idx, ty, annex: None, leaf: None, prev: PrevMode::All, api: c03::TapApi::Generic, genesis: [7; 32] },
                };
                let order: &[PrevMode] = match t.below(5) {
                    0 => &[PrevMode::One, PrevMode::All],
                    1 => &[PrevMode::All, PrevMode::One],
                    2 => &[PrevMode::One, PrevMode::All, PrevMode::One],
                    3 => &[PrevMode::All, PrevMode::OneWrongIndex],
                    _ => &[PrevMode::All, PrevMode::One, PrevMode::All],
                };
                for p in order {
                    batch.push(with_prev(&proto, p.clone()));
                }
                ctx.class(&format!("op:probe:{}", order.iter().map(|p| format!("{:?}", p)).collect::<Vec<_>>().join(">")));
                ctx.class(&format!("op:probe:{}", if (ty as u8) & 0x80 != 0 { "anyonecanpay" } else { "needs-all" }));
                one_query = true;
            }
            4 if !asked.is_empty() => {
                // an earlier query again: verbatim, or with the other Prevouts kind
                let q = asked[t.below(asked.len())].clone();
                let q = match (&q, t.below(3)) {
                    (Query::Taproot { prev, .. }, 1 | 2) => {
                        let other = if *prev == PrevMode::All { PrevMode::One } else { PrevMode::All };
                        ctx.class(&format!("op:repeat:{:?}-then-{:?}", prev, other));
                        one_query = true;
                        with_prev(&q, other)
                    }
                    _ => {
                        ctx.class("op:repeat:verbatim");
                        q
                    }
                };
                aimed = None;
                repeated = true;
                batch.push(q);
            }
            _ => {
                let mut q = c03::gen_query_x(t, n, true);
                if let Some(i) = aimed.take() {
                    if q.idx() < n {
                        q = with_idx(&q, i);
                        ctx.class("op:query:signs-the-input-just-filled");
                    }
                }
                batch.push(q);
            }
        }
        let mut answers: Vec<Answer> = Vec::new();
        for q in &batch {
            let want_message = t.chance(64);
            if c03::unstated(q, n) {
                // outside the quantifier: not put to the shared cache, nothing demanded
                c03::observe_unstated(&model_tx, &spent, q, ctx);
                ctx.class("op:query:not-stated");
                answers.push(Answer::Skipped("not stated".into()));
                continue;
            }
            trace.push(q.render());
            let a = ask_both(&mut cache, &model_tx, &spent, q, want_message, step, &trace, ctx)?;
            if want_message {
                ctx.class("x:signing-message-from-shared-cache");
            }
            c03::class_x(&model_tx, &spent, q, ctx);
            if let Query::Taproot { prev: PrevMode::One, .. } = q {
                one_query = true;
            }
            if !kinds_seen.contains(&q.kind()) {
                kinds_seen.push(q.kind());
            }
            queries += 1;
            ctx.class(&format!("op:query:{}", q.kind()));
            answers.push(a);
            asked.push(q.clone());
        }
        // C13, second sentence, stated directly on the probe's answers (compare() has already matched
        // each of them against the reference): under ANYONECANPAY One and All give the same digest
        if matches!(op, 2 | 3) {
            if let Some(Query::Taproot { ty, .. }) = batch.first() {
                if (*ty as u8) & 0x80 != 0 {
                    let digests: Vec<&Answer> = batch
                        .iter()
                        .zip(&answers)
                        .filter(|(q, _)| matches!(q, Query::Taproot { prev: PrevMode::All | PrevMode::One, .. }) && !c03::unstated(q, n))
                        .map(|(_, a)| a)
                        .collect();
                    for w in digests.windows(2) {
                        ensure!(same(w[0], w[1]), "taproot {}: Prevouts::One and Prevouts::All answer differently in one probe: {:?} vs {:?} (step {})", ty, w[0], w[1], step);
                    }
                }
            }
        }
    }
    drop(cache);
    ensure!(live_tx == model_tx, "the transaction behind the cache differs from the model after the history");
    let nt = (kinds_seen.len() >= 2 && queries >= 3) || witness_between || one_query || repeated;
    if nt {
        ctx.nontrivial(&format!("{}", serde_json::Value::Array(trace.clone())));
    }
    ctx.class(if nt { "history:non-trivial" } else { "history:trivial" });
    if witness_between {
        ctx.class("history:witness_mut-between-queries");
    }
    if repeated {
        ctx.class("history:repeats-a-query");
    }
    if ctx.wants_sample("history-x") && nt {
        ctx.sample("history-x", || json!({"inputs": model_tx.input.len(), "outputs": model_tx.output.len(), "ops": trace}));
    }
    Ok(())
}

pub fn property() -> Property {
    Property {
        id: "C13",
        rule: "histories: a transaction with spent outputs (as C03) and 2..16 operations against ONE SighashCache: queries \
               (legacy / segwit-v0 / taproot, any index, type, script / leaf / annex, prevouts All or One), witness_mut \
               push/clear, and One-vs-All probes for each Schnorr type. Model: a fresh cache over the current transaction \
               per query; results (digest or error) must be equal at every step and equal to the C03 reference; \
               ANYONECANPAY types: One == All; other types: One is an error. Queries outside the quantifier (All of the \
               wrong length, One of another input under ANYONECANPAY, index beyond the inputs) never reach the shared \
               cache: they go to a throw-away cache and the outcome is only counted (classes not-stated:*); witness_mut \
               beyond the inputs is issued but nothing is demanded of it. \
               histories_x: the same model over C03's extended generators (compact-size-boundary lengths and counts, \
               ScriptPath API, null-valued issuances with entropy, spent outputs with witness) with further operations: an \
               earlier query repeated verbatim or with the other Prevouts kind; probes in tape-chosen order (One>All, \
               All>One, One>All>One, All>One-of-another-input, All>One>All) that reuse annex / leaf / genesis / API of the \
               previous taproot query half of the time; witness_mut (push, clear, 253 items at once) aimed half of the time \
               at the input the next query signs; the signing message requested from the shared cache for 1/4 of the \
               queries and compared with the reference message. Non-trivial: >=2 query kinds with >=3 queries, or a \
               witness_mut between queries, or a One query, or a repeated query; distinct by rendered history.",
        assumptions: &["spent outputs are fixed for a cache (they are a function of the unchanged transaction's inputs)"],
        subs: vec![
            Sub { name: "histories", kind: Kind::Tape { max_len: 4000, quick: 225_000, thorough: 2_000_000, f: histories } },
            Sub { name: "histories_x", kind: Kind::Tape { max_len: 4000, quick: 50_000, thorough: 1_000_000, f: histories_x } },
        ],
        known: c03::knowns().into_iter().filter(|k| k.key == c03::KF_ACP_ONE || k.key == c03::KF_LEGACY_SINGLE).collect(),
    }
}
