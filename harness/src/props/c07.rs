//! C07 — PSET serialization round-trips and re-serialization is a fixpoint.
use std::str::FromStr;

use elements::confidential::AssetBlindingFactor;
use elements::encode::{deserialize, serialize};
use elements::pset::elip100::{AssetMetadata, TokenMetadata};
use elements::pset::PartiallySignedTransaction as Pset;
use elements::OutPoint;
use serde_json::json;

use crate::engine::*;
use crate::gen::ext_g5 as gx;
use crate::gen::pset::{self as gp, PsetOpts};
use crate::gen::{self};
use crate::refimpl::psetraw::{self, RawMap, RawPair};
use crate::ensure;

pub const KF_TAPTREE: &str = "taptree-codec-reverses-leaf-order";

fn ser(p: &Pset) -> Result<Vec<u8>, Failure> {
    guard::guard("serialize(pset)", 0, || serialize(p))
}
fn de(b: &[u8]) -> Result<Result<Pset, elements::encode::Error>, Failure> {
    guard::guard("deserialize(pset)", b.len(), || deserialize::<Pset>(b))
}

/// equality including the tap-tree leaves that `TapTree`'s PartialEq (root hash only) cannot see
pub fn pset_eq(a: &Pset, b: &Pset) -> bool {
    a == b && gp::all_tap_leaves(a) == gp::all_tap_leaves(b)
}

/// For an accepted byte string: c = encode(decode(b)) decodes to an equal PSET and re-encodes to itself.
/// Returns whether `b` was accepted.
pub fn fixpoint(b: &[u8], ctx: &mut Ctx) -> Result<Option<Pset>, Failure> {
    ctx.eval();
    let p = match de(b)? {
        Err(_) => return Ok(None),
        Ok(p) => p,
    };
    let c = ser(&p)?;
    let p2 = match de(&c)? {
        Ok(p2) => p2,
        Err(e) => return Err(Failure::new(format!("canonical re-encoding of an accepted PSET is rejected: {}\n input ={}\n reenc ={}", e, hex(b), hex(&c)))),
    };
    if !pset_eq(&p, &p2) {
        return Err(Failure::new(format!("decode(encode(decode(b))) != decode(b)\n input ={}\n reenc ={}", hex(b), hex(&c))));
    }
    let c2 = ser(&p2)?;
    if c2 != c {
        // tap-tree leaf order oscillation is a listed finding when (and only when) it is the sole difference
        let only_taptree = p.outputs().iter().any(|o| o.tap_tree.is_some()) && {
            let mut x = p2.clone();
            let mut y = match de(&c2)? {
                Ok(y) => y,
                Err(_) => return Err(Failure::new("third decode failed".to_string())),
            };
            for o in x.outputs_mut() {
                o.tap_tree = None;
            }
            for o in y.outputs_mut() {
                o.tap_tree = None;
            }
            serialize(&x) == serialize(&y)
        };
        if only_taptree && ctx.is_known(KF_TAPTREE) {
            return Ok(Some(p));
        }
        return Err(Failure::new(format!("re-serialization is not a fixpoint: encode(decode(c)) != c; {}", first_diff(&c, &c2))));
    }
    Ok(Some(p))
}

/// where two byte strings first differ, with context
pub fn first_diff(a: &[u8], b: &[u8]) -> String {
    let n = a.iter().zip(b.iter()).take_while(|(x, y)| x == y).count();
    let lo = n.saturating_sub(24);
    format!(
        "lengths {} / {}, first difference at offset {}:\n a[{}..]={}\n b[{}..]={}",
        a.len(),
        b.len(),
        n,
        lo,
        hex(&a[lo..(n + 40).min(a.len())]),
        lo,
        hex(&b[lo..(n + 40).min(b.len())])
    )
}

/// data stored through the ELIP-100 / ELIP-102 accessors, to be read back after a hop
#[derive(Default)]
struct Extras {
    elip: Vec<(elements::AssetId, AssetMetadata)>,
    elip_tok: Vec<(elements::AssetId, TokenMetadata)>,
    /// (is input, position, value)
    abfs: Vec<(bool, usize, AssetBlindingFactor)>,
}

/// independent decoder of RFC 4648 base64 (standard alphabet; padding optional)
fn ref_base64_decode(s: &str) -> Option<Vec<u8>> {
    const ALPHABET: &[u8; 64] = b"ABCDEFGHIJKLMNOPQRSTUVWXYZabcdefghijklmnopqrstuvwxyz0123456789+/";
    let mut out = Vec::with_capacity(s.len() / 4 * 3 + 3);
    let (mut acc, mut bits) = (0u32, 0u32);
    let mut padding = false;
    for c in s.bytes() {
        if c == b'=' {
            padding = true;
            continue;
        }
        if padding {
            return None;
        }
        let v = ALPHABET.iter().position(|a| *a == c)? as u32;
        acc = (acc << 6) | v;
        bits += 6;
        if bits >= 8 {
            bits -= 8;
            out.push((acc >> bits) as u8);
            acc &= (1 << bits) - 1;
        }
    }
    Some(out)
}

/// The oracle of the first sentence of the statement for one well-formed PSET: binary and base64 hop
/// give an equal PSET (tap trees leaf by leaf), the accessors return what was stored, the encoding is
/// its own fixpoint. Returns the encoding and the base64 text.
fn hop_oracle(p: &Pset, ex: &Extras, ctx: &mut Ctx) -> Result<(Vec<u8>, String), Failure> {
    let bytes = ser(p)?;
    ctx.eval();
    let back = match de(&bytes)? {
        Ok(b) => b,
        Err(e) => {
            return Err(Failure::new(format!(
                "a well-formed PSET does not deserialize from its own serialization: {} ({:?})\n features={:?}\n bytes={}",
                e,
                e,
                gp::pset_features(p),
                hex(&bytes)
            )))
        }
    };
    if &back != p {
        if back.inputs().len() + back.outputs().len() > 8 {
            return Err(Failure::new(format!(
                "deserialize(serialize(p)) != p (inputs {} / {}, outputs {} / {})\n bytes={}",
                p.inputs().len(),
                back.inputs().len(),
                p.outputs().len(),
                back.outputs().len(),
                hex(&bytes)
            )));
        }
        return Err(Failure::new(format!("deserialize(serialize(p)) != p\n p   ={:?}\n back={:?}", p, back)));
    }
    let (la, lb) = (gp::all_tap_leaves(p), gp::all_tap_leaves(&back));
    if la != lb {
        return Err(Failure::new(format!("tap tree leaves differ after a serialization hop: before={:?} after={:?}", la, lb)));
    }
    // base64 text
    let text = guard::guard("pset.to_string", 0, || p.to_string())?;
    match guard::guard("Pset::from_str", text.len(), || Pset::from_str(&text))? {
        Ok(b2) => ensure!(pset_eq(&b2, p), "from_str(to_string(p)) != p"),
        Err(e) => return Err(Failure::new(format!("from_str rejects the PSET's own base64 form: {}", e))),
    }
    // the text is base64 (RFC 4648 standard alphabet) of the binary serialization, by an independent decoder
    match ref_base64_decode(&text) {
        Some(b) if b == bytes => {}
        Some(b) => return Err(Failure::new(format!("to_string(p) is not the base64 form of serialize(p); {}", first_diff(&bytes, &b)))),
        None => {
            return Err(Failure::new(format!(
                "to_string(p) is not RFC 4648 base64 text: {}",
                text.chars().take(120).collect::<String>()
            )))
        }
    }
    // accessors after the hop
    for (id, m) in &ex.elip {
        match guard::guard("get_asset_metadata", 0, || back.get_asset_metadata(*id))? {
            Some(Ok(g)) => ensure!(
                &g == m,
                "asset metadata differs after a hop (contract of {} bytes): got contract of {} bytes, prevout {:?} vs {:?}",
                m.contract().len(),
                g.contract().len(),
                g.issuance_prevout(),
                m.issuance_prevout()
            ),
            other => {
                return Err(Failure::new(format!(
                    "asset metadata (contract of {} bytes) lost after a hop: {:?}",
                    m.contract().len(),
                    other.map(|r| r.map(|_| ()).map_err(|e| e.to_string()))
                )))
            }
        }
    }
    for (id, m) in &ex.elip_tok {
        match guard::guard("get_token_metadata", 0, || back.get_token_metadata(*id))? {
            Some(Ok(g)) => ensure!(&g == m, "token metadata differs after a hop"),
            other => return Err(Failure::new(format!("token metadata lost after a hop: {:?}", other.map(|r| r.is_ok())))),
        }
    }
    for (is_in, k, abf) in &ex.abfs {
        let got = if *is_in { back.inputs().get(*k).and_then(|i| i.get_abf()) } else { back.outputs().get(*k).and_then(|o| o.get_abf()) };
        match got {
            Some(Ok(g)) => ensure!(&g == abf, "ELIP-102 abf differs after a hop"),
            other => {
                return Err(Failure::new(format!(
                    "ELIP-102 abf {:?} of {} {} lost after a hop: {:?}",
                    abf,
                    if *is_in { "input" } else { "output" },
                    k,
                    other.map(|r| r.map(|_| ()).map_err(|e| e.to_string()))
                )))
            }
        }
    }
    // the encoding of a well-formed PSET is itself canonical
    match fixpoint(&bytes, ctx)? {
        Some(_) => {}
        None => return Err(Failure::new("own serialization rejected on second decode".to_string())),
    }
    // `back == p` makes the re-encoding of `back` equal to `bytes` whenever equality is structural; it is
    // not for tap trees (TapTree compares root hashes only, and a branch hash is symmetric in its
    // children), so PSETs with a tap tree of >= 2 leaves are left to the fixpoint clause above
    let multi_leaf = p.outputs().iter().filter_map(|o| o.tap_tree.as_ref()).any(|tt| gp::tap_tree_leaves(tt).len() >= 2);
    if !multi_leaf {
        let c = ser(&back)?;
        if c != bytes {
            return Err(Failure::new(format!("serialize(deserialize(serialize(p))) != serialize(p); {}", first_diff(&bytes, &c))));
        }
    }
    Ok((bytes, text))
}

fn roundtrip(t: &mut Tape, ctx: &mut Ctx) -> R {
    let mut p = gp::gen_pset(t, &PsetOpts::default());
    // ELIP-100 / ELIP-102 data set through the accessors
    let mut ex = Extras::default();
    if t.chance(80) {
        let id = gen::gen_asset_id(t);
        let l = t.below(60);
        let contract: String = (0..l).map(|_| t.choose(&['{', '}', '"', 'a', ':', '1', ' ', 'é', 'x'])).collect();
        let m = AssetMetadata::new(contract, OutPoint { txid: gen::gen_txid(t), vout: t.edgy_u32() });
        let prev = guard::guard("add_asset_metadata", 0, || p.add_asset_metadata(id, &m))?;
        if prev.is_some() {
            // (the return value of add_* is outside the statement: counted, not asserted)
            ctx.class("elip100:add-returned-a-previous-value");
        }
        ex.elip.push((id, m));
        let tid = gen::gen_asset_id(t);
        let tm = TokenMetadata::new(gen::gen_asset_id(t), t.bool());
        guard::guard("add_token_metadata", 0, || p.add_token_metadata(tid, &tm))?;
        ex.elip_tok.push((tid, tm));
    }
    if t.chance(80) {
        if !p.inputs().is_empty() {
            let k = t.below(p.inputs().len());
            let abf = crate::gen::ct::abf_from(t, 7);
            p.inputs_mut()[k].set_abf(abf);
            ex.abfs.push((true, k, abf));
        }
        if !p.outputs().is_empty() {
            let k = t.below(p.outputs().len());
            let abf = crate::gen::ct::abf_from(t, 8);
            p.outputs_mut()[k].set_abf(abf);
            ex.abfs.push((false, k, abf));
        }
    }
    let (bytes, text) = hop_oracle(&p, &ex, ctx)?;
    let feats = gp::pset_features(&p);
    for f in &feats {
        ctx.class(&format!("feature:{}", f));
    }
    ctx.class(&format!("inputs:{} outputs:{}", p.inputs().len(), p.outputs().len()));
    let multi_leaf = p.outputs().iter().filter_map(|o| o.tap_tree.as_ref()).any(|tt| gp::tap_tree_leaves(tt).len() >= 2);
    if multi_leaf {
        ctx.class("feature:tap-tree>=2-leaves");
    }
    if feats.iter().any(|f| ["in-taproot", "preimages", "pegin-fields", "proof-fields"].contains(f)) || multi_leaf {
        ctx.nontrivial(&bytes);
    }
    if ctx.wants_sample("pset") && feats.len() >= 3 {
        ctx.sample("pset", || json!({"inputs": p.inputs().len(), "outputs": p.outputs().len(), "features": feats, "encoded_len": bytes.len(),
            "base64_prefix": text.chars().take(60).collect::<String>()}));
    }
    Ok(())
}

/// insert_input shifts every blinder index >= pos by one: keep the indices of the generated outputs inside
/// the input range (unmarked outputs may carry any u32) so that the shift stays representable. (With
/// blinder_index == u32::MAX, insert_input panics with `attempt to add with overflow` in a build with overflow
/// checks: outside this property, excluded here by construction.)
fn clamp_blinder_indices(p: &mut Pset) {
    let nin = p.inputs().len().max(1);
    for o in p.outputs_mut() {
        if let Some(i) = o.blinder_index {
            if i as usize >= nin {
                o.blinder_index = Some((i as usize % nin) as u32);
            }
        }
    }
}

/// 1..3 edits through the count-maintaining API: insert / remove an input / output at a tape-chosen position
fn apply_history(t: &mut Tape, p: &mut Pset, ctx: &mut Ctx) -> R {
    clamp_blinder_indices(p);
    let n = 1 + t.below(3);
    for _ in 0..n {
        match t.below(4) {
            0 => {
                let pos = t.below(p.inputs().len() + 1);
                let i = gp::gen_input(t, 60);
                clamp_blinder_indices(p);
                guard::guard("insert_input", 0, || p.insert_input(i, pos))?;
                ctx.class("ext:history:insert_input");
            }
            1 => {
                let pos = t.below(p.outputs().len() + 1);
                let o = gp::gen_output(t, 60, p.inputs().len());
                guard::guard("insert_output", 0, || p.insert_output(o, pos))?;
                ctx.class("ext:history:insert_output");
            }
            2 => {
                if p.inputs().is_empty() {
                    let i = gp::gen_input(t, 60);
                    clamp_blinder_indices(p);
                    guard::guard("insert_input", 0, || p.insert_input(i, 0))?;
                    ctx.class("ext:history:insert_input");
                } else {
                    let k = t.below(p.inputs().len());
                    let r = guard::guard("remove_input", 0, || p.remove_input(k))?;
                    ensure!(r.is_some(), "remove_input({}) of a PSET with {} inputs returned None", k, p.inputs().len());
                    ctx.class("ext:history:remove_input");
                }
            }
            _ => {
                if p.outputs().is_empty() {
                    let o = gp::gen_output(t, 60, p.inputs().len());
                    guard::guard("insert_output", 0, || p.insert_output(o, 0))?;
                    ctx.class("ext:history:insert_output");
                } else {
                    let k = t.below(p.outputs().len());
                    let r = guard::guard("remove_output", 0, || p.remove_output(k))?;
                    ensure!(r.is_some(), "remove_output({}) of a PSET with {} outputs returned None", k, p.outputs().len());
                    ctx.class("ext:history:remove_output");
                }
            }
        }
    }
    Ok(())
}

/// roundtrip over the shapes the shared generator does not reach (review g5, C07-2..6): every case applies
/// one or two extensions to a generated PSET and runs the same oracle as `roundtrip`
fn roundtrip_ext(t: &mut Tape, ctx: &mut Ctx) -> R {
    use elements::pset::raw::ProprietaryKey;
    let mut p = gp::gen_pset(t, &PsetOpts::default());
    let mut ex = Extras::default();
    let mut shapes: Vec<&'static str> = Vec::new();
    let n_ext = 1 + t.below(2);
    for _ in 0..n_ext {
        match t.below(12) {
            11 => {
                // foreign proprietary records that look like Elements fields in everything but the prefix: the
                // subtype of an assigned `pset` field, and in the global map the exact shape of a blinding scalar
                // (subtype 0x00, 32 bytes of key data, empty value). They must stay what they are.
                let prefix: Vec<u8> = t.choose(&[&b"pse"[..], &b"psett"[..], &b"PSET"[..], &b""[..], &b"elements"[..], &b"pset_hww"[..]]).to_vec();
                match t.below(3) {
                    1 if !p.inputs().is_empty() => {
                        let k = t.below(p.inputs().len());
                        let key = ProprietaryKey { prefix, subtype: t.below(0x14) as u8, key: if t.bool() { vec![] } else { t.bytes(32) } };
                        let vl = t.choose(&[0usize, 1, 8, 32, 33]);
                        p.inputs_mut()[k].proprietary.insert(key, t.bytes(vl));
                    }
                    2 if !p.outputs().is_empty() => {
                        let k = t.below(p.outputs().len());
                        let key = ProprietaryKey { prefix, subtype: t.below(0x0c) as u8, key: if t.bool() { vec![] } else { t.bytes(32) } };
                        let vl = t.choose(&[0usize, 1, 4, 8, 32, 33]);
                        p.outputs_mut()[k].proprietary.insert(key, t.bytes(vl));
                    }
                    _ => {
                        let scalar_shape = t.bool();
                        let key = ProprietaryKey { prefix, subtype: if scalar_shape { 0 } else { t.below(3) as u8 }, key: t.bytes(32) };
                        let vl = if scalar_shape { 0 } else { t.choose(&[0usize, 1, 32]) };
                        p.global.proprietary.insert(key, t.bytes(vl));
                    }
                }
                shapes.push("foreign-proprietary-lookalike");
            }
            0 => {
                // values the shared generators never draw: the zero tweak as issuance blinding nonce (what
                // Input::from_txin stores for every new issuance), the zero asset blinding factor, a
                // pset-prefixed output key of the unassigned subtype 0x00
                if p.inputs().is_empty() {
                    p.add_input(gp::gen_input(t, 40));
                }
                if p.outputs().is_empty() {
                    let n = p.inputs().len();
                    p.add_output(gp::gen_output(t, 40, n));
                }
                let which = t.below(3);
                if which == 0 {
                    let k = t.below(p.inputs().len());
                    p.inputs_mut()[k].issuance_blinding_nonce = Some(elements::secp256k1_zkp::ZERO_TWEAK);
                    shapes.push("zero-issuance-nonce");
                } else if which == 1 {
                    let abf = gx::zero_abf();
                    if t.bool() {
                        let k = t.below(p.inputs().len());
                        p.inputs_mut()[k].set_abf(abf);
                        ex.abfs.retain(|(is_in, j, _)| !(*is_in && *j == k));
                        ex.abfs.push((true, k, abf));
                    } else {
                        let k = t.below(p.outputs().len());
                        p.outputs_mut()[k].set_abf(abf);
                        ex.abfs.retain(|(is_in, j, _)| !(!*is_in && *j == k));
                        ex.abfs.push((false, k, abf));
                    }
                    shapes.push("zero-abf");
                } else {
                    let k = t.below(p.outputs().len());
                    let kl = t.below(5);
                    let key = ProprietaryKey { prefix: b"pset".to_vec(), subtype: 0x00, key: t.bytes(kl) };
                    let vl = t.below(12);
                    p.outputs_mut()[k].proprietary.insert(key, t.bytes(vl));
                    shapes.push("output-pset-subtype-0x00");
                }
            }
            1 | 2 => {
                apply_history(t, &mut p, ctx)?;
                // positions moved: accessor expectations recorded so far refer to old positions
                ex.abfs.clear();
                shapes.push("history-edits");
            }
            3 => {
                // a decoded PSET is edited and encoded again
                let b = ser(&p)?;
                let mut q = match de(&b)? {
                    Ok(q) => q,
                    Err(e) => return Err(Failure::new(format!("a well-formed PSET does not deserialize from its own serialization: {}\n bytes={}", e, hex(&b)))),
                };
                clamp_blinder_indices(&mut q);
                if t.bool() {
                    let i = gp::gen_input(t, 60);
                    guard::guard("add_input", 0, || q.add_input(i))?;
                } else {
                    let o = gp::gen_output(t, 60, q.inputs().len());
                    guard::guard("add_output", 0, || q.add_output(o))?;
                }
                if t.bool() {
                    apply_history(t, &mut q, ctx)?;
                }
                p = q;
                ex.abfs.clear();
                shapes.push("decoded-then-edited");
            }
            4 => {
                // unknown pair whose raw key length sits at the compact-size boundary
                let vl = t.below(8);
                match t.below(3) {
                    1 if !p.inputs().is_empty() => {
                        let k = t.below(p.inputs().len());
                        let key = gx::gen_long_unknown_key(t, 1);
                        p.inputs_mut()[k].unknown.insert(key, t.bytes(vl));
                    }
                    2 if !p.outputs().is_empty() => {
                        let k = t.below(p.outputs().len());
                        let key = gx::gen_long_unknown_key(t, 2);
                        p.outputs_mut()[k].unknown.insert(key, t.bytes(vl));
                    }
                    _ => {
                        let key = gx::gen_long_unknown_key(t, 0);
                        p.global.unknown.insert(key, t.bytes(vl));
                    }
                }
                shapes.push("long-unknown-key");
            }
            5 => {
                let vl = t.below(8);
                match t.below(3) {
                    1 if !p.inputs().is_empty() => {
                        let k = t.below(p.inputs().len());
                        let key = gx::gen_long_prop_key(t, 1);
                        p.inputs_mut()[k].proprietary.insert(key, t.bytes(vl));
                    }
                    2 if !p.outputs().is_empty() => {
                        let k = t.below(p.outputs().len());
                        let key = gx::gen_long_prop_key(t, 2);
                        p.outputs_mut()[k].proprietary.insert(key, t.bytes(vl));
                    }
                    _ => {
                        let key = gx::gen_long_prop_key(t, 0);
                        p.global.proprietary.insert(key, t.bytes(vl));
                    }
                }
                shapes.push("long-proprietary-key");
            }
            6 => {
                if p.inputs().is_empty() {
                    p.add_input(gp::gen_input(t, 40));
                }
                let k = t.below(p.inputs().len());
                if let Some(cb) = gx::gen_deep_control_block(t) {
                    let depth = cb.merkle_branch.as_inner().len();
                    p.inputs_mut()[k].tap_scripts.insert(cb, (gen::gen_script(t, false), gp::gen_leaf_version(t)));
                    shapes.push(if depth >= 127 { "control-block-depth>=127" } else { "control-block-depth-6..8" });
                }
            }
            7 => {
                if p.outputs().is_empty() {
                    let n = p.inputs().len();
                    p.add_output(gp::gen_output(t, 40, n));
                }
                let k = t.below(p.outputs().len());
                if let Some((tt, maxd)) = gx::gen_deep_tap_tree(t) {
                    p.outputs_mut()[k].tap_tree = Some(tt);
                    shapes.push(if maxd >= 127 { "tap-tree-depth>=127" } else { "tap-tree-depth-21..64" });
                }
            }
            8 | 9 => {
                // ELIP-100: 1..3 assets, contract lengths on both sides of the 253-byte boundary
                let n = 1 + t.below(3);
                for _ in 0..n {
                    let id = gen::gen_asset_id(t);
                    let (contract, label) = gx::gen_contract(t);
                    let m = AssetMetadata::new(contract, OutPoint { txid: gen::gen_txid(t), vout: t.edgy_u32() });
                    guard::guard("add_asset_metadata", 0, || p.add_asset_metadata(id, &m))?;
                    ex.elip.retain(|(i, _)| *i != id);
                    ex.elip.push((id, m));
                    ctx.class(&format!("ext:elip100-contract-len:{}", label));
                    if t.bool() {
                        let tid = gen::gen_asset_id(t);
                        let tm = TokenMetadata::new(gen::gen_asset_id(t), t.bool());
                        guard::guard("add_token_metadata", 0, || p.add_token_metadata(tid, &tm))?;
                        ex.elip_tok.retain(|(i, _)| *i != tid);
                        ex.elip_tok.push((tid, tm));
                    }
                }
                shapes.push(if n >= 2 { "elip100-several-assets" } else { "elip100-one-asset" });
            }
            _ => {
                // >= 253 maps: the declared count needs a 3-byte compact size
                let target = t.choose(&gx::BIG_COUNTS);
                if t.bool() {
                    let have = p.inputs().len();
                    gx::add_minimal_inputs(t, &mut p, target.saturating_sub(have));
                    shapes.push("inputs>=252");
                } else {
                    let have = p.outputs().len();
                    gx::add_minimal_outputs(t, &mut p, target.saturating_sub(have));
                    shapes.push("outputs>=252");
                }
            }
        }
    }
    let (bytes, _text) = hop_oracle(&p, &ex, ctx)?;
    for s in &shapes {
        ctx.class(&format!("ext:{}", s));
    }
    if !shapes.is_empty() {
        ctx.nontrivial(&bytes);
    }
    if let Some(s) = shapes.first() {
        if ctx.wants_sample(s) {
            ctx.sample(s, || json!({"shapes": shapes, "inputs": p.inputs().len(), "outputs": p.outputs().len(), "encoded_len": bytes.len()}));
        }
    }
    Ok(())
}

fn shuffle<T>(t: &mut Tape, v: &mut [T]) {
    for i in (1..v.len()).rev() {
        let k = t.below(i + 1);
        v.swap(i, k);
    }
}

const GLOBAL_MANDATORY: [u8; 4] = [0x02, 0x04, 0x05, 0xfb];

/// byte-level variants of a valid encoding through the raw splitter
fn byte_variants(t: &mut Tape, ctx: &mut Ctx) -> R {
    let p = gp::gen_pset(t, &PsetOpts::default());
    let bytes = ser(&p)?;
    let Some(maps) = psetraw::split(&bytes) else {
        return Err(Failure::panic("raw splitter cannot split a library encoding".to_string(), "src/refimpl/psetraw.rs".into()));
    };
    if psetraw::join(&maps) != bytes {
        return Err(Failure::panic("raw splitter does not re-join identically".to_string(), "src/refimpl/psetraw.rs".into()));
    }
    let nin = p.inputs().len();
    let mut m: Vec<RawMap> = maps.clone();
    let kind = t.below(8);
    let label;
    let mut must_reject = false;
    match kind {
        0 => {
            label = "reorder-pairs";
            for map in m.iter_mut() {
                shuffle(t, map);
            }
        }
        1 => {
            label = "duplicate-pair";
            let mi = t.below(m.len());
            if m[mi].is_empty() {
                return Ok(());
            }
            let pi = t.below(m[mi].len());
            let mut dup = m[mi][pi].clone();
            if t.bool() && !dup.value.is_empty() {
                // same key, another value
                let k = t.below(dup.value.len());
                dup.value[k] ^= 1;
            }
            let at = t.below(m[mi].len() + 1);
            m[mi].insert(at, dup);
            must_reject = true;
        }
        2 => {
            label = "delete-mandatory-pair";
            let mi = t.below(m.len());
            let wanted: &[u8] = if mi == 0 { &GLOBAL_MANDATORY } else if mi <= nin { &[0x0e, 0x0f] } else { &[0x04] };
            let w = wanted[t.below(wanted.len())];
            let before = m[mi].len();
            m[mi].retain(|pr| !(pr.key.len() == 1 && pr.key[0] == w));
            if m[mi].len() == before {
                return Ok(());
            }
            must_reject = true;
        }
        3 => {
            label = "count-changed";
            let w = if t.bool() { 0x04 } else { 0x05 };
            let mut changed = false;
            for pr in m[0].iter_mut() {
                if pr.key == [w] && pr.value.len() == 1 {
                    let old = pr.value[0];
                    let new = if t.bool() || old == 0 { old + 1 } else { old - 1 };
                    pr.value[0] = new;
                    changed = true;
                }
            }
            if !changed {
                return Ok(());
            }
            must_reject = true;
        }
        4 => {
            label = "preimage-byte-flipped";
            let mut done = false;
            for map in m.iter_mut().skip(1).take(nin) {
                for pr in map.iter_mut() {
                    if !done && matches!(pr.key.first(), Some(0x0a..=0x0d)) && pr.key.len() > 1 {
                        if pr.value.is_empty() {
                            pr.value.push(1);
                        } else {
                            let k = t.below(pr.value.len());
                            pr.value[k] ^= 1 << t.below(8);
                        }
                        done = true;
                    }
                }
            }
            if !done {
                return Ok(());
            }
            must_reject = true;
        }
        5 => {
            label = "delete-optional-pair";
            let mi = t.below(m.len());
            if m[mi].is_empty() {
                return Ok(());
            }
            let pi = t.below(m[mi].len());
            m[mi].remove(pi);
        }
        6 => {
            label = "insert-unknown-pair";
            let mi = t.below(m.len());
            let l = t.below(6);
            let mut key = vec![t.range(0x30, 0xf0) as u8];
            key.extend(t.bytes(l));
            let vl = t.below(10);
            m[mi].push(RawPair { key, value: t.bytes(vl) });
        }
        _ => {
            label = "value-byte-mutated";
            let mi = t.below(m.len());
            if m[mi].is_empty() {
                return Ok(());
            }
            let pi = t.below(m[mi].len());
            let v = &mut m[mi][pi].value;
            match t.below(3) {
                0 if !v.is_empty() => {
                    let k = t.below(v.len());
                    v[k] ^= 1 << t.below(8);
                }
                1 => v.push(t.u8()),
                _ => {
                    v.pop();
                }
            }
        }
    }
    let b2 = psetraw::join(&m);
    if b2 == bytes {
        return Ok(());
    }
    let accepted = fixpoint(&b2, ctx)?;
    if must_reject {
        if let Some(p2) = &accepted {
            return Err(Failure::new(format!(
                "a PSET encoding with `{}` was accepted\n variant={}\n decoded inputs={} outputs={}",
                label,
                hex(&b2),
                p2.inputs().len(),
                p2.outputs().len()
            )));
        }
    }
    ctx.class(&format!("variant:{}:{}", label, if accepted.is_some() { "accepted" } else { "rejected" }));
    if accepted.is_some() || must_reject {
        ctx.nontrivial(&b2);
    }
    if ctx.wants_sample(label) {
        ctx.sample(label, || json!({"variant": label, "accepted": accepted.is_some(), "len": b2.len(), "maps": m.len()}));
    }
    Ok(())
}

/// raw key of a `pset`-prefixed proprietary field without key data: fc 04 'pset' <subtype>
fn pset_key(subtype: u8) -> Vec<u8> {
    vec![0xfc, 0x04, b'p', b's', b'e', b't', subtype]
}

fn compact_size_bytes(n: u64) -> Vec<u8> {
    let mut v = Vec::new();
    crate::refimpl::enc::compact_size(&mut v, n);
    v
}

/// further raw re-framings of valid encodings (review g5, C07-1 / C07-4 / C07-7)
fn variants_ext(t: &mut Tape, ctx: &mut Ctx) -> R {
    let mut p = gp::gen_pset(t, &PsetOpts::default());
    if p.outputs().is_empty() {
        let n = p.inputs().len();
        p.add_output(gp::gen_output(t, 100, n));
    }
    let kind = t.below(11);
    if kind == 10 {
        // the declared count becomes a 3-byte compact size
        let target = t.choose(&gx::BIG_COUNTS);
        if t.bool() {
            let have = p.inputs().len();
            gx::add_minimal_inputs(t, &mut p, target.saturating_sub(have));
        } else {
            let have = p.outputs().len();
            gx::add_minimal_outputs(t, &mut p, target.saturating_sub(have));
        }
    }
    let bytes = ser(&p)?;
    let Some(maps) = psetraw::split(&bytes) else {
        return Err(Failure::panic("raw splitter cannot split a library encoding".to_string(), "src/refimpl/psetraw.rs".into()));
    };
    if psetraw::join(&maps) != bytes {
        return Err(Failure::panic("raw splitter does not re-join identically".to_string(), "src/refimpl/psetraw.rs".into()));
    }
    let nin = p.inputs().len();
    let nout = p.outputs().len();
    if maps.len() != 1 + nin + nout {
        return Err(Failure::new(format!("the encoding of a PSET with {} inputs and {} outputs has {} maps\n bytes={}", nin, nout, maps.len(), hex(&bytes))));
    }
    let mut m: Vec<RawMap> = maps.clone();
    let label: &'static str;
    let mut must_reject = false;
    let mut spliced: Option<Vec<u8>> = None;
    match kind {
        0..=3 => {
            // an output map loses a field the format makes mandatory (the fields present are read from the
            // generated value, not from the library's predicates)
            let oi = t.below(nout);
            let o = &p.outputs()[oi];
            let marked = o.blinding_key.is_some();
            let complete = marked
                && o.amount_comm.is_some()
                && o.asset_comm.is_some()
                && o.value_rangeproof.is_some()
                && o.asset_surjection_proof.is_some()
                && o.ecdh_pubkey.is_some();
            let mut options: Vec<&'static str> = vec!["delete-output-amount(+commitment)", "delete-output-asset(+commitment)"];
            if marked {
                options.push("delete-blinder-index-beside-blinding-key");
            }
            if complete {
                options.push("delete-part-of-complete-blinding-data");
                options.push("delete-part-of-complete-blinding-data");
            }
            // the later (rarer) options first
            options.reverse();
            label = options[t.below(options.len())];
            let doomed: Vec<Vec<u8>> = match label {
                "delete-output-amount(+commitment)" => vec![vec![0x03], pset_key(0x01)],
                "delete-output-asset(+commitment)" => vec![pset_key(0x02), pset_key(0x03)],
                "delete-blinder-index-beside-blinding-key" => vec![pset_key(0x08)],
                _ => {
                    // a non-empty proper subset of the five members (blinding key and index stay)
                    let mask = 1 + t.below(30);
                    [0x01u8, 0x03, 0x04, 0x05, 0x07].iter().enumerate().filter(|(i, _)| mask >> i & 1 == 1).map(|(_, s)| pset_key(*s)).collect()
                }
            };
            let mi = 1 + nin + oi;
            let before = m[mi].len();
            m[mi].retain(|pr| !doomed.contains(&pr.key));
            if m[mi].len() == before {
                return Err(Failure::panic(format!("no pair to delete for {} in output {}", label, oi), "src/props/c07.rs".into()));
            }
            must_reject = true;
        }
        4 => {
            label = "key-data-byte-mutated";
            let mi = t.below(m.len());
            let cands: Vec<usize> = m[mi].iter().enumerate().filter(|(_, pr)| pr.key.len() > 1).map(|(i, _)| i).collect();
            if cands.is_empty() {
                return Ok(());
            }
            let pi = cands[t.below(cands.len())];
            let k = &mut m[mi][pi].key;
            let at = 1 + t.below(k.len() - 1);
            k[at] ^= 1 << t.below(8);
        }
        5 => {
            label = "key-type-byte-mutated";
            let mi = t.below(m.len());
            if m[mi].is_empty() {
                return Ok(());
            }
            let pi = t.below(m[mi].len());
            let k = &mut m[mi][pi].key;
            if t.bool() {
                k[0] ^= 1 << t.below(8);
            } else {
                k[0] = t.u8();
            }
        }
        6 => {
            label = "value-emptied";
            let mi = t.below(m.len());
            let cands: Vec<usize> = m[mi].iter().enumerate().filter(|(_, pr)| !pr.value.is_empty()).map(|(i, _)| i).collect();
            if cands.is_empty() {
                return Ok(());
            }
            let pi = cands[t.below(cands.len())];
            m[mi][pi].value.clear();
        }
        7 => {
            label = "values-swapped";
            let mi = t.below(m.len());
            if m[mi].len() < 2 {
                return Ok(());
            }
            let a = t.below(m[mi].len());
            let b = t.below(m[mi].len());
            if a == b || m[mi][a].value == m[mi][b].value {
                return Ok(());
            }
            let va = m[mi][a].value.clone();
            m[mi][a].value = std::mem::replace(&mut m[mi][b].value, va);
        }
        8 | 9 => {
            // tape bytes spliced into a valid encoding (what blind raw bytes never reach)
            label = "bytes-spliced";
            let mut b = bytes.clone();
            let at = t.below(b.len());
            let n = 1 + t.below(6);
            match t.below(4) {
                0 => {
                    for i in 0..n {
                        if at + i < b.len() {
                            b[at + i] = t.u8();
                        }
                    }
                }
                1 => {
                    let ins = t.bytes(n);
                    b.splice(at..at, ins);
                }
                2 => {
                    let end = (at + n).min(b.len());
                    b.drain(at..end);
                }
                _ => {
                    // the tail of one encoding replaced by tape bytes
                    b.truncate(at.max(5));
                    let tail = t.below(24);
                    b.extend(t.bytes(tail));
                }
            }
            spliced = Some(b);
        }
        _ => {
            // +-1 on a declared count of >= 252 (1-byte <-> 3-byte compact size)
            label = "big-count-changed";
            let (w, have) = if nin >= 0xfc { (0x04u8, nin) } else { (0x05u8, nout) };
            let new = if t.bool() { have + 1 } else { have - 1 };
            let mut changed = false;
            for pr in m[0].iter_mut() {
                if pr.key == [w] {
                    pr.value = compact_size_bytes(new as u64);
                    changed = true;
                }
            }
            if !changed {
                return Err(Failure::new(format!("the global map of a library encoding has no count pair {:02x}\n bytes={}", w, hex(&bytes[..bytes.len().min(200)]))));
            }
            must_reject = true;
        }
    }
    let b2 = spliced.unwrap_or_else(|| psetraw::join(&m));
    if b2 == bytes {
        return Ok(());
    }
    let accepted = fixpoint(&b2, ctx)?;
    if must_reject {
        if let Some(p2) = &accepted {
            let shown = if b2.len() > 700 { format!("{}... ({} bytes)", hex(&b2[..700]), b2.len()) } else { hex(&b2) };
            return Err(Failure::new(format!(
                "a PSET encoding with `{}` was accepted (missing mandatory field / incomplete blinding data / count mismatch must be rejected)\n decoded inputs={} outputs={}\n variant={}",
                label,
                p2.inputs().len(),
                p2.outputs().len(),
                shown
            )));
        }
    }
    ctx.class(&format!("xvariant:{}:{}", label, if accepted.is_some() { "accepted" } else { "rejected" }));
    if accepted.is_some() || must_reject {
        ctx.nontrivial(&b2);
    }
    if ctx.wants_sample(label) {
        ctx.sample(label, || json!({"variant": label, "accepted": accepted.is_some(), "len": b2.len(), "maps": m.len()}));
    }
    Ok(())
}

/// raw bytes (fuzz entry and replay format): the tape is the PSET wire string
// ---- counts at the decoder's limit and encodings beyond 64 KiB (deterministic) ----------------------

/// PSETs with 9 999 / 10 000 input or output maps (the decoder's cap admits exactly 10 000) and PSETs whose
/// serialization exceeds 64 KiB and 128 KiB, through the same hop oracle as every generated PSET.
fn count_limits(idx: u64, _seed: u64, ctx: &mut Ctx) -> R {
    use elements::hashes::Hash as _;
    const SHAPES: [(usize, usize); 8] = [(9_999, 1), (10_000, 1), (1, 9_999), (1, 10_000), (1_523, 1), (3_000, 2), (2, 1_400), (700, 700)];
    let (n_in, n_out) = SHAPES[idx as usize % SHAPES.len()];
    let mut p = Pset::new_v2();
    for k in 0..n_in {
        let mut h = [0u8; 32];
        h[..8].copy_from_slice(&(k as u64 + 1).to_le_bytes());
        p.add_input(elements::pset::Input::from_prevout(elements::OutPoint::new(elements::Txid::from_byte_array(h), (k % 7) as u32)));
    }
    let asset = elements::AssetId::from_byte_array([0x23; 32]);
    for k in 0..n_out {
        let script = elements::Script::from(vec![0x51, (k % 251) as u8]);
        p.add_output(elements::pset::Output::new_explicit(script, 1 + k as u64, asset, None));
    }
    let ex = Extras { elip: vec![], elip_tok: vec![], abfs: vec![] };
    let (bytes, text) = hop_oracle(&p, &ex, ctx)?;
    ctx.class(&format!("count-limits:{}-inputs:{}-outputs", n_in, n_out));
    ctx.class(if bytes.len() > 131_072 { "encoding:longer-than-128KiB" } else if bytes.len() > 65_536 { "encoding:longer-than-64KiB" } else { "encoding:up-to-64KiB" });
    ctx.nontrivial(&(n_in, n_out));
    if ctx.wants_sample("count-limits") {
        ctx.sample("count-limits", || json!({"inputs": n_in, "outputs": n_out, "serialized_bytes": bytes.len(), "base64_chars": text.len()}));
    }
    Ok(())
}

fn raw_bytes(t: &mut Tape, ctx: &mut Ctx) -> R {
    let n = t.remaining();
    let mut b = t.bytes(n);
    if !b.starts_with(b"pset\xff") && t.consumed() % 2 == 0 {
        // help blind search past the magic
        let mut m = b"pset\xff".to_vec();
        m.append(&mut b);
        b = m;
    }
    let r = fixpoint(&b, ctx)?;
    ctx.class(if r.is_some() { "raw:accepted" } else { "raw:rejected" });
    if r.is_some() {
        ctx.nontrivial(&b);
    }
    Ok(())
}

pub fn corpus_psets() -> Vec<(String, Vec<u8>)> {
    let mut out = Vec::new();
    let dir = format!("{}/corpus/pset", verif_dir());
    if let Ok(rd) = std::fs::read_dir(&dir) {
        let mut names: Vec<_> = rd.filter_map(|e| e.ok()).map(|e| e.path()).collect();
        names.sort();
        for p in names {
            if let Ok(s) = std::fs::read_to_string(&p) {
                if let Some(b) = unhex(&s) {
                    out.push((p.file_name().map(|f| f.to_string_lossy().to_string()).unwrap_or_default(), b));
                }
            }
        }
    }
    out
}

/// the repository's PSET vectors and mutants of them
fn vectors(idx: u64, seed: u64, ctx: &mut Ctx) -> R {
    let files = corpus_psets();
    if files.is_empty() {
        return Err(Failure::panic("no PSET corpus".into(), "src/props/c07.rs".into()));
    }
    let (name, bytes) = &files[idx as usize % files.len()];
    let accepted = fixpoint(bytes, ctx)?;
    ctx.class(&format!("vector:{}", if accepted.is_some() { "accepted" } else { "rejected" }));
    if accepted.is_some() {
        ctx.nontrivial(&("vector", name));
    }
    if let Some(maps) = psetraw::split(bytes) {
        if psetraw::join(&maps) != *bytes && accepted.is_some() {
            // the vector itself is not in the splitter's canonical framing (non-minimal sizes): fine
            ctx.class("vector:non-canonical-framing");
        }
    }
    let rnd = seeded_bytes(seed, idx, 2048);
    let mut t = Tape::new(&rnd);
    for _ in 0..40 {
        let mut b = bytes.clone();
        match t.below(4) {
            0 => {
                let k = t.below(b.len());
                b[k] ^= 1 << t.below(8);
            }
            1 => {
                let k = t.below(b.len());
                b.truncate(k);
            }
            2 => {
                let k = t.below(b.len());
                b.remove(k);
            }
            _ => {
                let k = t.below(b.len());
                let v = t.u8();
                b.insert(k, v);
            }
        }
        let a = fixpoint(&b, ctx)?;
        ctx.class(&format!("vector-mutant:{}", if a.is_some() { "accepted" } else { "rejected" }));
    }
    Ok(())
}

fn repro_taptree() -> bool {
    let rnd = seeded_bytes(7, 7, 512);
    let mut t = Tape::new(&rnd);
    for _ in 0..20 {
        if let Some((tt, _)) = gp::gen_tap_tree(&mut t, 5) {
            if gp::tap_tree_leaves(&tt).len() >= 3 {
                let mut p = Pset::new_v2();
                let mut o = elements::pset::Output::default();
                o.amount = Some(1);
                o.asset = Some(gen::pool().assets[0]);
                o.tap_tree = Some(tt);
                p.add_output(o);
                let a = serialize(&p);
                if let Ok(p2) = deserialize::<Pset>(&a) {
                    if serialize(&p2) != a {
                        return true;
                    }
                }
            }
        }
    }
    false
}

pub fn property() -> Property {
    Property {
        id: "C07",
        rule: "roundtrip: tape-generated well-formed PSETs (0..3 inputs / outputs; each of ~45 input, ~20 output and the global \
               optional fields present with a tape-chosen density; map sizes 0..3; tap trees of random shape up to 24 leaves; \
               blinding absent / requested / complete; foreign and pset-prefixed proprietary keys, unknown key types; \
               ELIP-100/102 data through the accessors); oracle: deserialize(serialize(p)) == p (tap trees compared leaf by \
               leaf), base64 text round trip and the text decodes to the same bytes with an independent RFC 4648 decoder, \
               accessors return what was stored after a hop, the serialization is its own fixpoint (and, without a \
               multi-leaf tap tree, the re-encoding of the decoded value is byte-identical). roundtrip_ext: the same oracle \
               after one or two extensions of a generated PSET: raw keys at the compact-size boundary (unknown keys with \
               0xfa..0x100 bytes of key data, proprietary prefixes / keys of 0xfc..300 bytes, control blocks with 6..8 / \
               127 / 128 nodes), caterpillar tap trees of depth 21 / 64 / 127 / 128, ELIP-100 contracts of 0 / <60 / \
               0xfc / 0xfd / 0xfe / 0x100 / 300 / 1000 bytes for 1..3 assets, 252..256 input or output maps (3-byte count), \
               histories of insert_input / insert_output / remove_input / remove_output (also on a decoded PSET), the zero \
               tweak as issuance nonce, the zero ABF, a pset-prefixed output key of subtype 0x00. byte_variants: raw \
               key/value re-framings of valid encodings (reorder, duplicate, delete mandatory, \
               delete optional, count change, preimage flip, unknown pair, value mutation); oracle: accepted => c = \
               encode(decode(b)) decodes to an equal PSET and re-encodes to itself; duplicates, missing mandatory fields, \
               count mismatches, invalid preimages => Err. variants_ext: an output map loses its amount and amount \
               commitment / its asset and asset commitment / the blinder index beside a blinding key / a proper part of \
               complete blinding data => Err; a declared count of 252..256 changed by one => Err; key-data byte, key-type \
               byte mutated, value emptied, two values swapped, tape bytes spliced into the encoding => fixpoint oracle. \
               vectors: the repository's 30 PSET vectors + 40 byte mutants \
               each. Non-trivial: >=1 taproot / preimage / pegin / proof field or tap tree with >=2 leaves; every extended \
               shape; accepted or must-reject variants; distinct by encoding.",
        assumptions: &[
            "the raw splitter is checked to re-join every library encoding identically before it is used",
            "PSETs built through add_/insert_/remove_ input/output are well-formed (the declared counts are private to the library)",
            "base64 text means RFC 4648 base64 with the standard alphabet (BIP174); padding is not asserted",
        ],
        subs: vec![
            Sub { name: "roundtrip", kind: Kind::Tape { max_len: 6000, quick: 64_000, thorough: 1_000_000, f: roundtrip } },
            Sub { name: "byte_variants", kind: Kind::Tape { max_len: 6000, quick: 240_000, thorough: 3_200_000, f: byte_variants } },
            Sub { name: "vectors", kind: Kind::Index { count: |t| t.pick(30, 600), exhaustive: false, f: vectors } },
            Sub { name: "raw_bytes", kind: Kind::Tape { max_len: 400, quick: 160_000, thorough: 1_600_000, f: raw_bytes } },
            Sub { name: "roundtrip_ext", kind: Kind::Tape { max_len: 6000, quick: 24_000, thorough: 800_000, f: roundtrip_ext } },
            Sub { name: "variants_ext", kind: Kind::Tape { max_len: 6000, quick: 120_000, thorough: 2_400_000, f: variants_ext } },
            Sub { name: "count_limits", kind: Kind::Index { count: |_| 8, exhaustive: true, f: count_limits } },
        ],
        known: vec![Known { key: KF_TAPTREE, what: "the tap-tree codec reverses the leaf order on every hop: encode(decode(b)) alternates between two byte strings", repro: repro_taptree }],
    }
}
