//! C07 — PSET serialization round-trips and re-serialization is a fixpoint.
use std::str::FromStr;

use elements::confidential::AssetBlindingFactor;
use elements::encode::{deserialize, serialize};
use elements::pset::elip100::{AssetMetadata, TokenMetadata};
use elements::pset::PartiallySignedTransaction as Pset;
use elements::OutPoint;
use serde_json::json;

use crate::engine::*;
use crate::gen::pset::{self as gp, PsetOpts};
use crate::gen::{self};
use crate::refimpl::psetraw::{self, RawMap, RawPair};
use crate::{ensure, ensure_eq};

pub const KF_TAPTREE: &str = "taptree-codec-reverses-leaf-order";

fn ser(p: &Pset) -> Result<Vec<u8>, Failure> {
    guard::guard("serialize(pset)", 0, || serialize(p))
}
fn de(b: &[u8]) -> Result<Result<Pset, elements::encode::Error>, Failure> {
    guard::guard("deserialize(pset)", b.len(), || deserialize::<Pset>(b))
}

/// equality including the tap-tree leaves that `TapTree`'s PartialEq (root hash only) cannot see
pub fn pset_eq(a: &Pset, b: &Pset) -> bool {
    a == b && gp::all_tap_leaves(a) == gp::all_tap_leaves(b)
}

/// For an accepted byte string: c = encode(decode(b)) decodes to an equal PSET and re-encodes to itself.
/// Returns whether `b` was accepted.
pub fn fixpoint(b: &[u8], ctx: &mut Ctx) -> Result<Option<Pset>, Failure> {
    ctx.eval();
    let p = match de(b)? {
        Err(_) => return Ok(None),
        Ok(p) => p,
    };
    let c = ser(&p)?;
    let p2 = match de(&c)? {
        Ok(p2) => p2,
        Err(e) => return Err(Failure::new(format!("canonical re-encoding of an accepted PSET is rejected: {}\n input ={}\n reenc ={}", e, hex(b), hex(&c)))),
    };
    if !pset_eq(&p, &p2) {
        return Err(Failure::new(format!("decode(encode(decode(b))) != decode(b)\n input ={}\n reenc ={}", hex(b), hex(&c))));
    }
    let c2 = ser(&p2)?;
    if c2 != c {
        // tap-tree leaf order oscillation is a listed finding when (and only when) it is the sole difference
        let only_taptree = p.outputs().iter().any(|o| o.tap_tree.is_some()) && {
            let mut x = p2.clone();
            let mut y = match de(&c2)? {
                Ok(y) => y,
                Err(_) => return Err(Failure::new("third decode failed".to_string())),
            };
            for o in x.outputs_mut() {
                o.tap_tree = None;
            }
            for o in y.outputs_mut() {
                o.tap_tree = None;
            }
            serialize(&x) == serialize(&y)
        };
        if only_taptree && ctx.is_known(KF_TAPTREE) {
            return Ok(Some(p));
        }
        return Err(Failure::new(format!("re-serialization is not a fixpoint: encode(decode(c)) != c; {}", first_diff(&c, &c2))));
    }
    Ok(Some(p))
}

/// where two byte strings first differ, with context
pub fn first_diff(a: &[u8], b: &[u8]) -> String {
    let n = a.iter().zip(b.iter()).take_while(|(x, y)| x == y).count();
    let lo = n.saturating_sub(24);
    format!(
        "lengths {} / {}, first difference at offset {}:\n a[{}..]={}\n b[{}..]={}",
        a.len(),
        b.len(),
        n,
        lo,
        hex(&a[lo..(n + 40).min(a.len())]),
        lo,
        hex(&b[lo..(n + 40).min(b.len())])
    )
}

fn roundtrip(t: &mut Tape, ctx: &mut Ctx) -> R {
    let mut p = gp::gen_pset(t, &PsetOpts::default());
    // ELIP-100 / ELIP-102 data set through the accessors
    let mut elip: Vec<(elements::AssetId, AssetMetadata)> = Vec::new();
    let mut elip_tok: Vec<(elements::AssetId, TokenMetadata)> = Vec::new();
    let mut abfs: Vec<(bool, usize, AssetBlindingFactor)> = Vec::new();
    if t.chance(80) {
        let id = gen::gen_asset_id(t);
        let l = t.below(60);
        let contract: String = (0..l).map(|_| t.choose(&['{', '}', '"', 'a', ':', '1', ' ', 'é', 'x'])).collect();
        let m = AssetMetadata::new(contract, OutPoint { txid: gen::gen_txid(t), vout: t.edgy_u32() });
        let prev = guard::guard("add_asset_metadata", 0, || p.add_asset_metadata(id, &m))?;
        ensure!(prev.is_none() || elip.iter().any(|(i, _)| *i == id), "add_asset_metadata reported a previous value on first insertion");
        elip.push((id, m));
        let tid = gen::gen_asset_id(t);
        let tm = TokenMetadata::new(gen::gen_asset_id(t), t.bool());
        guard::guard("add_token_metadata", 0, || p.add_token_metadata(tid, &tm))?;
        elip_tok.push((tid, tm));
    }
    if t.chance(80) {
        if !p.inputs().is_empty() {
            let k = t.below(p.inputs().len());
            let abf = crate::gen::ct::abf_from(t, 7);
            p.inputs_mut()[k].set_abf(abf);
            abfs.push((true, k, abf));
        }
        if !p.outputs().is_empty() {
            let k = t.below(p.outputs().len());
            let abf = crate::gen::ct::abf_from(t, 8);
            p.outputs_mut()[k].set_abf(abf);
            abfs.push((false, k, abf));
        }
    }
    let bytes = ser(&p)?;
    ctx.eval();
    let back = match de(&bytes)? {
        Ok(b) => b,
        Err(e) => {
            return Err(Failure::new(format!(
                "a well-formed PSET does not deserialize from its own serialization: {} ({:?})\n features={:?}\n bytes={}",
                e,
                e,
                gp::pset_features(&p),
                hex(&bytes)
            )))
        }
    };
    if back != p {
        return Err(Failure::new(format!("deserialize(serialize(p)) != p\n p   ={:?}\n back={:?}", p, back)));
    }
    let (la, lb) = (gp::all_tap_leaves(&p), gp::all_tap_leaves(&back));
    if la != lb {
        return Err(Failure::new(format!("tap tree leaves differ after a serialization hop: before={:?} after={:?}", la, lb)));
    }
    // base64 text
    let text = guard::guard("pset.to_string", 0, || p.to_string())?;
    match guard::guard("Pset::from_str", text.len(), || Pset::from_str(&text))? {
        Ok(b2) => ensure!(pset_eq(&b2, &p), "from_str(to_string(p)) != p"),
        Err(e) => return Err(Failure::new(format!("from_str rejects the PSET's own base64 form: {}", e))),
    }
    // accessors after the hop
    for (id, m) in &elip {
        match guard::guard("get_asset_metadata", 0, || back.get_asset_metadata(*id))? {
            Some(Ok(g)) => ensure!(&g == m, "asset metadata differs after a hop: {:?} vs {:?}", g, m),
            other => return Err(Failure::new(format!("asset metadata lost after a hop: {:?}", other.map(|r| r.is_ok())))),
        }
    }
    for (id, m) in &elip_tok {
        match guard::guard("get_token_metadata", 0, || back.get_token_metadata(*id))? {
            Some(Ok(g)) => ensure!(&g == m, "token metadata differs after a hop"),
            other => return Err(Failure::new(format!("token metadata lost after a hop: {:?}", other.map(|r| r.is_ok())))),
        }
    }
    for (is_in, k, abf) in &abfs {
        let got = if *is_in { back.inputs()[*k].get_abf() } else { back.outputs()[*k].get_abf() };
        match got {
            Some(Ok(g)) => ensure!(&g == abf, "ELIP-102 abf differs after a hop"),
            other => return Err(Failure::new(format!("ELIP-102 abf lost after a hop: {:?}", other.map(|r| r.is_ok())))),
        }
    }
    // the encoding of a well-formed PSET is itself canonical
    match fixpoint(&bytes, ctx)? {
        Some(_) => {}
        None => return Err(Failure::new("own serialization rejected on second decode".to_string())),
    }
    let c = ser(&back)?;
    if c != bytes {
        let tap = p.outputs().iter().any(|o| o.tap_tree.is_some());
        if !(tap && ctx.is_known(KF_TAPTREE)) {
            return Err(Failure::new(format!("serialize(deserialize(serialize(p))) != serialize(p); {}", first_diff(&bytes, &c))));
        }
    }
    let feats = gp::pset_features(&p);
    for f in &feats {
        ctx.class(&format!("feature:{}", f));
    }
    ctx.class(&format!("inputs:{} outputs:{}", p.inputs().len(), p.outputs().len()));
    let multi_leaf = p.outputs().iter().filter_map(|o| o.tap_tree.as_ref()).any(|tt| gp::tap_tree_leaves(tt).len() >= 2);
    if multi_leaf {
        ctx.class("feature:tap-tree>=2-leaves");
    }
    if feats.iter().any(|f| ["in-taproot", "preimages", "pegin-fields", "proof-fields"].contains(f)) || multi_leaf {
        ctx.nontrivial(&bytes);
    }
    let cls = format!("pset:{}", feats.join("+"));
    if ctx.wants_sample("pset") && feats.len() >= 3 {
        ctx.sample("pset", || json!({"inputs": p.inputs().len(), "outputs": p.outputs().len(), "features": feats, "encoded_len": bytes.len(),
            "base64_prefix": text.chars().take(60).collect::<String>()}));
    }
    let _ = cls;
    Ok(())
}

fn shuffle<T>(t: &mut Tape, v: &mut [T]) {
    for i in (1..v.len()).rev() {
        let k = t.below(i + 1);
        v.swap(i, k);
    }
}

const GLOBAL_MANDATORY: [u8; 4] = [0x02, 0x04, 0x05, 0xfb];

/// byte-level variants of a valid encoding through the raw splitter
fn byte_variants(t: &mut Tape, ctx: &mut Ctx) -> R {
    let p = gp::gen_pset(t, &PsetOpts::default());
    let bytes = ser(&p)?;
    let Some(maps) = psetraw::split(&bytes) else {
        return Err(Failure::panic("raw splitter cannot split a library encoding".to_string(), "src/refimpl/psetraw.rs".into()));
    };
    if psetraw::join(&maps) != bytes {
        return Err(Failure::panic("raw splitter does not re-join identically".to_string(), "src/refimpl/psetraw.rs".into()));
    }
    let nin = p.inputs().len();
    let mut m: Vec<RawMap> = maps.clone();
    let kind = t.below(8);
    let label;
    let mut must_reject = false;
    match kind {
        0 => {
            label = "reorder-pairs";
            for map in m.iter_mut() {
                shuffle(t, map);
            }
        }
        1 => {
            label = "duplicate-pair";
            let mi = t.below(m.len());
            if m[mi].is_empty() {
                return Ok(());
            }
            let pi = t.below(m[mi].len());
            let mut dup = m[mi][pi].clone();
            if t.bool() && !dup.value.is_empty() {
                // same key, another value
                let k = t.below(dup.value.len());
                dup.value[k] ^= 1;
            }
            let at = t.below(m[mi].len() + 1);
            m[mi].insert(at, dup);
            must_reject = true;
        }
        2 => {
            label = "delete-mandatory-pair";
            let mi = t.below(m.len());
            let wanted: &[u8] = if mi == 0 { &GLOBAL_MANDATORY } else if mi <= nin { &[0x0e, 0x0f] } else { &[0x04] };
            let w = wanted[t.below(wanted.len())];
            let before = m[mi].len();
            m[mi].retain(|pr| !(pr.key.len() == 1 && pr.key[0] == w));
            if m[mi].len() == before {
                return Ok(());
            }
            must_reject = true;
        }
        3 => {
            label = "count-changed";
            let w = if t.bool() { 0x04 } else { 0x05 };
            let mut changed = false;
            for pr in m[0].iter_mut() {
                if pr.key == [w] && pr.value.len() == 1 {
                    let old = pr.value[0];
                    let new = if t.bool() || old == 0 { old + 1 } else { old - 1 };
                    pr.value[0] = new;
                    changed = true;
                }
            }
            if !changed {
                return Ok(());
            }
            must_reject = true;
        }
        4 => {
            label = "preimage-byte-flipped";
            let mut done = false;
            for map in m.iter_mut().skip(1).take(nin) {
                for pr in map.iter_mut() {
                    if !done && matches!(pr.key.first(), Some(0x0a..=0x0d)) && pr.key.len() > 1 {
                        if pr.value.is_empty() {
                            pr.value.push(1);
                        } else {
                            let k = t.below(pr.value.len());
                            pr.value[k] ^= 1 << t.below(8);
                        }
                        done = true;
                    }
                }
            }
            if !done {
                return Ok(());
            }
            must_reject = true;
        }
        5 => {
            label = "delete-optional-pair";
            let mi = t.below(m.len());
            if m[mi].is_empty() {
                return Ok(());
            }
            let pi = t.below(m[mi].len());
            m[mi].remove(pi);
        }
        6 => {
            label = "insert-unknown-pair";
            let mi = t.below(m.len());
            let l = t.below(6);
            let mut key = vec![t.range(0x30, 0xf0) as u8];
            key.extend(t.bytes(l));
            let vl = t.below(10);
            m[mi].push(RawPair { key, value: t.bytes(vl) });
        }
        _ => {
            label = "value-byte-mutated";
            let mi = t.below(m.len());
            if m[mi].is_empty() {
                return Ok(());
            }
            let pi = t.below(m[mi].len());
            let v = &mut m[mi][pi].value;
            match t.below(3) {
                0 if !v.is_empty() => {
                    let k = t.below(v.len());
                    v[k] ^= 1 << t.below(8);
                }
                1 => v.push(t.u8()),
                _ => {
                    v.pop();
                }
            }
        }
    }
    let b2 = psetraw::join(&m);
    if b2 == bytes {
        return Ok(());
    }
    let accepted = fixpoint(&b2, ctx)?;
    if must_reject {
        if let Some(p2) = &accepted {
            return Err(Failure::new(format!(
                "a PSET encoding with `{}` was accepted\n variant={}\n decoded inputs={} outputs={}",
                label,
                hex(&b2),
                p2.inputs().len(),
                p2.outputs().len()
            )));
        }
    }
    ctx.class(&format!("variant:{}:{}", label, if accepted.is_some() { "accepted" } else { "rejected" }));
    if accepted.is_some() || must_reject {
        ctx.nontrivial(&b2);
    }
    if ctx.wants_sample(label) {
        ctx.sample(label, || json!({"variant": label, "accepted": accepted.is_some(), "len": b2.len(), "maps": m.len()}));
    }
    Ok(())
}

/// raw bytes (fuzz entry and replay format): the tape is the PSET wire string
fn raw_bytes(t: &mut Tape, ctx: &mut Ctx) -> R {
    let n = t.remaining();
    let mut b = t.bytes(n);
    if !b.starts_with(b"pset\xff") && t.consumed() % 2 == 0 {
        // help blind search past the magic
        let mut m = b"pset\xff".to_vec();
        m.append(&mut b);
        b = m;
    }
    let r = fixpoint(&b, ctx)?;
    ctx.class(if r.is_some() { "raw:accepted" } else { "raw:rejected" });
    if r.is_some() {
        ctx.nontrivial(&b);
    }
    Ok(())
}

pub fn corpus_psets() -> Vec<(String, Vec<u8>)> {
    let mut out = Vec::new();
    let dir = format!("{}/corpus/pset", verif_dir());
    if let Ok(rd) = std::fs::read_dir(&dir) {
        let mut names: Vec<_> = rd.filter_map(|e| e.ok()).map(|e| e.path()).collect();
        names.sort();
        for p in names {
            if let Ok(s) = std::fs::read_to_string(&p) {
                if let Some(b) = unhex(&s) {
                    out.push((p.file_name().map(|f| f.to_string_lossy().to_string()).unwrap_or_default(), b));
                }
            }
        }
    }
    out
}

/// the repository's PSET vectors and mutants of them
fn vectors(idx: u64, seed: u64, ctx: &mut Ctx) -> R {
    let files = corpus_psets();
    if files.is_empty() {
        return Err(Failure::panic("no PSET corpus".into(), "src/props/c07.rs".into()));
    }
    let (name, bytes) = &files[idx as usize % files.len()];
    let accepted = fixpoint(bytes, ctx)?;
    ctx.class(&format!("vector:{}", if accepted.is_some() { "accepted" } else { "rejected" }));
    if accepted.is_some() {
        ctx.nontrivial(&("vector", name));
    }
    if let Some(maps) = psetraw::split(bytes) {
        if psetraw::join(&maps) != *bytes && accepted.is_some() {
            // the vector itself is not in the splitter's canonical framing (non-minimal sizes): fine
            ctx.class("vector:non-canonical-framing");
        }
    }
    let rnd = seeded_bytes(seed, idx, 2048);
    let mut t = Tape::new(&rnd);
    for _ in 0..40 {
        let mut b = bytes.clone();
        match t.below(4) {
            0 => {
                let k = t.below(b.len());
                b[k] ^= 1 << t.below(8);
            }
            1 => {
                let k = t.below(b.len());
                b.truncate(k);
            }
            2 => {
                let k = t.below(b.len());
                b.remove(k);
            }
            _ => {
                let k = t.below(b.len());
                let v = t.u8();
                b.insert(k, v);
            }
        }
        let a = fixpoint(&b, ctx)?;
        ctx.class(&format!("vector-mutant:{}", if a.is_some() { "accepted" } else { "rejected" }));
    }
    Ok(())
}

fn repro_taptree() -> bool {
    let rnd = seeded_bytes(7, 7, 512);
    let mut t = Tape::new(&rnd);
    for _ in 0..20 {
        if let Some((tt, _)) = gp::gen_tap_tree(&mut t, 5) {
            if gp::tap_tree_leaves(&tt).len() >= 3 {
                let mut p = Pset::new_v2();
                let mut o = elements::pset::Output::default();
                o.amount = Some(1);
                o.asset = Some(gen::pool().assets[0]);
                o.tap_tree = Some(tt);
                p.add_output(o);
                let a = serialize(&p);
                if let Ok(p2) = deserialize::<Pset>(&a) {
                    if serialize(&p2) != a {
                        return true;
                    }
                }
            }
        }
    }
    false
}

pub fn property() -> Property {
    Property {
        id: "C07",
        rule: "roundtrip: tape-generated well-formed PSETs (0..3 inputs / outputs; each of ~45 input, ~20 output and the global \
               optional fields present with a tape-chosen density; map sizes 0..3; tap trees of random shape up to 24 leaves; \
               blinding absent / requested / complete; foreign and pset-prefixed proprietary keys, unknown key types; \
               ELIP-100/102 data through the accessors); oracle: deserialize(serialize(p)) == p (tap trees compared leaf by \
               leaf), base64 text round trip, accessors return what was stored after a hop, serialization is its own \
               fixpoint. byte_variants: raw key/value re-framings of valid encodings (reorder, duplicate, delete mandatory, \
               delete optional, count change, preimage flip, unknown pair, value mutation); oracle: accepted => c = \
               encode(decode(b)) decodes to an equal PSET and re-encodes to itself; duplicates, missing mandatory fields, \
               count mismatches, invalid preimages => Err. vectors: the repository's 30 PSET vectors + 40 byte mutants \
               each. Non-trivial: >=1 taproot / preimage / pegin / proof field or tap tree with >=2 leaves; accepted or \
               must-reject variants; distinct by encoding.",
        assumptions: &["the raw splitter is checked to re-join every library encoding identically before it is used"],
        subs: vec![
            Sub { name: "roundtrip", kind: Kind::Tape { max_len: 6000, quick: 64_000, thorough: 1_000_000, f: roundtrip } },
            Sub { name: "byte_variants", kind: Kind::Tape { max_len: 6000, quick: 240_000, thorough: 3_200_000, f: byte_variants } },
            Sub { name: "vectors", kind: Kind::Index { count: |t| t.pick(30, 600), exhaustive: false, f: vectors } },
            Sub { name: "raw_bytes", kind: Kind::Tape { max_len: 400, quick: 160_000, thorough: 1_600_000, f: raw_bytes } },
        ],
        known: vec![Known { key: KF_TAPTREE, what: "the tap-tree codec reverses the leaf order on every hop: encode(decode(b)) alternates between two byte strings", repro: repro_taptree }],
    }
}
