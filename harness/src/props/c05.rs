//! C05 — amount verification rejects every tampered or unbalanced transaction.
use std::collections::BTreeMap;

use elements::confidential::{Asset, AssetBlindingFactor, Nonce, Value, ValueBlindingFactor};
use elements::encode::deserialize;
use elements::secp256k1_zkp::{Generator, PedersenCommitment, RangeProof, SurjectionProof};
use elements::{AssetId, AssetIssuance, BlindAssetProofs, BlindValueProofs, LockTime, OutPoint, Script, Sequence, Transaction, TxIn, TxInWitness, TxOut, TxOutWitness, VerificationError};
use rand::SeedableRng;
use rand_chacha::ChaCha20Rng;
use serde_json::json;

use super::c04;
use crate::engine::*;
use crate::gen::ct::{self, CtCase};
use crate::gen::{self, pool, secp};
use crate::{ensure, ensure_eq};

pub const KF_ZERO_OPRETURN: &str = "verify-rejects-zero-value-output-on-unspendable-script";

fn verify(tx: &Transaction, spent: &[TxOut]) -> Result<Result<(), VerificationError>, Failure> {
    guard::guard("verify_tx_amt_proofs", 0, || tx.verify_tx_amt_proofs(secp(), spent))
}

/// every tamper must turn a verifying (tx, spent) into an error
struct Tamper {
    class: &'static str,
    tx: Transaction,
    spent: Vec<TxOut>,
    /// Some(..) when a specific error variant is required
    must_be_len_mismatch: bool,
}

fn corrupt_rangeproof(t: &mut Tape, p: &RangeProof) -> Option<RangeProof> {
    let mut b = p.serialize();
    if b.len() < 80 {
        return None;
    }
    // corrupt inside the proof body (the header decides parseability)
    let pos = t.range(70, b.len() - 1);
    b[pos] ^= 1 << t.below(8);
    RangeProof::from_slice(&b).ok().filter(|q| q != p)
}
fn corrupt_surjproof(t: &mut Tape, p: &SurjectionProof) -> Option<SurjectionProof> {
    let mut b = p.serialize();
    if b.len() < 40 {
        return None;
    }
    let pos = t.range(b.len() / 2, b.len() - 1);
    b[pos] ^= 1 << t.below(8);
    SurjectionProof::from_slice(&b).ok().filter(|q| q != p)
}

/// the surjection domain size amount verification will see
fn domain_size(tx: &Transaction) -> usize {
    tx.input
        .iter()
        .map(|i| 1 + usize::from(!i.asset_issuance.amount.is_null()) + usize::from(!i.asset_issuance.inflation_keys.is_null()))
        .sum()
}

fn tampers(t: &mut Tape, tx: &Transaction, spent: &[TxOut], ctx: &mut Ctx) -> Vec<Tamper> {
    let p = pool();
    let mut out: Vec<Tamper> = Vec::new();
    let mut push = |class: &'static str, tx2: Transaction, spent2: Vec<TxOut>, len: bool, out: &mut Vec<Tamper>, ctx: &mut Ctx| {
        if &tx2 == tx && spent2 == spent {
            ctx.class("tamper:skipped-no-op");
        } else {
            out.push(Tamper { class, tx: tx2, spent: spent2, must_be_len_mismatch: len });
        }
    };
    let n = tx.output.len();
    let conf: Vec<usize> = (0..n).filter(|&i| tx.output[i].value.is_confidential()).collect();
    for i in 0..n {
        let o = &tx.output[i];
        // explicit amount +-1, explicit asset replaced
        if let Value::Explicit(v) = o.value {
            let mut a = tx.clone();
            a.output[i].value = Value::Explicit(v.wrapping_add(1));
            push("explicit-amount+1", a, spent.to_vec(), false, &mut out, ctx);
            if v > 1 {
                let mut b = tx.clone();
                b.output[i].value = Value::Explicit(v - 1);
                push("explicit-amount-1", b, spent.to_vec(), false, &mut out, ctx);
            }
        }
        if let Asset::Explicit(a) = o.asset {
            let mut b = tx.clone();
            let other = p.assets.iter().find(|x| **x != a).copied().unwrap_or(AssetId::LIQUID_BTC);
            b.output[i].asset = Asset::Explicit(other);
            push("explicit-asset-replaced", b, spent.to_vec(), false, &mut out, ctx);
        }
        if o.value.is_confidential() {
            // commitment replaced by another valid one
            let mut a = tx.clone();
            let c = p.commitments[t.below(p.commitments.len())];
            a.output[i].value = Value::Confidential(c);
            push("value-commitment-replaced", a, spent.to_vec(), false, &mut out, ctx);
            // proofs removed / corrupted
            let mut b = tx.clone();
            b.output[i].witness.rangeproof = None;
            push("rangeproof-removed", b, spent.to_vec(), false, &mut out, ctx);
            if let Some(rp) = &o.witness.rangeproof {
                if let Some(bad) = corrupt_rangeproof(t, rp) {
                    let mut c = tx.clone();
                    c.output[i].witness.rangeproof = Some(Box::new(bad));
                    push("rangeproof-corrupted", c, spent.to_vec(), false, &mut out, ctx);
                } else {
                    ctx.class("tamper:skipped-corruption-unparseable");
                }
            }
            // script of a blinded output changed
            let mut d = tx.clone();
            let mut sb = d.output[i].script_pubkey.to_bytes();
            let k = t.below(sb.len().max(1));
            if sb.is_empty() {
                sb.push(0x51)
            } else {
                sb[k] ^= 1 << t.below(8)
            }
            d.output[i].script_pubkey = Script::from(sb);
            push("blinded-output-script-changed", d, spent.to_vec(), false, &mut out, ctx);
        }
        if o.asset.is_confidential() {
            let mut a = tx.clone();
            let g = p.generators[t.below(p.generators.len())];
            a.output[i].asset = Asset::Confidential(g);
            push("asset-commitment-replaced", a, spent.to_vec(), false, &mut out, ctx);
            let mut b = tx.clone();
            b.output[i].witness.surjection_proof = None;
            push("surjectionproof-removed", b, spent.to_vec(), false, &mut out, ctx);
            if let Some(sp) = &o.witness.surjection_proof {
                if let Some(bad) = corrupt_surjproof(t, sp) {
                    let mut c = tx.clone();
                    c.output[i].witness.surjection_proof = Some(Box::new(bad));
                    push("surjectionproof-corrupted", c, spent.to_vec(), false, &mut out, ctx);
                } else {
                    ctx.class("tamper:skipped-corruption-unparseable");
                }
            }
        }
    }
    // exchanges between two confidential outputs
    for w in conf.windows(2) {
        let (i, j) = (w[0], w[1]);
        let mut a = tx.clone();
        let (vi, vj) = (a.output[i].value, a.output[j].value);
        a.output[i].value = vj;
        a.output[j].value = vi;
        push("value-commitments-exchanged", a, spent.to_vec(), false, &mut out, ctx);
        let mut b = tx.clone();
        let (ai, aj) = (b.output[i].asset, b.output[j].asset);
        b.output[i].asset = aj;
        b.output[j].asset = ai;
        push("asset-commitments-exchanged", b, spent.to_vec(), false, &mut out, ctx);
        let mut c = tx.clone();
        let (ri, rj) = (c.output[i].witness.rangeproof.clone(), c.output[j].witness.rangeproof.clone());
        c.output[i].witness.rangeproof = rj;
        c.output[j].witness.rangeproof = ri;
        push("rangeproofs-exchanged", c, spent.to_vec(), false, &mut out, ctx);
        let mut d = tx.clone();
        let (si, sj) = (d.output[i].witness.surjection_proof.clone(), d.output[j].witness.surjection_proof.clone());
        d.output[i].witness.surjection_proof = sj;
        d.output[j].witness.surjection_proof = si;
        push("surjectionproofs-exchanged", d, spent.to_vec(), false, &mut out, ctx);
    }
    // issuance amount changed
    for (k, inp) in tx.input.iter().enumerate() {
        if let Value::Explicit(v) = inp.asset_issuance.amount {
            let mut a = tx.clone();
            a.input[k].asset_issuance.amount = Value::Explicit(v + 1);
            push("issuance-amount-changed", a, spent.to_vec(), false, &mut out, ctx);
        }
        if let Value::Explicit(v) = inp.asset_issuance.inflation_keys {
            let mut a = tx.clone();
            a.input[k].asset_issuance.inflation_keys = Value::Explicit(v + 1);
            push("issuance-inflation-keys-changed", a, spent.to_vec(), false, &mut out, ctx);
        }
    }
    // different spent outputs
    for k in 0..spent.len() {
        let mut s = spent.to_vec();
        match s[k].value {
            Value::Explicit(v) => s[k].value = Value::Explicit(v + 1),
            Value::Confidential(_) => s[k].value = Value::Confidential(p.commitments[t.below(p.commitments.len())]),
            Value::Null => {}
        }
        push("spent-output-value-altered", tx.clone(), s, false, &mut out, ctx);
    }
    // wrong count
    {
        let mut s = spent.to_vec();
        if t.bool() || s.is_empty() {
            s.push(spent.first().cloned().unwrap_or_default());
        } else {
            s.pop();
        }
        out.push(Tamper { class: "spent-outputs-wrong-count", tx: tx.clone(), spent: s, must_be_len_mismatch: true });
    }
    // permutation: only where it is necessarily detectable (every domain element takes part in each
    // surjection proof, i.e. domain size <= 3, and the exchanged outputs differ in asset generator)
    if spent.len() >= 2 && domain_size(tx) <= 3 && tx.output.iter().any(|o| o.asset.is_confidential() && o.witness.surjection_proof.is_some()) {
        let mut s = spent.to_vec();
        if s[0].asset != s[1].asset {
            s.swap(0, 1);
            out.push(Tamper { class: "spent-outputs-permuted", tx: tx.clone(), spent: s, must_be_len_mismatch: false });
        } else {
            ctx.class("tamper:skipped-permutation-same-asset");
        }
    } else if spent.len() >= 2 {
        ctx.class("tamper:skipped-permutation-not-necessarily-detectable");
    }
    out
}

fn run_tampers(t: &mut Tape, tx: &Transaction, spent: &[TxOut], base_sig: &str, ctx: &mut Ctx) -> R {
    let base = verify(tx, spent)?;
    ctx.eval();
    if let Err(e) = base {
        return Err(Failure::new(format!("base transaction ({}) does not verify: {} ({:?})", base_sig, e, e)));
    }
    for tm in tampers(t, tx, spent, ctx) {
        let r = verify(&tm.tx, &tm.spent)?;
        ctx.eval();
        match r {
            Ok(()) => {
                return Err(Failure::new(format!(
                    "amount verification still succeeds after tamper `{}` of a verifying transaction ({})\n tx outputs={} inputs={}",
                    tm.class,
                    base_sig,
                    tx.output.len(),
                    tx.input.len()
                )));
            }
            Err(e) => {
                if tm.must_be_len_mismatch {
                    ensure!(e == VerificationError::UtxoInputLenMismatch, "a spent-output list of the wrong length is rejected as {:?}, not as UtxoInputLenMismatch", e);
                }
                ctx.class(&format!("tamper:{}", tm.class));
                ctx.nontrivial(&(base_sig, tm.class, crate::refimpl::enc::tx_full(&tm.tx), tm.spent.len()));
            }
        }
    }
    Ok(())
}

fn tamper_generated(t: &mut Tape, ctx: &mut Ctx) -> R {
    let case: CtCase = ct::gen_ct_case(t, false);
    let (tx, _map) = c04::blind_case(&case)?;
    let sig = format!("generated:{}", hex(&case.rng_seed[..8]));
    if ctx.wants_sample("generated-base") {
        ctx.sample("generated-base", || c04::describe(&case));
    }
    run_tampers(t, &tx, &case.spent, &sig, ctx)
}

/// Verifying bases with *partially* blinded outputs (confidential amount over an explicit asset,
/// confidential asset with an explicit amount) next to fully blinded and explicit ones, over spent
/// outputs of every form.  Built from the secp256k1-zkp primitives, not by `Transaction::blind`
/// (which only produces fully blinded outputs); the one library function used is
/// `ValueBlindingFactor::last`, and the base must verify before anything is tampered with.
fn tamper_hybrid(t: &mut Tape, ctx: &mut Ctx) -> R {
    let case: CtCase = ct::gen_ct_case(t, false);
    let s = secp();
    let p = pool();
    let mut rng = ChaCha20Rng::from_seed(case.rng_seed);
    let mut tx = case.tx.clone();
    // form of each non-fee output: 0 explicit, 1 fully blinded, 2 amount only, 3 asset only
    let n = tx.output.len();
    let mut form: Vec<usize> = (0..n).map(|i| if tx.output[i].script_pubkey.is_empty() { 0 } else { t.below(4) }).collect();
    if !form.iter().any(|f| *f == 1 || *f == 2) {
        // some output has to absorb the blinding factors of the others and of the spent outputs
        if let Some(k) = case.receivers.keys().next() {
            form[*k] = 2;
        }
    }
    let Some(last) = (0..n).rev().find(|i| form[*i] == 1 || form[*i] == 2) else {
        ctx.exclude();
        return Ok(());
    };
    let mut abfs = Vec::new();
    let mut vbfs = Vec::new();
    for i in 0..n {
        abfs.push(if form[i] == 1 || form[i] == 3 { ct::abf_from(t, 100 + i as u32) } else { AssetBlindingFactor::zero() });
        vbfs.push(if (form[i] == 1 || form[i] == 2) && i != last { ct::vbf_from(t, 200 + i as u32) } else { ValueBlindingFactor::zero() });
    }
    let plain: Vec<(AssetId, u64)> = tx.output.iter().map(|o| (o.asset.explicit().unwrap_or(AssetId::LIQUID_BTC), o.value.explicit().unwrap_or(0))).collect();
    let ins: Vec<(u64, AssetBlindingFactor, ValueBlindingFactor)> = case.secrets.iter().map(|x| (x.value, x.asset_bf, x.value_bf)).collect();
    let outs: Vec<(u64, AssetBlindingFactor, ValueBlindingFactor)> = (0..n).filter(|i| *i != last).map(|i| (plain[i].1, abfs[i], vbfs[i])).collect();
    vbfs[last] = guard::guard("ValueBlindingFactor::last", 0, || ValueBlindingFactor::last(s, plain[last].1, abfs[last], &ins, &outs))?;
    let domain: Vec<(Generator, elements::secp256k1_zkp::Tag, elements::secp256k1_zkp::Tweak)> = case
        .secrets
        .iter()
        .map(|x| {
            let tag = x.asset.into_tag();
            let g = if x.asset_bf == AssetBlindingFactor::zero() { Generator::new_unblinded(s, tag) } else { Generator::new_blinded(s, tag, x.asset_bf.into_inner()) };
            (g, tag, x.asset_bf.into_inner())
        })
        .collect();
    for i in 0..n {
        let (asset, value) = plain[i];
        let tag = asset.into_tag();
        let blinded_asset = form[i] == 1 || form[i] == 3;
        let blinded_value = form[i] == 1 || form[i] == 2;
        let g = if blinded_asset { Generator::new_blinded(s, tag, abfs[i].into_inner()) } else { Generator::new_unblinded(s, tag) };
        let o = &mut tx.output[i];
        if blinded_asset {
            o.asset = Asset::Confidential(g);
            let sp = guard::guard("SurjectionProof::new", 0, || SurjectionProof::new(s, &mut rng, tag, abfs[i].into_inner(), &domain))?;
            match sp {
                Ok(sp) => o.witness.surjection_proof = Some(Box::new(sp)),
                Err(e) => return Err(Failure::new(format!("harness: surjection proof for output {} cannot be built: {}", i, e))),
            }
        }
        if blinded_value {
            let comm = PedersenCommitment::new(s, value, vbfs[i].into_inner(), g);
            o.value = Value::Confidential(comm);
            let sk = p.seckeys[t.below(p.seckeys.len())];
            let msg = [i as u8; 64];
            let rp = guard::guard("RangeProof::new", 0, || RangeProof::new(s, 1, comm, value, vbfs[i].into_inner(), &msg, o.script_pubkey.as_bytes(), sk, 0, 52, g))?;
            match rp {
                Ok(rp) => o.witness.rangeproof = Some(Box::new(rp)),
                Err(e) => return Err(Failure::new(format!("harness: range proof for output {} cannot be built: {}", i, e))),
            }
        }
        if blinded_asset || blinded_value {
            o.nonce = Nonce::Confidential(p.pubkeys[t.below(p.pubkeys.len())]);
        } else {
            o.nonce = Nonce::Null;
        }
    }
    for f in [1usize, 2, 3] {
        if form.contains(&f) {
            ctx.class(["", "hybrid-base:has-fully-blinded-output", "hybrid-base:has-amount-only-blinded-output", "hybrid-base:has-asset-only-blinded-output"][f]);
        }
    }
    if case.has_partial_input {
        ctx.class("hybrid-base:partially-blinded-spent-output");
    }
    let sig = format!("hybrid:{}:{}", hex(&case.rng_seed[..8]), form.iter().map(|f| f.to_string()).collect::<String>());
    if ctx.wants_sample("hybrid-base") {
        ctx.sample("hybrid-base", || json!({"case": c04::describe(&case), "output_forms(0 explicit,1 full,2 amount only,3 asset only)": form.clone()}));
    }
    run_tampers(t, &tx, &case.spent, &sig, ctx)
}

/// the repository's real-network vector: tests/data/issue_tx.hex with its spent outputs (from the
/// `issuance` doc/unit test) is not self-contained offline; the doc-test transaction of
/// verify_tx_amt_proofs is, and so are the blinded forms of the generated cases.
fn repo_vectors(idx: u64, seed: u64, ctx: &mut Ctx) -> R {
    let vecs = verify_vectors();
    let (name, tx_hex, spent_hex) = &vecs[idx as usize % vecs.len()];
    let tx: Transaction = match unhex(tx_hex).and_then(|b| deserialize(&b).ok()) {
        Some(t) => t,
        None => return Err(Failure::panic(format!("vector {} does not decode", name), "src/props/c05.rs".into())),
    };
    let mut spent = Vec::new();
    for s in spent_hex {
        match unhex(s).and_then(|b| deserialize::<TxOut>(&b).ok()) {
            Some(o) => spent.push(o),
            None => return Err(Failure::panic(format!("vector {} spent output does not decode", name), "src/props/c05.rs".into())),
        }
    }
    let rnd = seeded_bytes(seed, idx, 2048);
    let mut t = Tape::new(&rnd);
    ctx.class(&format!("vector:{}", name));
    run_tampers(&mut t, &tx, &spent, name, ctx)
}

pub fn verify_vectors() -> Vec<(String, String, Vec<String>)> {
    let path = format!("{}/corpus/verify_vectors.json", verif_dir());
    let mut out = Vec::new();
    if let Ok(s) = std::fs::read_to_string(&path) {
        if let Ok(v) = serde_json::from_str::<serde_json::Value>(&s) {
            if let Some(a) = v.as_array() {
                for e in a {
                    let name = e.get("name").and_then(|x| x.as_str()).unwrap_or("?").to_string();
                    let tx = e.get("tx").and_then(|x| x.as_str()).unwrap_or("").to_string();
                    let sp = e.get("spent").and_then(|x| x.as_array()).map(|a| a.iter().filter_map(|x| x.as_str().map(String::from)).collect()).unwrap_or_default();
                    out.push((name, tx, sp));
                }
            }
        }
    }
    out
}

// ---- all-explicit transactions ---------------------------------------------------------------

fn unspendable_script(t: &mut Tape) -> Script {
    if t.chance(40) {
        // larger than the maximum script size
        Script::from(vec![0x51; 10_001])
    } else if t.chance(60) {
        // the empty script (fee output) counts as unspendable in Elements (CScript::IsUnspendable)
        Script::new()
    } else {
        let n = t.below(30);
        let mut v = vec![0x6a];
        if n > 0 {
            v.push(n as u8);
            v.extend(t.bytes(n));
        }
        Script::from(v)
    }
}

fn explicit_balance(t: &mut Tape, ctx: &mut Ctx) -> R {
    let p = pool();
    let n_assets = 1 + t.below(3);
    let n_in = 1 + t.below(4);
    let mut input = Vec::new();
    let mut spent = Vec::new();
    let mut totals: BTreeMap<AssetId, u128> = BTreeMap::new();
    for _ in 0..n_in {
        let asset = p.assets[t.below(n_assets)];
        let value = ct::gen_amount(t);
        *totals.entry(asset).or_insert(0) += u128::from(value);
        spent.push(TxOut { asset: Asset::Explicit(asset), value: Value::Explicit(value), nonce: Nonce::Null, script_pubkey: ct::std_script(t), witness: TxOutWitness::empty() });
        let mut txin = TxIn {
            previous_output: OutPoint { txid: gen::gen_txid(t), vout: gen::gen_vout(t) },
            is_pegin: false,
            script_sig: Script::new(),
            sequence: Sequence::MAX,
            asset_issuance: AssetIssuance::null(),
            witness: TxInWitness::empty(),
        };
        if t.chance(50) {
            let amount = ct::gen_amount(t);
            let reissue = t.bool();
            // asset only / asset + tokens / tokens only (null amount)
            let token_only = !reissue && t.chance(70);
            txin.asset_issuance = AssetIssuance {
                asset_blinding_nonce: if reissue { gen::gen_tweak(t) } else { elements::secp256k1_zkp::ZERO_TWEAK },
                asset_entropy: t.arr32(),
                amount: if token_only { Value::Null } else { Value::Explicit(amount) },
                inflation_keys: Value::Null,
            };
            let (aid, tid) = ct::ref_issuance_ids(&txin);
            if !token_only {
                *totals.entry(aid).or_insert(0) += u128::from(amount);
            }
            if token_only || (!reissue && t.bool()) {
                let k = ct::gen_amount(t);
                txin.asset_issuance.inflation_keys = Value::Explicit(k);
                *totals.entry(tid).or_insert(0) += u128::from(k);
            }
        }
        input.push(txin);
    }
    // outputs: exact split, then optionally an imbalance and zero-value outputs
    let mut output = Vec::new();
    for (asset, total) in &totals {
        let mut rest = u64::try_from(*total).unwrap_or(u64::MAX);
        let parts = 1 + t.below(rest.min(3) as usize);
        for k in 0..parts {
            let v = if k + 1 == parts { rest } else { 1 + ((u128::from(t.u64()) * u128::from(rest - (parts - k - 1) as u64 - 1)) >> 64) as u64 };
            rest -= v;
            let fee = t.chance(60);
            output.push(TxOut { asset: Asset::Explicit(*asset), value: Value::Explicit(v), nonce: Nonce::Null, script_pubkey: if fee { Script::new() } else { ct::std_script(t) }, witness: TxOutWitness::empty() });
        }
    }
    let mut balanced = true;
    let mut zero_on_spendable = false;
    let mut zero_on_unspendable = false;
    match t.below(6) {
        0 => {
            // off by a delta on one output
            let k = t.below(output.len());
            if let Value::Explicit(v) = output[k].value {
                let delta = 1 + u64::from(t.u8());
                let nv = if t.bool() { v.saturating_add(delta) } else { v.saturating_sub(delta).max(1) };
                if nv != v {
                    output[k].value = Value::Explicit(nv);
                    balanced = false;
                }
            }
        }
        1 => {
            // an output of an asset nobody pays in
            let other = p.assets.iter().find(|a| !totals.contains_key(*a)).copied();
            if let Some(a) = other {
                output.push(TxOut { asset: Asset::Explicit(a), value: Value::Explicit(ct::gen_amount(t)), nonce: Nonce::Null, script_pubkey: ct::std_script(t), witness: TxOutWitness::empty() });
                balanced = false;
            }
        }
        2 => {
            // drop an output
            if output.len() > 1 {
                let k = t.below(output.len());
                output.remove(k);
                balanced = false;
            }
        }
        _ => {}
    }
    match t.below(5) {
        0 => {
            let asset = *totals.keys().next().unwrap_or(&p.assets[0]);
            output.push(TxOut { asset: Asset::Explicit(asset), value: Value::Explicit(0), nonce: Nonce::Null, script_pubkey: unspendable_script(t), witness: TxOutWitness::empty() });
            zero_on_unspendable = true;
        }
        1 => {
            let asset = *totals.keys().next().unwrap_or(&p.assets[0]);
            let spk = if t.chance(100) {
                // scripts that can never succeed but are not *provably unspendable* in the consensus
                // sense (CScript::IsUnspendable: OP_RETURN first, or oversize): a reserved / invalid
                // first opcode, OP_RETURN not in first position, exactly the maximum size
                match t.below(4) {
                    0 => {
                        let first = t.choose(&[0x50u8, 0x62, 0x65, 0x66, 0x89, 0x8a, 0xba, 0xbb, 0xc0, 0xd0, 0xe0, 0xfd, 0xfe, 0xff, 0x69, 0x6b]);
                        let mut v = vec![first];
                        let extra = t.below(6);
                        v.extend(t.bytes(extra));
                        Script::from(v)
                    }
                    1 => Script::from(vec![0x51, 0x6a]),
                    2 => Script::from(vec![0x00, 0x6a, 0x01, 0x00]),
                    _ => Script::from(vec![0x51; 10_000]),
                }
            } else {
                ct::std_script(t)
            };
            output.push(TxOut { asset: Asset::Explicit(asset), value: Value::Explicit(0), nonce: Nonce::Null, script_pubkey: spk, witness: TxOutWitness::empty() });
            zero_on_spendable = true;
        }
        _ => {}
    }
    for i in (1..output.len()).rev() {
        let k = t.below(i + 1);
        output.swap(i, k);
    }
    let tx = Transaction { version: 2, lock_time: LockTime::ZERO, input, output };
    // the harness's own per-asset balance
    let mut bal: BTreeMap<AssetId, i128> = BTreeMap::new();
    for (a, v) in &totals {
        *bal.entry(*a).or_insert(0) += *v as i128;
    }
    for o in &tx.output {
        if let (Asset::Explicit(a), Value::Explicit(v)) = (o.asset, o.value) {
            *bal.entry(a).or_insert(0) -= v as i128;
        }
    }
    let own_balanced = bal.values().all(|v| *v == 0);
    ensure_eq!(own_balanced, balanced, "generator bookkeeping");
    let should_verify = own_balanced && !zero_on_spendable;
    let r = verify(&tx, &spent)?;
    ctx.eval();
    let cls = format!(
        "explicit:{}{}{}",
        if balanced { "balanced" } else { "unbalanced" },
        if zero_on_unspendable { "+zero-on-unspendable" } else { "" },
        if zero_on_spendable { "+zero-on-spendable" } else { "" }
    );
    match (&r, should_verify) {
        (Ok(()), true) | (Err(_), false) => {}
        (Err(e), true) => {
            let only_zero = zero_on_unspendable
                && matches!(e, VerificationError::SpentTxOutError(_, elements::TxOutError::ZeroValueCommitment) | VerificationError::TxOutError(_, elements::TxOutError::ZeroValueCommitment));
            if only_zero && ctx.is_known(KF_ZERO_OPRETURN) {
                ctx.class("known:zero-value-unspendable-output-rejected");
            } else {
                return Err(Failure::new(format!(
                    "a balanced all-explicit transaction is rejected: {} ({:?}) [{}]\n outputs={:?}",
                    e,
                    e,
                    cls,
                    tx.output.iter().map(|o| (o.value.explicit(), o.script_pubkey.len(), o.script_pubkey.is_provably_unspendable())).collect::<Vec<_>>()
                )));
            }
        }
        (Ok(()), false) => {
            return Err(Failure::new(format!(
                "an all-explicit transaction verifies although {} [{}]\n balance={:?}",
                if !own_balanced { "inputs plus issuances differ from outputs plus fees" } else { "it has a zero-value output on a spendable script" },
                cls,
                bal
            )));
        }
    }
    ctx.class(&cls);
    if tx.input.len() >= 2 || !balanced || zero_on_spendable || zero_on_unspendable {
        ctx.nontrivial(&crate::refimpl::enc::tx_full(&tx));
    }
    if ctx.wants_sample(&cls) {
        ctx.sample(&cls, || json!({"inputs": tx.input.len(), "issuances": tx.input.iter().filter(|i| i.has_issuance()).count(),
            "outputs": tx.output.iter().map(|o| json!({"value": o.value.explicit(), "script_len": o.script_pubkey.len()})).collect::<Vec<_>>(),
            "verifies": r.is_ok()}));
    }
    // wrong length is reported as such
    let mut s2 = spent.clone();
    s2.push(TxOut::default());
    let r2 = verify(&tx, &s2)?;
    ensure!(r2 == Err(VerificationError::UtxoInputLenMismatch), "spent-output list of the wrong length: {:?}", r2);
    Ok(())
}

fn exact_proofs(t: &mut Tape, ctx: &mut Ctx) -> R {
    let p = pool();
    let mut rng = ChaCha20Rng::from_seed(t.arr32());
    let asset = p.assets[t.below(p.assets.len())];
    let other_asset = p.assets.iter().find(|a| **a != asset).copied().unwrap_or(AssetId::LIQUID_BTC);
    let value = ct::gen_amount(t);
    let abf: AssetBlindingFactor = ct::abf_from(t, 1);
    let vbf: ValueBlindingFactor = ct::vbf_from(t, 2);
    let gen = match Asset::new_confidential(secp(), asset, abf) {
        Asset::Confidential(g) => g,
        _ => return Err(Failure::new("new_confidential did not give a commitment".to_string())),
    };
    let comm = match Value::new_confidential_from_assetid(secp(), value, asset, vbf, abf) {
        Value::Confidential(c) => c,
        _ => return Err(Failure::new("new_confidential_from_assetid did not give a commitment".to_string())),
    };
    let vp = guard::guard("blind_value_proof", 0, || RangeProof::blind_value_proof(&mut rng, secp(), value, comm, gen, vbf))?;
    let vp = match vp {
        Ok(p) => p,
        Err(e) => return Err(Failure::new(format!("blind_value_proof failed: {}", e))),
    };
    let ok = |v: u64, g: Generator, c: PedersenCommitment| guard::guard("blind_value_proof_verify", 0, || vp.blind_value_proof_verify(secp(), v, g, c));
    ensure!(ok(value, gen, comm)?, "exact-value proof does not verify for the right (value, generator, commitment)");
    ensure!(!ok(value + 1, gen, comm)?, "exact-value proof verifies for value+1");
    if value > 1 {
        ensure!(!ok(value - 1, gen, comm)?, "exact-value proof verifies for value-1");
    }
    let other_comm = p.commitments[t.below(p.commitments.len())];
    if other_comm != comm {
        ensure!(!ok(value, gen, other_comm)?, "exact-value proof verifies for another commitment");
    }
    let other_gen = p.generators[t.below(p.generators.len())];
    if other_gen != gen {
        ensure!(!ok(value, other_gen, comm)?, "exact-value proof verifies for another generator");
    }
    ctx.evals_n(5);
    let ap = guard::guard("blind_asset_proof", 0, || SurjectionProof::blind_asset_proof(&mut rng, secp(), asset, abf))?;
    let ap = match ap {
        Ok(p) => p,
        Err(e) => return Err(Failure::new(format!("blind_asset_proof failed: {}", e))),
    };
    let aok = |a: AssetId, g: Generator| guard::guard("blind_asset_proof_verify", 0, || ap.blind_asset_proof_verify(secp(), a, g));
    ensure!(aok(asset, gen)?, "exact-asset proof does not verify for the right (asset, commitment)");
    ensure!(!aok(other_asset, gen)?, "exact-asset proof verifies for another asset");
    if other_gen != gen {
        ensure!(!aok(asset, other_gen)?, "exact-asset proof verifies for another commitment");
    }
    ctx.evals_n(3);
    ctx.class("exact-proofs");
    ctx.nontrivial(&(value, hex(&gen.serialize())));
    Ok(())
}

fn repro_zero_opreturn() -> bool {
    let a = pool().assets[0];
    let spent = TxOut { asset: Asset::Explicit(a), value: Value::Explicit(10), nonce: Nonce::Null, script_pubkey: Script::new(), witness: TxOutWitness::empty() };
    let tx = Transaction {
        version: 2,
        lock_time: LockTime::ZERO,
        input: vec![TxIn::default()],
        output: vec![
            TxOut { asset: Asset::Explicit(a), value: Value::Explicit(10), nonce: Nonce::Null, script_pubkey: Script::new(), witness: TxOutWitness::empty() },
            TxOut { asset: Asset::Explicit(a), value: Value::Explicit(0), nonce: Nonce::Null, script_pubkey: Script::from(vec![0x6a]), witness: TxOutWitness::empty() },
        ],
    };
    tx.verify_tx_amt_proofs(secp(), &[spent]).is_err()
}

pub fn property() -> Property {
    Property {
        id: "C05",
        rule: "tamper_generated: verifying bases = blinded C04 cases; for each base EVERY applicable position of every tamper \
               class of the statement (explicit amount +-1, explicit asset replaced, value / asset commitment replaced or \
               exchanged, range / surjection proof removed, exchanged or byte-corrupted (kept only if it still parses), \
               script of a blinded output changed, issuance amounts changed, spent output value altered, spent outputs \
               permuted (only where necessarily detectable: domain <= 3), wrong count => UtxoInputLenMismatch); no-op \
               tampers skipped and counted; oracle: verification returns Err. vectors: the repository's verifying \
               transactions with the same tampers. tamper_hybrid: bases built from the zkp primitives with every \
               output form (explicit, fully blinded, amount-only blinded over an explicit asset, asset-only blinded with \
               an explicit amount) over spent outputs of every form, same tampers. explicit_balance: all-explicit transactions (inputs + issuances vs \
               outputs + fees per asset, balanced / off by delta / foreign asset / dropped output, zero-value outputs on \
               provably unspendable vs spendable scripts); oracle: verifies <=> harness per-asset balance holds and every \
               zero-value output is provably unspendable. exact_proofs: blind_value_proof / blind_asset_proof verify for the \
               right data and not for value+-1, other commitment, other generator / asset. Non-trivial: base verifies and \
               the tamper changes >= 1 byte; distinct by (base, class, tampered encoding).",
        assumptions: &[
            "secp256k1-zkp is the trusted base; cryptographic negatives hold with overwhelming probability",
            "provably unspendable = CScript::IsUnspendable as the library documents it (OP_RETURN first, > 10000 bytes, or the empty fee script); a script that merely cannot succeed (reserved first opcode, OP_RETURN later) is not",
        ],
        subs: vec![
            Sub { name: "tamper_generated", kind: Kind::Tape { max_len: 3000, quick: 500, thorough: 15_000, f: tamper_generated } },
            Sub { name: "tamper_hybrid", kind: Kind::Tape { max_len: 3000, quick: 500, thorough: 15_000, f: tamper_hybrid } },
            Sub { name: "vectors", kind: Kind::Index { count: |t| t.pick(8, 120), exhaustive: false, f: repo_vectors } },
            Sub { name: "explicit_balance", kind: Kind::Tape { max_len: 2500, quick: 20_000, thorough: 500_000, f: explicit_balance } },
            Sub { name: "exact_proofs", kind: Kind::Tape { max_len: 600, quick: 1_500, thorough: 40_000, f: exact_proofs } },
        ],
        known: vec![Known { key: KF_ZERO_OPRETURN, what: "a balanced explicit transaction with a zero-value output on a provably unspendable script is rejected (ZeroValueCommitment)", repro: repro_zero_opreturn }],
    }
}
