//! C05 — amount verification rejects every tampered or unbalanced transaction.
use crate::refimpl::Variant as _;
use std::collections::BTreeMap;

use elements::confidential::{Asset, AssetBlindingFactor, Nonce, Value, ValueBlindingFactor};
use elements::encode::deserialize;
use elements::secp256k1_zkp::{Generator, PedersenCommitment, RangeProof, SurjectionProof};
use elements::{AssetId, AssetIssuance, BlindAssetProofs, BlindValueProofs, LockTime, OutPoint, Script, Sequence, Transaction, TxIn, TxInWitness, TxOut, TxOutSecrets, TxOutWitness, VerificationError};
use rand::SeedableRng;
use rand_chacha::ChaCha20Rng;
use serde_json::json;

use super::c04;
use crate::engine::*;
use crate::gen::ct::{self, CtCase};
use crate::gen::ext_g3::{self as ext, CtOpts};
use crate::gen::{self, pool, secp};
use crate::{ensure, ensure_eq};

pub const KF_ZERO_OPRETURN: &str = "verify-rejects-zero-value-output-on-unspendable-script";

fn verify(tx: &Transaction, spent: &[TxOut]) -> Result<Result<(), VerificationError>, Failure> {
    guard::guard("verify_tx_amt_proofs", 0, || tx.verify_tx_amt_proofs(secp(), spent))
}

/// every tamper must turn a verifying (tx, spent) into an error
struct Tamper {
    class: &'static str,
    tx: Transaction,
    spent: Vec<TxOut>,
    /// Some(..) when a specific error variant is required
    must_be_len_mismatch: bool,
}

fn corrupt_rangeproof(t: &mut Tape, p: &RangeProof) -> Option<RangeProof> {
    let mut b = p.serialize();
    if b.len() < 80 {
        return None;
    }
    // corrupt inside the proof body (the header decides parseability)
    let pos = t.range(70, b.len() - 1);
    b[pos] ^= 1 << t.below(8);
    RangeProof::from_slice(&b).ok().filter(|q| q != p)
}
fn corrupt_surjproof(t: &mut Tape, p: &SurjectionProof) -> Option<SurjectionProof> {
    let mut b = p.serialize();
    if b.len() < 40 {
        return None;
    }
    let pos = t.range(b.len() / 2, b.len() - 1);
    b[pos] ^= 1 << t.below(8);
    SurjectionProof::from_slice(&b).ok().filter(|q| q != p)
}

/// the surjection domain size amount verification will see
fn domain_size(tx: &Transaction) -> usize {
    tx.input
        .iter()
        .map(|i| 1 + usize::from(!i.asset_issuance.amount.is_null()) + usize::from(!i.asset_issuance.inflation_keys.is_null()))
        .sum()
}

/// `must_use`: indices of spent outputs that some surjection proof of `tx` necessarily uses (the only
/// domain entry of the asset of a blinded output), known when the harness built the base
fn tampers(t: &mut Tape, tx: &Transaction, spent: &[TxOut], must_use: &[usize], ctx: &mut Ctx) -> Vec<Tamper> {
    let p = pool();
    let mut out: Vec<Tamper> = Vec::new();
    let mut push = |class: &'static str, tx2: Transaction, spent2: Vec<TxOut>, len: bool, out: &mut Vec<Tamper>, ctx: &mut Ctx| {
        if &tx2 == tx && spent2 == spent {
            ctx.class("tamper:skipped-no-op");
        } else {
            out.push(Tamper { class, tx: tx2, spent: spent2, must_be_len_mismatch: len });
        }
    };
    let n = tx.output.len();
    let conf: Vec<usize> = (0..n).filter(|&i| tx.output[i].value.v_conf()).collect();
    for i in 0..n {
        let o = &tx.output[i];
        // explicit amount +-1, explicit asset replaced
        if let Value::Explicit(v) = o.value {
            let mut a = tx.clone();
            a.output[i].value = Value::Explicit(v.wrapping_add(1));
            push("explicit-amount+1", a, spent.to_vec(), false, &mut out, ctx);
            if v > 1 {
                let mut b = tx.clone();
                b.output[i].value = Value::Explicit(v - 1);
                push("explicit-amount-1", b, spent.to_vec(), false, &mut out, ctx);
            }
        }
        if o.value == Value::Explicit(0) && ext::ref_unspendable(&o.script_pubkey) {
            // the output takes no part in the balance: another asset id on it changes nothing the
            // statement speaks about
            ctx.class("tamper:skipped-asset-of-zero-value-unspendable-output");
        } else if let Asset::Explicit(a) = o.asset {
            let mut b = tx.clone();
            let other = p.assets.iter().find(|x| **x != a).copied().unwrap_or(AssetId::LIQUID_BTC);
            b.output[i].asset = Asset::Explicit(other);
            push("explicit-asset-replaced", b, spent.to_vec(), false, &mut out, ctx);
        }
        if o.value.v_conf() {
            // commitment replaced by another valid one
            let mut a = tx.clone();
            let c = p.commitments[t.below(p.commitments.len())];
            a.output[i].value = Value::Confidential(c);
            push("value-commitment-replaced", a, spent.to_vec(), false, &mut out, ctx);
            // proofs removed / corrupted
            let mut b = tx.clone();
            b.output[i].witness.rangeproof = None;
            push("rangeproof-removed", b, spent.to_vec(), false, &mut out, ctx);
            if let Some(rp) = &o.witness.rangeproof {
                if let Some(bad) = corrupt_rangeproof(t, rp) {
                    let mut c = tx.clone();
                    c.output[i].witness.rangeproof = Some(Box::new(bad));
                    push("rangeproof-corrupted", c, spent.to_vec(), false, &mut out, ctx);
                } else {
                    ctx.class("tamper:skipped-corruption-unparseable");
                }
            }
            // script of a blinded output changed
            let mut d = tx.clone();
            let mut sb = d.output[i].script_pubkey.to_bytes();
            let k = t.below(sb.len().max(1));
            if sb.is_empty() {
                sb.push(0x51)
            } else {
                sb[k] ^= 1 << t.below(8)
            }
            d.output[i].script_pubkey = Script::from(sb);
            push("blinded-output-script-changed", d, spent.to_vec(), false, &mut out, ctx);
            // ... and replaced by a script of another class: the range proof binds the output to its script
            // whatever that script is (unspendable, empty, longer, shorter, another program)
            let orig = tx.output[i].script_pubkey.to_bytes();
            let first = t.below(7);
            for k in 0..2 {
                let nb: Vec<u8> = match (first + 3 * k) % 7 {
                    0 => vec![0x6a],
                    1 => {
                        let mut v = vec![0x6a];
                        v.extend_from_slice(&orig);
                        v
                    }
                    2 => vec![0x6a, 0x04, 0xde, 0xad, 0xbe, 0xef],
                    3 => vec![],
                    4 => {
                        let mut v = orig.clone();
                        v.push(0x51);
                        v
                    }
                    5 => orig[..orig.len().saturating_sub(1)].to_vec(),
                    _ => {
                        let mut v = vec![0x00, 0x14];
                        v.extend_from_slice(&t.bytes(20));
                        v
                    }
                };
                if nb == orig {
                    continue;
                }
                let mut d = tx.clone();
                d.output[i].script_pubkey = Script::from(nb);
                push("blinded-output-script-replaced", d, spent.to_vec(), false, &mut out, ctx);
            }
        }
        if o.asset.v_conf() {
            let mut a = tx.clone();
            let g = p.generators[t.below(p.generators.len())];
            a.output[i].asset = Asset::Confidential(g);
            push("asset-commitment-replaced", a, spent.to_vec(), false, &mut out, ctx);
            let mut b = tx.clone();
            b.output[i].witness.surjection_proof = None;
            push("surjectionproof-removed", b, spent.to_vec(), false, &mut out, ctx);
            if let Some(sp) = &o.witness.surjection_proof {
                if let Some(bad) = corrupt_surjproof(t, sp) {
                    let mut c = tx.clone();
                    c.output[i].witness.surjection_proof = Some(Box::new(bad));
                    push("surjectionproof-corrupted", c, spent.to_vec(), false, &mut out, ctx);
                } else {
                    ctx.class("tamper:skipped-corruption-unparseable");
                }
            }
        }
    }
    // exchanges between two confidential outputs
    for w in conf.windows(2) {
        let (i, j) = (w[0], w[1]);
        let mut a = tx.clone();
        let (vi, vj) = (a.output[i].value, a.output[j].value);
        a.output[i].value = vj;
        a.output[j].value = vi;
        push("value-commitments-exchanged", a, spent.to_vec(), false, &mut out, ctx);
        let mut b = tx.clone();
        let (ai, aj) = (b.output[i].asset, b.output[j].asset);
        b.output[i].asset = aj;
        b.output[j].asset = ai;
        push("asset-commitments-exchanged", b, spent.to_vec(), false, &mut out, ctx);
        let mut c = tx.clone();
        let (ri, rj) = (c.output[i].witness.rangeproof.clone(), c.output[j].witness.rangeproof.clone());
        c.output[i].witness.rangeproof = rj;
        c.output[j].witness.rangeproof = ri;
        push("rangeproofs-exchanged", c, spent.to_vec(), false, &mut out, ctx);
        let mut d = tx.clone();
        let (si, sj) = (d.output[i].witness.surjection_proof.clone(), d.output[j].witness.surjection_proof.clone());
        d.output[i].witness.surjection_proof = sj;
        d.output[j].witness.surjection_proof = si;
        push("surjectionproofs-exchanged", d, spent.to_vec(), false, &mut out, ctx);
    }
    // issuance amount changed
    for (k, inp) in tx.input.iter().enumerate() {
        if let Value::Explicit(v) = inp.asset_issuance.amount {
            let mut a = tx.clone();
            a.input[k].asset_issuance.amount = Value::Explicit(if v == u64::MAX { v - 1 } else { v + 1 });
            push("issuance-amount-changed", a, spent.to_vec(), false, &mut out, ctx);
        }
        if let Value::Explicit(v) = inp.asset_issuance.inflation_keys {
            let mut a = tx.clone();
            a.input[k].asset_issuance.inflation_keys = Value::Explicit(if v == u64::MAX { v - 1 } else { v + 1 });
            push("issuance-inflation-keys-changed", a, spent.to_vec(), false, &mut out, ctx);
        }
    }
    // issuance amounts: commitment replaced / amount removed
    for (k, inp) in tx.input.iter().enumerate() {
        let iss = &inp.asset_issuance;
        if iss.amount.v_conf() {
            let mut a = tx.clone();
            a.input[k].asset_issuance.amount = Value::Confidential(p.commitments[t.below(p.commitments.len())]);
            push("issuance-amount-commitment-replaced", a, spent.to_vec(), false, &mut out, ctx);
        }
        if iss.inflation_keys.v_conf() {
            let mut a = tx.clone();
            a.input[k].asset_issuance.inflation_keys = Value::Confidential(p.commitments[t.below(p.commitments.len())]);
            push("issuance-inflation-keys-commitment-replaced", a, spent.to_vec(), false, &mut out, ctx);
        }
        if !iss.amount.is_null() && iss.amount != Value::Explicit(0) {
            let mut a = tx.clone();
            a.input[k].asset_issuance.amount = Value::Null;
            push("issuance-amount-removed", a, spent.to_vec(), false, &mut out, ctx);
        }
        if !iss.inflation_keys.is_null() && iss.inflation_keys != Value::Explicit(0) {
            let mut a = tx.clone();
            a.input[k].asset_issuance.inflation_keys = Value::Null;
            push("issuance-inflation-keys-removed", a, spent.to_vec(), false, &mut out, ctx);
        }
    }
    // different spent outputs: the asset. Only where the change is necessarily visible: the spent
    // output has an explicit amount (its commitment v*H changes), every proof uses every domain
    // entry (domain <= 3), or the harness knows that a proof must use this entry.
    let small_domain = domain_size(tx) <= 3 && tx.output.iter().any(|o| o.asset.v_conf() && o.witness.surjection_proof.is_some());
    for k in 0..spent.len() {
        let why = match spent[k].value {
            Value::Explicit(v) if v > 0 => Some("spent-output-asset-replaced:explicit-amount"),
            _ if must_use.contains(&k) => Some("spent-output-asset-replaced:only-entry-of-a-blinded-outputs-asset"),
            _ if small_domain => Some("spent-output-asset-replaced:domain<=3"),
            _ => None,
        };
        match why {
            Some(class) => {
                let mut s = spent.to_vec();
                s[k].asset = match s[k].asset {
                    Asset::Explicit(a) => Asset::Explicit(p.assets.iter().find(|x| **x != a).copied().unwrap_or(AssetId::LIQUID_BTC)),
                    other => {
                        let g = p.generators[t.below(p.generators.len())];
                        if Asset::Confidential(g) != other {
                            Asset::Confidential(g)
                        } else {
                            Asset::Confidential(p.generators[(t.below(p.generators.len() - 1) + 1) % p.generators.len()])
                        }
                    }
                };
                push(class, tx.clone(), s, false, &mut out, ctx);
            }
            None => ctx.class("tamper:skipped-spent-asset-not-necessarily-detectable"),
        }
        // a spent output without asset / value can never be verified against
        let mut s = spent.to_vec();
        s[k].asset = Asset::Null;
        push("spent-output-asset-null", tx.clone(), s, false, &mut out, ctx);
        let mut s = spent.to_vec();
        s[k].value = Value::Null;
        push("spent-output-value-null", tx.clone(), s, false, &mut out, ctx);
        // another output altogether
        let mut s = spent.to_vec();
        s[k] = TxOut {
            asset: Asset::Confidential(p.generators[t.below(p.generators.len())]),
            value: Value::Confidential(p.commitments[t.below(p.commitments.len())]),
            nonce: Nonce::Null,
            script_pubkey: Script::new(),
            witness: TxOutWitness::empty(),
        };
        push("spent-output-replaced", tx.clone(), s, false, &mut out, ctx);
    }
    // different spent outputs: the value
    for k in 0..spent.len() {
        let mut s = spent.to_vec();
        match s[k].value {
            Value::Explicit(v) => s[k].value = Value::Explicit(if v == u64::MAX { v - 1 } else { v + 1 }),
            Value::Confidential(_) => s[k].value = Value::Confidential(p.commitments[t.below(p.commitments.len())]),
            Value::Null => {}
        }
        push("spent-output-value-altered", tx.clone(), s, false, &mut out, ctx);
    }
    // wrong count
    {
        let mut s = spent.to_vec();
        if t.bool() || s.is_empty() {
            s.push(spent.first().cloned().unwrap_or_default());
        } else {
            s.pop();
        }
        out.push(Tamper { class: "spent-outputs-wrong-count", tx: tx.clone(), spent: s, must_be_len_mismatch: true });
    }
    // permutation: only where it is necessarily detectable (every domain element takes part in each
    // surjection proof, i.e. domain size <= 3, and the exchanged outputs differ in asset generator)
    if spent.len() >= 2 && domain_size(tx) <= 3 && tx.output.iter().any(|o| o.asset.v_conf() && o.witness.surjection_proof.is_some()) {
        let mut s = spent.to_vec();
        if s[0].asset != s[1].asset {
            s.swap(0, 1);
            out.push(Tamper { class: "spent-outputs-permuted", tx: tx.clone(), spent: s, must_be_len_mismatch: false });
        } else {
            ctx.class("tamper:skipped-permutation-same-asset");
        }
    } else if spent.len() >= 2 {
        ctx.class("tamper:skipped-permutation-not-necessarily-detectable");
    }
    out
}

fn tamper_passed(tm: &Tamper, base_sig: &str, tx: &Transaction, spent: &[TxOut], order: &str) -> Failure {
    // where the tampered pair differs from the base
    let form = |o: &TxOut| {
        format!(
            "{} amount {}, {} asset, range proof {}, surjection proof {}, script of {} bytes starting {:02x?}{}",
            if o.value.v_conf() { "confidential" } else if o.value.is_null() { "null" } else { "explicit" },
            o.value.explicit().map_or(String::new(), |v| v.to_string()),
            if o.asset.v_conf() { "confidential" } else if o.asset.is_null() { "null" } else { "explicit" },
            if o.witness.rangeproof.is_some() { "present" } else { "absent" },
            if o.witness.surjection_proof.is_some() { "present" } else { "absent" },
            o.script_pubkey.len(),
            o.script_pubkey.as_bytes().first(),
            if ext::ref_unspendable(&o.script_pubkey) { " (provably unspendable)" } else { "" }
        )
    };
    let mut at = String::new();
    if let Some(i) = (0..tx.output.len().min(tm.tx.output.len())).find(|i| tx.output[*i] != tm.tx.output[*i]) {
        at = format!("output {}: {} -> {}", i, form(&tx.output[i]), form(&tm.tx.output[i]));
    } else if let Some(i) = (0..tx.input.len().min(tm.tx.input.len())).find(|i| tx.input[*i] != tm.tx.input[*i]) {
        at = format!("input {}: issuance {:?} -> {:?}", i, tx.input[i].asset_issuance, tm.tx.input[i].asset_issuance);
    } else if let Some(i) = (0..spent.len().min(tm.spent.len())).find(|i| spent[*i] != tm.spent[*i]) {
        at = format!("spent output {}: {} -> {}", i, form(&spent[i]), form(&tm.spent[i]));
    } else if spent.len() != tm.spent.len() {
        at = format!("{} spent outputs instead of {}", tm.spent.len(), spent.len());
    }
    Failure::new(format!(
        "amount verification still succeeds after tamper `{}` of a verifying transaction ({}; {})\n at {}\n tx outputs={} inputs={} surjection domain={} confidential issuance amounts / keys={}",
        tm.class,
        base_sig,
        order,
        at,
        tx.output.len(),
        tx.input.len(),
        domain_size(tx),
        tx.input.iter().map(|i| usize::from(i.asset_issuance.amount.v_conf()) + usize::from(i.asset_issuance.inflation_keys.v_conf())).sum::<usize>()
    ))
}

/// Base and tampers. A base the library does not accept is outside the quantifier ("starting from
/// any transaction that verifies"): counted and excluded, C04 owns that failure. For a tape-chosen
/// half of the cases the tampers are verified *before* the base is verified for the first time, and
/// the base is verified again at the end (a rejection there is counted, not failed: C04 checks it).
fn run_tampers(t: &mut Tape, tx: &Transaction, spent: &[TxOut], base_sig: &str, must_use: &[usize], extra: Vec<Tamper>, ctx: &mut Ctx) -> R {
    let tampers_first = t.bool();
    if !tampers_first {
        let base = verify(tx, spent)?;
        ctx.eval();
        if base.is_err() {
            ctx.class("base-not-verifying(excluded; C04's business)");
            ctx.exclude();
            return Ok(());
        }
    }
    let mut list = tampers(t, tx, spent, must_use, ctx);
    list.extend(extra);
    let mut passed: Option<usize> = None;
    let mut rejected: Vec<usize> = Vec::new();
    for (n, tm) in list.iter().enumerate() {
        let r = verify(&tm.tx, &tm.spent)?;
        ctx.eval();
        match r {
            Ok(()) => {
                if !tampers_first {
                    return Err(tamper_passed(tm, base_sig, tx, spent, "base verified first"));
                }
                passed.get_or_insert(n);
            }
            Err(e) => {
                if tm.must_be_len_mismatch {
                    ensure!(e == VerificationError::UtxoInputLenMismatch, "a spent-output list of the wrong length is rejected as {:?}, not as UtxoInputLenMismatch", e);
                }
                rejected.push(n);
            }
        }
    }
    // the genuine pair again (first time for the tampers-first order)
    let again = verify(tx, spent)?;
    ctx.eval();
    if again.is_err() {
        if tampers_first {
            ctx.class("base-not-verifying(excluded; C04's business)");
            ctx.exclude();
            return Ok(());
        }
        ctx.class("base-rejected-when-verified-again-after-tampers(counted only)");
    }
    if let Some(n) = passed {
        return Err(tamper_passed(&list[n], base_sig, tx, spent, "tampers verified before the base"));
    }
    ctx.class(if tampers_first { "order:tampers-before-base" } else { "order:base-before-tampers" });
    for n in rejected {
        let tm = &list[n];
        ctx.class(&format!("tamper:{}", tm.class));
        ctx.nontrivial(&(base_sig, tm.class, crate::refimpl::enc::tx_full(&tm.tx), tm.spent.len()));
    }
    Ok(())
}

/// spent outputs that are the only surjection-domain entry of the asset of some asset-blinded output
fn sole_entries(tx: &Transaction, secrets: &[TxOutSecrets], blinded_assets: &[AssetId]) -> Vec<usize> {
    let mut out = Vec::new();
    let mut cursor = 0usize;
    for (k, inp) in tx.input.iter().enumerate() {
        if let Some(sec) = secrets.get(cursor) {
            if blinded_assets.contains(&sec.asset) && secrets.iter().filter(|x| x.asset == sec.asset).count() == 1 {
                out.push(k);
            }
        }
        cursor += 1 + usize::from(!inp.asset_issuance.amount.is_null()) + usize::from(!inp.asset_issuance.inflation_keys.is_null());
    }
    out
}

const BASE_OPTS: CtOpts = CtOpts { allow_unmarked: false, ext_scripts: true, explicit_nonces: true, burn_outputs: true, huge: false };

fn tamper_generated(t: &mut Tape, ctx: &mut Ctx) -> R {
    let x = ext::gen_ct_case_ext(t, CtOpts { huge: true, ..BASE_OPTS });
    let case: &CtCase = &x.case;
    let sig = format!("generated:{}", hex(&case.rng_seed[..8]));
    let (tx, _map) = match c04::blind_case(case) {
        Ok(r) => r,
        Err(_) => {
            // blinding is C04's property
            ctx.class("base-not-blindable(excluded; C04's business)");
            ctx.exclude();
            return Ok(());
        }
    };
    if ctx.wants_sample("generated-base") {
        ctx.sample("generated-base", || c04::describe(case));
    }
    if !x.burn.is_empty() {
        ctx.class("generated-base:positive-amount-on-burn-script");
    }
    if x.huge {
        ctx.class("generated-base:huge-amount");
    }
    let blinded_assets: Vec<AssetId> = case.receivers.keys().filter_map(|i| case.tx.output[*i].asset.explicit()).collect();
    let must_use = sole_entries(&tx, &case.secrets, &blinded_assets);
    run_tampers(t, &tx, &case.spent, &sig, &must_use, Vec::new(), ctx)
}

/// Verifying bases with *partially* blinded outputs (confidential amount over an explicit asset,
/// confidential asset with an explicit amount) next to fully blinded and explicit ones, over spent
/// outputs of every form, with blinded outputs on OP_RETURN / oversize / empty / non-standard
/// scripts, positive and zero amounts on provably unspendable scripts, and confidential issuance
/// amounts. Built from the secp256k1-zkp primitives alone (the balancing blinding factor is the
/// harness's own modular arithmetic), checked with the harness's own amount verifier; the library
/// must accept the base before anything is tampered with (otherwise the case is excluded).
fn tamper_hybrid(t: &mut Tape, ctx: &mut Ctx) -> R {
    let x = ext::gen_ct_case_ext(t, BASE_OPTS);
    let case: &CtCase = &x.case;
    let s = secp();
    let p = pool();
    let mut rng = ChaCha20Rng::from_seed(case.rng_seed);
    let mut tx = case.tx.clone();
    let mut secrets: Vec<TxOutSecrets> = case.secrets.clone();
    // a zero-value output on a provably unspendable script (outside the balance)
    let mut zero_idx: Option<usize> = None;
    if t.chance(80) {
        let asset = match t.below(3) {
            0 => tx.output[0].asset,
            1 => tx.output[t.below(tx.output.len())].asset,
            _ => Asset::Explicit(p.assets[t.below(p.assets.len())]),
        };
        let script = if t.chance(64) { Script::new() } else { ext::burn_script(t).0 };
        let at = t.below(tx.output.len() + 1);
        tx.output.insert(at, TxOut { asset, value: Value::Explicit(0), nonce: Nonce::Null, script_pubkey: script, witness: TxOutWitness::empty() });
        zero_idx = Some(at);
    }
    // confidential issuance amounts (the token id depends on the amount being confidential)
    let mut conf_issuance = false;
    {
        let mut cursor = 0usize;
        for k in 0..tx.input.len() {
            cursor += 1;
            let iss = tx.input[k].asset_issuance;
            let amount_entry = if iss.amount.is_null() { None } else { Some(cursor) };
            cursor += usize::from(amount_entry.is_some());
            let keys_entry = if iss.inflation_keys.is_null() { None } else { Some(cursor) };
            cursor += usize::from(keys_entry.is_some());
            let both = amount_entry.is_some() && keys_entry.is_some();
            if iss.is_null() || !t.chance(if both { 230 } else { 150 }) {
                continue;
            }
            // 0 amount, 1 keys, 2 both
            let which = if both { t.choose(&[2usize, 0, 2, 1]) } else { t.below(3) };
            if let (Some(e), Value::Explicit(v), true) = (amount_entry, iss.amount, which != 1) {
                let vbf = ct::vbf_from(t, 300 + k as u32);
                let g = Generator::new_unblinded(s, secrets[e].asset.into_tag());
                tx.input[k].asset_issuance.amount = Value::Confidential(PedersenCommitment::new(s, v, vbf.into_inner(), g));
                secrets[e].value_bf = vbf;
                conf_issuance = true;
                if let Some(ke) = keys_entry {
                    // the reissuance token of a confidential issuance is another asset
                    let old = secrets[ke].asset;
                    let (_, new) = ct::ref_issuance_ids(&tx.input[k]);
                    secrets[ke].asset = new;
                    for o in tx.output.iter_mut() {
                        if o.asset == Asset::Explicit(old) {
                            o.asset = Asset::Explicit(new);
                        }
                    }
                    ctx.class("hybrid-base:token-of-a-confidential-issuance");
                }
            }
            if let (Some(e), Value::Explicit(v), true) = (keys_entry, iss.inflation_keys, which != 0) {
                let vbf = ct::vbf_from(t, 400 + k as u32);
                let g = Generator::new_unblinded(s, secrets[e].asset.into_tag());
                tx.input[k].asset_issuance.inflation_keys = Value::Confidential(PedersenCommitment::new(s, v, vbf.into_inner(), g));
                secrets[e].value_bf = vbf;
                conf_issuance = true;
            }
        }
    }
    // form of each output: 0 explicit, 1 fully blinded, 2 amount only, 3 asset only
    let n = tx.output.len();
    let mut form: Vec<usize> = (0..n)
        .map(|i| {
            if Some(i) == zero_idx {
                0
            } else if tx.output[i].script_pubkey.is_empty() {
                // a fee-shaped output stays explicit, except now and then
                if t.chance(24) { 1 + t.below(3) } else { 0 }
            } else {
                t.below(4)
            }
        })
        .collect();
    if !form.iter().any(|f| *f == 1 || *f == 2) {
        // some output has to absorb the blinding factors of the others and of the spent outputs
        if let Some(k) = (0..n).find(|i| Some(*i) != zero_idx && !tx.output[*i].script_pubkey.is_empty() && !ext::ref_unspendable(&tx.output[*i].script_pubkey)) {
            form[k] = 2;
        } else if let Some(k) = (0..n).find(|i| Some(*i) != zero_idx) {
            form[k] = 2;
        }
    }
    let Some(last) = (0..n).rev().find(|i| form[*i] == 1 || form[*i] == 2) else {
        ctx.exclude();
        return Ok(());
    };
    // scripts of blinded outputs: now and then provably unspendable, empty or non-standard
    let mut odd_script = false;
    for i in 0..n {
        if form[i] == 0 && Some(i) != zero_idx && !tx.output[i].script_pubkey.is_empty() && t.chance(48) {
            // an explicit positive amount that is burnt
            tx.output[i].script_pubkey = ext::burn_script(t).0;
        }
        if form[i] != 0 && t.chance(56) {
            tx.output[i].script_pubkey = match t.below(4) {
                0 => ext::op_return_script(t).0,
                1 => Script::from(vec![0x51; 10_001]),
                2 => Script::new(),
                _ => {
                    // bare scripts no address stands for
                    let mut v = vec![0x51, 0x21];
                    v.extend_from_slice(&p.pubkeys[t.below(p.pubkeys.len())].serialize());
                    v.extend_from_slice(&[0x51, 0xae]);
                    let cut = t.below(4);
                    v.truncate(v.len() - cut);
                    Script::from(v)
                }
            };
            odd_script = true;
        }
    }
    let mut abfs = Vec::new();
    let mut vbfs = Vec::new();
    for i in 0..n {
        abfs.push(if form[i] == 1 || form[i] == 3 { ct::abf_from(t, 100 + i as u32) } else { AssetBlindingFactor::zero() });
        vbfs.push(if (form[i] == 1 || form[i] == 2) && i != last { ct::vbf_from(t, 200 + i as u32) } else { ValueBlindingFactor::zero() });
    }
    let plain: Vec<(AssetId, u64)> = tx.output.iter().map(|o| (o.asset.explicit().unwrap_or(AssetId::LIQUID_BTC), o.value.explicit().unwrap_or(0))).collect();
    let ins: Vec<(u64, AssetBlindingFactor, ValueBlindingFactor)> = secrets.iter().map(|x| (x.value, x.asset_bf, x.value_bf)).collect();
    let outs: Vec<(u64, AssetBlindingFactor, ValueBlindingFactor)> = (0..n).filter(|i| *i != last).map(|i| (plain[i].1, abfs[i], vbfs[i])).collect();
    vbfs[last] = match ext::ref_last_vbf(plain[last].1, abfs[last], &ins, &outs) {
        Some(v) => v,
        None => {
            ctx.exclude();
            return Ok(());
        }
    };
    let domain: Vec<(Generator, elements::secp256k1_zkp::Tag, elements::secp256k1_zkp::Tweak)> = secrets
        .iter()
        .map(|x| {
            let tag = x.asset.into_tag();
            let g = if x.asset_bf == AssetBlindingFactor::zero() { Generator::new_unblinded(s, tag) } else { Generator::new_blinded(s, tag, x.asset_bf.into_inner()) };
            (g, tag, x.asset_bf.into_inner())
        })
        .collect();
    let mut extra: Vec<Tamper> = Vec::new();
    for i in 0..n {
        let (asset, value) = plain[i];
        let tag = asset.into_tag();
        let blinded_asset = form[i] == 1 || form[i] == 3;
        let blinded_value = form[i] == 1 || form[i] == 2;
        let g = if blinded_asset { Generator::new_blinded(s, tag, abfs[i].into_inner()) } else { Generator::new_unblinded(s, tag) };
        let o = &mut tx.output[i];
        if blinded_asset {
            o.asset = Asset::Confidential(g);
            let sp = SurjectionProof::new(s, &mut rng, tag, abfs[i].into_inner(), &domain);
            match sp {
                Ok(sp) => o.witness.surjection_proof = Some(Box::new(sp)),
                Err(e) => return Err(Failure::panic(format!("harness: surjection proof for output {} cannot be built: {}", i, e), "src/props/c05.rs".into())),
            }
        }
        if blinded_value {
            let comm = PedersenCommitment::new(s, value, vbfs[i].into_inner(), g);
            o.value = Value::Confidential(comm);
            let sk = p.seckeys[t.below(p.seckeys.len())];
            let msg = [i as u8; 64];
            let rp = RangeProof::new(s, 1, comm, value, vbfs[i].into_inner(), &msg, o.script_pubkey.as_bytes(), sk, 0, 52, g);
            match rp {
                Ok(rp) => o.witness.rangeproof = Some(Box::new(rp)),
                Err(e) => return Err(Failure::panic(format!("harness: range proof for output {} cannot be built: {}", i, e), "src/props/c05.rs".into())),
            }
        }
        if blinded_asset || blinded_value {
            o.nonce = Nonce::Confidential(p.pubkeys[t.below(p.pubkeys.len())]);
        } else if o.nonce.v_conf() {
            // an explicit output keeps a null / explicit nonce, not a receiver key
            o.nonce = Nonce::Null;
        }
    }
    // a tamper only the balance can catch: one blinded amount re-committed to value + 1 with a
    // fresh, valid range proof (every proof of the tampered transaction is valid)
    for i in 0..n {
        if (form[i] == 1 || form[i] == 2) && t.chance(128) {
            let (_, value) = plain[i];
            let g = match tx.output[i].asset {
                Asset::Confidential(g) => g,
                Asset::Explicit(a) => Generator::new_unblinded(s, a.into_tag()),
                Asset::Null => continue,
            };
            let comm = PedersenCommitment::new(s, value + 1, vbfs[i].into_inner(), g);
            let sk = p.seckeys[t.below(p.seckeys.len())];
            if let Ok(rp) = RangeProof::new(s, 1, comm, value + 1, vbfs[i].into_inner(), &[i as u8; 64], tx.output[i].script_pubkey.as_bytes(), sk, 0, 52, g) {
                let mut b = tx.clone();
                b.output[i].value = Value::Confidential(comm);
                b.output[i].witness.rangeproof = Some(Box::new(rp));
                extra.push(Tamper { class: "blinded-amount+1-with-valid-range-proof", tx: b, spent: case.spent.clone(), must_be_len_mismatch: false });
            }
        }
    }
    // the base is valid by the rule itself, whatever the library says
    if let Err(e) = ext::ref_verify(&tx, &case.spent) {
        return Err(Failure::panic(format!("harness: the hand-built base does not verify under the harness's own verifier: {}", e), "src/props/c05.rs".into()));
    }
    for f in [1usize, 2, 3] {
        if form.contains(&f) {
            ctx.class(["", "hybrid-base:has-fully-blinded-output", "hybrid-base:has-amount-only-blinded-output", "hybrid-base:has-asset-only-blinded-output"][f]);
        }
    }
    if case.has_partial_input {
        ctx.class("hybrid-base:partially-blinded-spent-output");
    }
    if odd_script {
        ctx.class("hybrid-base:blinded-output-on-unspendable-empty-or-bare-script");
    }
    if zero_idx.is_some() {
        ctx.class("hybrid-base:zero-value-output-on-unspendable-script");
    }
    if conf_issuance {
        ctx.class("hybrid-base:confidential-issuance-amount");
    }
    if (0..n).any(|i| form[i] == 0 && plain[i].1 > 0 && !tx.output[i].script_pubkey.is_empty() && ext::ref_unspendable(&tx.output[i].script_pubkey)) {
        ctx.class("hybrid-base:positive-explicit-amount-on-burn-script");
    }
    let sig = format!("hybrid:{}:{}", hex(&case.rng_seed[..8]), form.iter().map(|f| f.to_string()).collect::<String>());
    if ctx.wants_sample("hybrid-base") {
        ctx.sample("hybrid-base", || json!({"case": c04::describe(case), "output_forms(0 explicit,1 full,2 amount only,3 asset only)": form.clone(),
            "script_lengths": tx.output.iter().map(|o| o.script_pubkey.len()).collect::<Vec<_>>(), "zero_value_output_at": zero_idx, "confidential_issuance": conf_issuance}));
    }
    let blinded_assets: Vec<AssetId> = (0..n).filter(|i| form[*i] == 1 || form[*i] == 3).map(|i| plain[i].0).collect();
    let must_use = sole_entries(&tx, &secrets, &blinded_assets);
    run_tampers(t, &tx, &case.spent, &sig, &must_use, extra, ctx)
}

/// the repository's real-network vector: tests/data/issue_tx.hex with its spent outputs (from the
/// `issuance` doc/unit test) is not self-contained offline; the doc-test transaction of
/// verify_tx_amt_proofs is, and so are the blinded forms of the generated cases.
fn repo_vectors(idx: u64, seed: u64, ctx: &mut Ctx) -> R {
    let vecs = verify_vectors();
    let (name, tx_hex, spent_hex) = &vecs[idx as usize % vecs.len()];
    let tx: Transaction = match unhex(tx_hex).and_then(|b| deserialize(&b).ok()) {
        Some(t) => t,
        None => return Err(Failure::panic(format!("vector {} does not decode", name), "src/props/c05.rs".into())),
    };
    let mut spent = Vec::new();
    for s in spent_hex {
        match unhex(s).and_then(|b| deserialize::<TxOut>(&b).ok()) {
            Some(o) => spent.push(o),
            None => return Err(Failure::panic(format!("vector {} spent output does not decode", name), "src/props/c05.rs".into())),
        }
    }
    let rnd = seeded_bytes(seed, idx, 2048);
    let mut t = Tape::new(&rnd);
    ctx.class(&format!("vector:{}", name));
    run_tampers(&mut t, &tx, &spent, name, &[], Vec::new(), ctx)
}

pub fn verify_vectors() -> Vec<(String, String, Vec<String>)> {
    let path = format!("{}/corpus/verify_vectors.json", verif_dir());
    let mut out = Vec::new();
    if let Ok(s) = std::fs::read_to_string(&path) {
        if let Ok(v) = serde_json::from_str::<serde_json::Value>(&s) {
            if let Some(a) = v.as_array() {
                for e in a {
                    let name = e.get("name").and_then(|x| x.as_str()).unwrap_or("?").to_string();
                    let tx = e.get("tx").and_then(|x| x.as_str()).unwrap_or("").to_string();
                    let sp = e.get("spent").and_then(|x| x.as_array()).map(|a| a.iter().filter_map(|x| x.as_str().map(String::from)).collect()).unwrap_or_default();
                    out.push((name, tx, sp));
                }
            }
        }
    }
    out
}

// ---- all-explicit transactions ---------------------------------------------------------------

fn unspendable_script(t: &mut Tape) -> Script {
    if t.chance(40) {
        // larger than the maximum script size
        Script::from(vec![0x51; 10_001])
    } else if t.chance(60) {
        // the empty script (fee output) counts as unspendable in Elements (CScript::IsUnspendable)
        Script::new()
    } else {
        let n = t.below(30);
        let mut v = vec![0x6a];
        if n > 0 {
            v.push(n as u8);
            v.extend(t.bytes(n));
        }
        Script::from(v)
    }
}

fn explicit_balance(t: &mut Tape, ctx: &mut Ctx) -> R {
    let p = pool();
    let n_assets = 1 + t.below(3);
    let n_in = 1 + t.below(4);
    let mut input = Vec::new();
    let mut spent = Vec::new();
    let mut totals: BTreeMap<AssetId, u128> = BTreeMap::new();
    for _ in 0..n_in {
        let asset = p.assets[t.below(n_assets)];
        let value = ct::gen_amount(t);
        *totals.entry(asset).or_insert(0) += u128::from(value);
        spent.push(TxOut { asset: Asset::Explicit(asset), value: Value::Explicit(value), nonce: Nonce::Null, script_pubkey: ct::std_script(t), witness: TxOutWitness::empty() });
        let mut txin = TxIn {
            previous_output: OutPoint { txid: gen::gen_txid(t), vout: gen::gen_vout(t) },
            is_pegin: false,
            script_sig: Script::new(),
            sequence: Sequence::MAX,
            asset_issuance: AssetIssuance::null(),
            witness: TxInWitness::empty(),
        };
        if t.chance(50) {
            let amount = ct::gen_amount(t);
            let reissue = t.bool();
            // asset only / asset + tokens / tokens only (null amount)
            let token_only = !reissue && t.chance(70);
            txin.asset_issuance = AssetIssuance {
                asset_blinding_nonce: if reissue { gen::gen_tweak(t) } else { elements::secp256k1_zkp::ZERO_TWEAK },
                asset_entropy: t.arr32(),
                amount: if token_only { Value::Null } else { Value::Explicit(amount) },
                inflation_keys: Value::Null,
            };
            let (aid, tid) = ct::ref_issuance_ids(&txin);
            if !token_only {
                *totals.entry(aid).or_insert(0) += u128::from(amount);
            }
            if token_only || (!reissue && t.bool()) {
                let k = ct::gen_amount(t);
                txin.asset_issuance.inflation_keys = Value::Explicit(k);
                *totals.entry(tid).or_insert(0) += u128::from(k);
            }
        }
        input.push(txin);
    }
    // outputs: exact split, then optionally an imbalance and zero-value outputs
    let mut output = Vec::new();
    for (asset, total) in &totals {
        let mut rest = u64::try_from(*total).unwrap_or(u64::MAX);
        let parts = 1 + t.below(rest.min(3) as usize);
        for k in 0..parts {
            let v = if k + 1 == parts { rest } else { 1 + ((u128::from(t.u64()) * u128::from(rest - (parts - k - 1) as u64 - 1)) >> 64) as u64 };
            rest -= v;
            let fee = t.chance(60);
            output.push(TxOut { asset: Asset::Explicit(*asset), value: Value::Explicit(v), nonce: Nonce::Null, script_pubkey: if fee { Script::new() } else { ct::std_script(t) }, witness: TxOutWitness::empty() });
        }
    }
    let mut balanced = true;
    let mut zero_on_spendable = false;
    let mut zero_on_unspendable = false;
    match t.below(6) {
        0 => {
            // off by a delta on one output
            let k = t.below(output.len());
            if let Value::Explicit(v) = output[k].value {
                let delta = 1 + u64::from(t.u8());
                let nv = if t.bool() { v.saturating_add(delta) } else { v.saturating_sub(delta).max(1) };
                if nv != v {
                    output[k].value = Value::Explicit(nv);
                    balanced = false;
                }
            }
        }
        1 => {
            // an output of an asset nobody pays in
            let other = p.assets.iter().find(|a| !totals.contains_key(*a)).copied();
            if let Some(a) = other {
                output.push(TxOut { asset: Asset::Explicit(a), value: Value::Explicit(ct::gen_amount(t)), nonce: Nonce::Null, script_pubkey: ct::std_script(t), witness: TxOutWitness::empty() });
                balanced = false;
            }
        }
        2 => {
            // drop an output
            if output.len() > 1 {
                let k = t.below(output.len());
                output.remove(k);
                balanced = false;
            }
        }
        _ => {}
    }
    match t.below(5) {
        0 => {
            let asset = *totals.keys().next().unwrap_or(&p.assets[0]);
            output.push(TxOut { asset: Asset::Explicit(asset), value: Value::Explicit(0), nonce: Nonce::Null, script_pubkey: unspendable_script(t), witness: TxOutWitness::empty() });
            zero_on_unspendable = true;
        }
        1 => {
            let asset = *totals.keys().next().unwrap_or(&p.assets[0]);
            let spk = if t.chance(100) {
                // scripts that can never succeed but are not *provably unspendable* in the consensus
                // sense (CScript::IsUnspendable: OP_RETURN first, or oversize): a reserved / invalid
                // first opcode, OP_RETURN not in first position, exactly the maximum size
                match t.below(4) {
                    0 => {
                        let first = t.choose(&[0x50u8, 0x62, 0x65, 0x66, 0x89, 0x8a, 0xba, 0xbb, 0xc0, 0xd0, 0xe0, 0xfd, 0xfe, 0xff, 0x69, 0x6b]);
                        let mut v = vec![first];
                        let extra = t.below(6);
                        v.extend(t.bytes(extra));
                        Script::from(v)
                    }
                    1 => Script::from(vec![0x51, 0x6a]),
                    2 => Script::from(vec![0x00, 0x6a, 0x01, 0x00]),
                    _ => Script::from(vec![0x51; 10_000]),
                }
            } else {
                ct::std_script(t)
            };
            output.push(TxOut { asset: Asset::Explicit(asset), value: Value::Explicit(0), nonce: Nonce::Null, script_pubkey: spk, witness: TxOutWitness::empty() });
            zero_on_spendable = true;
        }
        _ => {}
    }
    for i in (1..output.len()).rev() {
        let k = t.below(i + 1);
        output.swap(i, k);
    }
    let tx = Transaction { version: 2, lock_time: LockTime::ZERO, input, output };
    // the harness's own per-asset balance
    let mut bal: BTreeMap<AssetId, i128> = BTreeMap::new();
    for (a, v) in &totals {
        *bal.entry(*a).or_insert(0) += *v as i128;
    }
    for o in &tx.output {
        if let (Asset::Explicit(a), Value::Explicit(v)) = (o.asset, o.value) {
            *bal.entry(a).or_insert(0) -= v as i128;
        }
    }
    let own_balanced = bal.values().all(|v| *v == 0);
    ensure_eq!(own_balanced, balanced, "generator bookkeeping");
    let should_verify = own_balanced && !zero_on_spendable;
    let r = verify(&tx, &spent)?;
    ctx.eval();
    let cls = format!(
        "explicit:{}{}{}",
        if balanced { "balanced" } else { "unbalanced" },
        if zero_on_unspendable { "+zero-on-unspendable" } else { "" },
        if zero_on_spendable { "+zero-on-spendable" } else { "" }
    );
    match (&r, should_verify) {
        (Ok(()), true) | (Err(_), false) => {}
        (Err(e), true) => {
            let only_zero = zero_on_unspendable
                && matches!(e, VerificationError::SpentTxOutError(_, elements::TxOutError::ZeroValueCommitment) | VerificationError::TxOutError(_, elements::TxOutError::ZeroValueCommitment));
            if only_zero && ctx.is_known(KF_ZERO_OPRETURN) {
                ctx.class("known:zero-value-unspendable-output-rejected");
            } else {
                return Err(Failure::new(format!(
                    "a balanced all-explicit transaction is rejected: {} ({:?}) [{}]\n outputs={:?}",
                    e,
                    e,
                    cls,
                    tx.output.iter().map(|o| (o.value.explicit(), o.script_pubkey.len(), o.script_pubkey.is_provably_unspendable())).collect::<Vec<_>>()
                )));
            }
        }
        (Ok(()), false) => {
            return Err(Failure::new(format!(
                "an all-explicit transaction verifies although {} [{}]\n balance={:?}",
                if !own_balanced { "inputs plus issuances differ from outputs plus fees" } else { "it has a zero-value output on a spendable script" },
                cls,
                bal
            )));
        }
    }
    ctx.class(&cls);
    if tx.input.len() >= 2 || !balanced || zero_on_spendable || zero_on_unspendable {
        ctx.nontrivial(&crate::refimpl::enc::tx_full(&tx));
    }
    if ctx.wants_sample(&cls) {
        ctx.sample(&cls, || json!({"inputs": tx.input.len(), "issuances": tx.input.iter().filter(|i| i.has_issuance()).count(),
            "outputs": tx.output.iter().map(|o| json!({"value": o.value.explicit(), "script_len": o.script_pubkey.len()})).collect::<Vec<_>>(),
            "verifies": r.is_ok()}));
    }
    // wrong length is reported as such
    let mut s2 = spent.clone();
    s2.push(TxOut::default());
    let r2 = verify(&tx, &s2)?;
    ensure!(r2 == Err(VerificationError::UtxoInputLenMismatch), "spent-output list of the wrong length: {:?}", r2);
    Ok(())
}

/// the statement's rule for all-explicit transactions, in integers: per asset, inputs + issuances ==
/// outputs + fees; a zero amount only on a provably unspendable script (where it is outside the balance)
fn explicit_expected(tx: &Transaction, spent: &[TxOut]) -> Option<(bool, bool)> {
    let mut bal: BTreeMap<AssetId, i128> = BTreeMap::new();
    for (i, inp) in tx.input.iter().enumerate() {
        let (Asset::Explicit(a), Value::Explicit(v)) = (spent.get(i)?.asset, spent.get(i)?.value) else { return None };
        *bal.entry(a).or_insert(0) += i128::from(v);
        let (aid, tid) = ct::ref_issuance_ids(inp);
        match inp.asset_issuance.amount {
            Value::Explicit(v) => *bal.entry(aid).or_insert(0) += i128::from(v),
            Value::Null => {}
            Value::Confidential(_) => return None,
        }
        match inp.asset_issuance.inflation_keys {
            Value::Explicit(v) => *bal.entry(tid).or_insert(0) += i128::from(v),
            Value::Null => {}
            Value::Confidential(_) => return None,
        }
    }
    let mut zero_on_spendable = false;
    for o in &tx.output {
        let (Asset::Explicit(a), Value::Explicit(v)) = (o.asset, o.value) else { return None };
        if v == 0 {
            zero_on_spendable |= !ext::ref_unspendable(&o.script_pubkey);
        } else {
            *bal.entry(a).or_insert(0) -= i128::from(v);
        }
    }
    Some((bal.values().all(|v| *v == 0), zero_on_spendable))
}

/// a script that can never succeed but is not provably unspendable, or an ordinary one
fn spendable_script(t: &mut Tape) -> Script {
    match t.below(6) {
        0 => {
            let first = t.choose(&[0x50u8, 0x62, 0x65, 0x66, 0x89, 0x8a, 0xba, 0xbb, 0xc0, 0xd0, 0xe0, 0xfd, 0xfe, 0xff, 0x69, 0x6b]);
            let mut v = vec![first];
            let extra = t.below(6);
            v.extend(t.bytes(extra));
            Script::from(v)
        }
        1 => Script::from(vec![0x51, 0x6a]),
        2 => Script::from(vec![0x00, 0x6a, 0x01, 0x00]),
        3 => Script::from(vec![0x51; 10_000]),
        4 => Script::from(vec![0x4c, 0x01, 0x6a]), // OP_RETURN as pushed data
        _ => ext::std_script_ext(t).0,
    }
}

/// All-explicit transactions, second generation: positive amounts on OP_RETURN / oversize scripts
/// ("burns": inside the balance), zero amounts on every kind of provably unspendable script
/// including ill-formed OP_RETURN scripts (outside the balance) and on spendable ones (invalid), up
/// to two zero-value outputs of present or foreign assets, imbalances that keep the grand total
/// (value moved between two assets, asset ids exchanged), and a history: the same transaction is
/// first verified against an altered spent-output list, then against the genuine one, then
/// against the altered one again; each answer must be the rule's.
fn explicit_balance2(t: &mut Tape, ctx: &mut Ctx) -> R {
    let p = pool();
    let n_assets = 1 + t.below(3);
    let n_in = 1 + t.below(4);
    let mut input = Vec::new();
    let mut spent = Vec::new();
    let mut totals: BTreeMap<AssetId, u128> = BTreeMap::new();
    for _ in 0..n_in {
        let asset = p.assets[t.below(n_assets)];
        let value = ct::gen_amount(t);
        *totals.entry(asset).or_insert(0) += u128::from(value);
        spent.push(TxOut { asset: Asset::Explicit(asset), value: Value::Explicit(value), nonce: Nonce::Null, script_pubkey: ext::std_script_ext(t).0, witness: TxOutWitness::empty() });
        let mut txin = TxIn {
            previous_output: OutPoint { txid: gen::gen_txid(t), vout: gen::gen_vout(t) },
            is_pegin: false,
            script_sig: Script::new(),
            sequence: Sequence::MAX,
            asset_issuance: AssetIssuance::null(),
            witness: TxInWitness::empty(),
        };
        if t.chance(50) {
            let amount = ct::gen_amount(t);
            let reissue = t.bool();
            let token_only = !reissue && t.chance(70);
            txin.asset_issuance = AssetIssuance {
                asset_blinding_nonce: if reissue { gen::gen_tweak(t) } else { elements::secp256k1_zkp::ZERO_TWEAK },
                asset_entropy: t.arr32(),
                amount: if token_only { Value::Null } else { Value::Explicit(amount) },
                inflation_keys: Value::Null,
            };
            let (aid, tid) = ct::ref_issuance_ids(&txin);
            if !token_only {
                *totals.entry(aid).or_insert(0) += u128::from(amount);
            }
            if token_only || (!reissue && t.bool()) {
                let k = ct::gen_amount(t);
                txin.asset_issuance.inflation_keys = Value::Explicit(k);
                *totals.entry(tid).or_insert(0) += u128::from(k);
            }
        }
        input.push(txin);
    }
    // exact split; a part is a fee, a burn (positive amount on a provably unspendable script) or a payment
    let mut output = Vec::new();
    let mut burn_classes: Vec<&'static str> = Vec::new();
    for (asset, total) in &totals {
        let mut rest = u64::try_from(*total).unwrap_or(u64::MAX);
        let parts = 1 + t.below(rest.min(3) as usize);
        for k in 0..parts {
            let v = if k + 1 == parts { rest } else { 1 + ((u128::from(t.u64()) * u128::from(rest - (parts - k - 1) as u64 - 1)) >> 64) as u64 };
            rest -= v;
            let script = match t.below(4) {
                0 => Script::new(),
                1 => {
                    let (s, c) = ext::burn_script(t);
                    burn_classes.push(c);
                    s
                }
                _ => ext::std_script_ext(t).0,
            };
            output.push(TxOut { asset: Asset::Explicit(*asset), value: Value::Explicit(v), nonce: Nonce::Null, script_pubkey: script, witness: TxOutWitness::empty() });
        }
    }
    // imbalances
    let mut variant = "none";
    let is_burn = |o: &TxOut| !o.script_pubkey.is_empty() && ext::ref_unspendable(&o.script_pubkey);
    match t.below(10) {
        0 => {
            let k = t.below(output.len());
            if let Value::Explicit(v) = output[k].value {
                let delta = 1 + u64::from(t.u8());
                let nv = if t.bool() { v.saturating_add(delta) } else { v.saturating_sub(delta).max(1) };
                output[k].value = Value::Explicit(nv);
                variant = "delta";
            }
        }
        1 => {
            // the amount of a burn changes
            if let Some(k) = (0..output.len()).find(|k| is_burn(&output[*k])) {
                if let Value::Explicit(v) = output[k].value {
                    output[k].value = Value::Explicit(if t.bool() || v == 1 { v + 1 } else { v - 1 });
                    variant = "delta-on-burn";
                }
            }
        }
        2 => {
            // a burn of an amount nobody pays in: same asset (too much) or a foreign asset
            let a = if t.bool() { p.assets.iter().find(|a| !totals.contains_key(*a)).copied() } else { totals.keys().next().copied() };
            if let Some(a) = a {
                let (s, c) = ext::burn_script(t);
                burn_classes.push(c);
                output.push(TxOut { asset: Asset::Explicit(a), value: Value::Explicit(ct::gen_amount(t)), nonce: Nonce::Null, script_pubkey: s, witness: TxOutWitness::empty() });
                variant = "extra-burn";
            }
        }
        3 => {
            if output.len() > 1 {
                let k = t.below(output.len());
                output.remove(k);
                variant = "dropped-output";
            }
        }
        4 => {
            // value moves from an output of one asset to an output of another: the grand total stays
            let i = t.below(output.len());
            if let Some(j) = (0..output.len()).find(|j| output[*j].asset != output[i].asset) {
                if let (Value::Explicit(vi), Value::Explicit(vj)) = (output[i].value, output[j].value) {
                    if vj > 1 {
                        let d = (1 + u64::from(t.u8())).min(vj - 1).min(u64::MAX - vi);
                        if d > 0 {
                            output[i].value = Value::Explicit(vi + d);
                            output[j].value = Value::Explicit(vj - d);
                            variant = "moved-between-assets";
                        }
                    }
                }
            }
        }
        5 => {
            // two outputs of different assets exchange their asset ids
            let i = t.below(output.len());
            if let Some(j) = (0..output.len()).find(|j| output[*j].asset != output[i].asset) {
                let (ai, aj) = (output[i].asset, output[j].asset);
                output[i].asset = aj;
                output[j].asset = ai;
                variant = "asset-ids-exchanged";
            }
        }
        _ => {}
    }
    // zero-value outputs: 0..2, on provably unspendable or on spendable scripts, of any asset
    let n_zero = match t.below(8) {
        0..=3 => 0,
        4..=6 => 1,
        _ => 2,
    };
    let mut zero_classes: Vec<&'static str> = Vec::new();
    for _ in 0..n_zero {
        let asset = match t.below(3) {
            0 => *totals.keys().next().unwrap_or(&p.assets[0]),
            1 => p.assets[t.below(p.assets.len())],
            _ => output[t.below(output.len())].asset.explicit().unwrap_or(p.assets[0]),
        };
        let script = if t.chance(100) {
            zero_classes.push("zero-on-spendable");
            spendable_script(t)
        } else if t.chance(48) {
            zero_classes.push("zero-on:empty-script");
            Script::new()
        } else {
            let (s, c) = ext::burn_script(t);
            zero_classes.push(c);
            s
        };
        output.push(TxOut { asset: Asset::Explicit(asset), value: Value::Explicit(0), nonce: Nonce::Null, script_pubkey: script, witness: TxOutWitness::empty() });
    }
    for i in (1..output.len()).rev() {
        let k = t.below(i + 1);
        output.swap(i, k);
    }
    let tx = Transaction { version: 2, lock_time: LockTime::ZERO, input, output };
    // an altered spent-output list for the history (amount + 1 on one entry: same transaction id)
    let mut altered = spent.clone();
    let k = t.below(altered.len());
    if let Value::Explicit(v) = altered[k].value {
        altered[k].value = Value::Explicit(v + 1);
    }
    let history = t.below(3); // 0: genuine only, 1: altered, genuine, altered, 2: genuine, altered, genuine
    let sequence: &[bool] = match history {
        0 => &[true],
        1 => &[false, true, false],
        _ => &[true, false, true],
    };
    let mut genuine_verifies = false;
    for (step, genuine) in sequence.iter().enumerate() {
        let sp = if *genuine { &spent } else { &altered };
        let Some((balanced, zero_on_spendable)) = explicit_expected(&tx, sp) else {
            return Err(Failure::panic("harness: explicit_expected on a non-explicit transaction".into(), "src/props/c05.rs".into()));
        };
        let should = balanced && !zero_on_spendable;
        // the harness's two readings of the rule (integers / commitments) must agree
        let by_commitments = ext::ref_verify(&tx, sp);
        if by_commitments.is_ok() != should {
            return Err(Failure::panic(format!("harness: integer balance says {} but the commitment-based reference says {:?}", should, by_commitments), "src/props/c05.rs".into()));
        }
        let r = verify(&tx, sp)?;
        ctx.eval();
        let what = if *genuine { "the genuine spent outputs" } else { "a spent-output list with one amount raised by 1" };
        match (&r, should) {
            (Ok(()), true) | (Err(_), false) => {}
            (Err(e), true) => {
                return Err(Failure::new(format!(
                    "an all-explicit transaction that balances per asset is rejected against {} (call {} of {:?}, true = genuine): {} ({:?}) [imbalance={} burns={:?} zero-value outputs={:?}]\n outputs={:?}",
                    what, step + 1, sequence, e, e, variant, burn_classes, zero_classes,
                    tx.output.iter().map(|o| (o.value.explicit(), o.script_pubkey.len(), o.script_pubkey.as_bytes().first().copied())).collect::<Vec<_>>()
                )));
            }
            (Ok(()), false) => {
                return Err(Failure::new(format!(
                    "an all-explicit transaction verifies against {} (call {} of {:?}, true = genuine) although {} [imbalance={} burns={:?} zero-value outputs={:?}]\n outputs={:?}",
                    what, step + 1, sequence,
                    if !balanced { "inputs plus issuances differ from outputs plus fees" } else { "it has a zero-value output on a spendable script" },
                    variant, burn_classes, zero_classes,
                    tx.output.iter().map(|o| (o.value.explicit(), o.script_pubkey.len(), o.script_pubkey.as_bytes().first().copied())).collect::<Vec<_>>()
                )));
            }
        }
        if *genuine {
            genuine_verifies = should;
        }
    }
    ctx.class(&format!("explicit2:{}", if genuine_verifies { "verifies" } else { "rejected" }));
    ctx.class(&format!("explicit2:imbalance:{}", variant));
    ctx.class(&format!("explicit2:history:{}", ["genuine-only", "altered-genuine-altered", "genuine-altered-genuine"][history]));
    if tx.output.iter().any(|o| o.value.explicit().map_or(false, |v| v > 0) && is_burn(o)) {
        ctx.class(if genuine_verifies { "explicit2:positive-burn:verifies" } else { "explicit2:positive-burn:rejected" });
    }
    for c in &burn_classes {
        ctx.class(&format!("explicit2:burn-script:{}", c));
    }
    for c in &zero_classes {
        ctx.class(&format!("explicit2:zero-value:{}", c));
    }
    if n_zero == 2 {
        ctx.class("explicit2:two-zero-value-outputs");
    }
    ctx.nontrivial(&(crate::refimpl::enc::tx_full(&tx), history));
    let cls = format!("explicit2:{}:{}", variant, if genuine_verifies { "verifies" } else { "rejected" });
    if ctx.wants_sample(&cls) {
        ctx.sample(&cls, || json!({"inputs": tx.input.len(), "issuances": tx.input.iter().filter(|i| i.has_issuance()).count(),
            "outputs": tx.output.iter().map(|o| json!({"value": o.value.explicit(), "script_len": o.script_pubkey.len(), "first_byte": o.script_pubkey.as_bytes().first()})).collect::<Vec<_>>(),
            "verifies": genuine_verifies}));
    }
    Ok(())
}

fn exact_proofs(t: &mut Tape, ctx: &mut Ctx) -> R {
    let p = pool();
    let mut rng = ChaCha20Rng::from_seed(t.arr32());
    let asset = p.assets[t.below(p.assets.len())];
    let other_asset = p.assets.iter().find(|a| **a != asset).copied().unwrap_or(AssetId::LIQUID_BTC);
    let value = ct::gen_amount(t);
    let abf: AssetBlindingFactor = ct::abf_from(t, 1);
    let vbf: ValueBlindingFactor = ct::vbf_from(t, 2);
    let gen = match Asset::new_confidential(secp(), asset, abf) {
        Asset::Confidential(g) => g,
        _ => return Err(Failure::new("new_confidential did not give a commitment".to_string())),
    };
    let comm = match Value::new_confidential_from_assetid(secp(), value, asset, vbf, abf) {
        Value::Confidential(c) => c,
        _ => return Err(Failure::new("new_confidential_from_assetid did not give a commitment".to_string())),
    };
    let vp = guard::guard("blind_value_proof", 0, || RangeProof::blind_value_proof(&mut rng, secp(), value, comm, gen, vbf))?;
    let vp = match vp {
        Ok(p) => p,
        Err(e) => return Err(Failure::new(format!("blind_value_proof failed: {}", e))),
    };
    let ok = |v: u64, g: Generator, c: PedersenCommitment| guard::guard("blind_value_proof_verify", 0, || vp.blind_value_proof_verify(secp(), v, g, c));
    ensure!(ok(value, gen, comm)?, "exact-value proof does not verify for the right (value, generator, commitment)");
    ensure!(!ok(value + 1, gen, comm)?, "exact-value proof verifies for value+1");
    if value > 1 {
        ensure!(!ok(value - 1, gen, comm)?, "exact-value proof verifies for value-1");
    }
    let other_comm = p.commitments[t.below(p.commitments.len())];
    if other_comm != comm {
        ensure!(!ok(value, gen, other_comm)?, "exact-value proof verifies for another commitment");
    }
    let other_gen = p.generators[t.below(p.generators.len())];
    if other_gen != gen {
        ensure!(!ok(value, other_gen, comm)?, "exact-value proof verifies for another generator");
    }
    ctx.evals_n(5);
    // a proof whose range *starts* at the claimed value but does not end there: the commitment is to
    // value + d, the proof (minimum = value, 52 bits) is valid for it, and the claimed amount is wrong
    {
        let d = 1 + u64::from(t.u8());
        let c2 = PedersenCommitment::new(secp(), value + d, vbf.into_inner(), gen);
        let sk = p.seckeys[t.below(p.seckeys.len())];
        if let Ok(wide) = RangeProof::new(secp(), value, c2, value + d, vbf.into_inner(), &[], &[], sk, 0, 52, gen) {
            let r = guard::guard("blind_value_proof_verify", 0, || wide.blind_value_proof_verify(secp(), value, gen, c2))?;
            ensure!(!r, "a range proof for [value, value + 2^52) over a commitment to value + {} is accepted as a proof that the amount is exactly value", d);
            ctx.eval();
            ctx.class("exact-proofs:range-starting-at-the-value");
        }
    }
    let ap = guard::guard("blind_asset_proof", 0, || SurjectionProof::blind_asset_proof(&mut rng, secp(), asset, abf))?;
    let ap = match ap {
        Ok(p) => p,
        Err(e) => return Err(Failure::new(format!("blind_asset_proof failed: {}", e))),
    };
    let aok = |a: AssetId, g: Generator| guard::guard("blind_asset_proof_verify", 0, || ap.blind_asset_proof_verify(secp(), a, g));
    ensure!(aok(asset, gen)?, "exact-asset proof does not verify for the right (asset, commitment)");
    ensure!(!aok(other_asset, gen)?, "exact-asset proof verifies for another asset");
    if other_gen != gen {
        ensure!(!aok(asset, other_gen)?, "exact-asset proof verifies for another commitment");
    }
    ctx.evals_n(3);
    ctx.class("exact-proofs");
    ctx.nontrivial(&(value, hex(&gen.serialize())));
    Ok(())
}

fn repro_zero_opreturn() -> bool {
    let a = pool().assets[0];
    let spent = TxOut { asset: Asset::Explicit(a), value: Value::Explicit(10), nonce: Nonce::Null, script_pubkey: Script::new(), witness: TxOutWitness::empty() };
    let tx = Transaction {
        version: 2,
        lock_time: LockTime::ZERO,
        input: vec![TxIn::default()],
        output: vec![
            TxOut { asset: Asset::Explicit(a), value: Value::Explicit(10), nonce: Nonce::Null, script_pubkey: Script::new(), witness: TxOutWitness::empty() },
            TxOut { asset: Asset::Explicit(a), value: Value::Explicit(0), nonce: Nonce::Null, script_pubkey: Script::from(vec![0x6a]), witness: TxOutWitness::empty() },
        ],
    };
    tx.verify_tx_amt_proofs(secp(), &[spent]).is_err()
}

pub fn property() -> Property {
    Property {
        id: "C05",
        rule: "tamper_generated: verifying bases = blinded C04 cases (scripts p2pkh / p2sh / v0 / v1 2..40 bytes / v2..v16, positive \
               amounts on OP_RETURN / oversize scripts, amounts up to 2^64-1); a base that cannot be blinded or that the \
               library does not accept is excluded and counted (C04 reports it). For each base EVERY applicable position of \
               every tamper class of the statement (explicit amount +-1, explicit asset replaced (skipped for a zero amount on \
               an unspendable script), value / asset commitment replaced or exchanged, range / surjection proof removed, \
               exchanged or byte-corrupted (kept only if it still parses), script of a blinded output changed, issuance \
               amounts changed / removed / commitment replaced, spent output value altered, spent output asset replaced (only \
               where necessarily detectable: explicit amount, domain <= 3, or the only domain entry of a blinded output's \
               asset), spent output asset / value Null, spent output replaced, spent outputs permuted (only where necessarily \
               detectable: domain <= 3), wrong count => UtxoInputLenMismatch); no-op tampers skipped and counted; oracle: \
               verification returns Err. Half of the cases (tape) verify all tampers BEFORE the base is verified for the first \
               time; the base is verified again at the end. vectors: the repository's verifying transactions with the same \
               tampers. tamper_hybrid: bases built from the zkp primitives only (balancing factor by the harness's own \
               mod-n arithmetic, validity by the harness's own verifier) with every output form (explicit, fully blinded, \
               amount-only, asset-only) over spent outputs of every form; blinded outputs also on OP_RETURN / 10001-byte / empty \
               / bare scripts; a zero-value output on an unspendable script; confidential issuance amounts / inflation keys \
               (token id of a confidential issuance); same tampers plus one only the balance can catch (a blinded amount \
               re-committed to value+1 with a fresh valid range proof). explicit_balance: all-explicit transactions (inputs + \
               issuances vs outputs + fees per asset, balanced / off by delta / foreign asset / dropped output, zero-value \
               outputs on provably unspendable vs spendable scripts); oracle: verifies <=> harness per-asset balance holds and \
               every zero-value output is provably unspendable. explicit_balance2: the same rule with positive amounts on \
               OP_RETURN (bare, one push, raw tail, truncated push, non-push opcode, 10001 bytes) / oversize scripts inside the \
               balance, 0..2 zero-value outputs of present or foreign assets on those scripts, the empty script or spendable \
               scripts, value moved between two assets, asset ids exchanged, burn amount changed; each transaction verified in \
               a history genuine / altered-spent-outputs / genuine (and the mirror), every answer compared with the integer \
               rule (cross-checked with the commitment-based reference). exact_proofs: blind_value_proof / blind_asset_proof \
               verify for the right data and not for value+-1, other commitment, other generator / asset, nor a valid range \
               proof whose range only starts at the value. Non-trivial: base verifies and the tamper changes >= 1 byte; \
               distinct by (base, class, tampered encoding).",
        assumptions: &[
            "secp256k1-zkp is the trusted base; cryptographic negatives hold with overwhelming probability",
            "provably unspendable = CScript::IsUnspendable as the library documents it (OP_RETURN first, > 10000 bytes, or the empty fee script); a script that merely cannot succeed (reserved first opcode, OP_RETURN later) is not",
        ],
        subs: vec![
            Sub { name: "tamper_generated", kind: Kind::Tape { max_len: 3000, quick: 600, thorough: 15_000, f: tamper_generated } },
            Sub { name: "tamper_hybrid", kind: Kind::Tape { max_len: 3000, quick: 900, thorough: 25_000, f: tamper_hybrid } },
            Sub { name: "vectors", kind: Kind::Index { count: |t| t.pick(8, 120), exhaustive: false, f: repo_vectors } },
            Sub { name: "explicit_balance", kind: Kind::Tape { max_len: 2500, quick: 20_000, thorough: 500_000, f: explicit_balance } },
            Sub { name: "exact_proofs", kind: Kind::Tape { max_len: 600, quick: 1_500, thorough: 40_000, f: exact_proofs } },
            Sub { name: "explicit_balance2", kind: Kind::Tape { max_len: 2500, quick: 12_000, thorough: 400_000, f: explicit_balance2 } },
        ],
        known: vec![Known { key: KF_ZERO_OPRETURN, what: "a balanced explicit transaction with a zero-value output on a provably unspendable script is rejected (ZeroValueCommitment)", repro: repro_zero_opreturn }],
    }
}
