//! C03 — signature hashes follow the Elements legacy / segwit-v0 / taproot algorithms.
//! (C13 reuses the query machinery defined here.)
use elements::confidential::Value;
use elements::hashes::Hash as _;
use elements::sighash::{Annex, Prevouts, ScriptPath, SighashCache};
use elements::taproot::{LeafVersion, TapLeafHash};
use elements::{BlockHash, EcdsaSighashType, SchnorrSighashType, Script, Sequence, Transaction, TxOut, Txid};
use serde_json::json;

use crate::engine::*;
use crate::gen::{self, ext_g2 as gx, pool, TxOpts};
use crate::refimpl::enc;
use crate::refimpl::sighash as rs;
use crate::refimpl::sha256::sha256d;
use crate::{ensure, ensure_eq};

pub const ECDSA_TYPES: [EcdsaSighashType; 6] = [
    EcdsaSighashType::All,
    EcdsaSighashType::None,
    EcdsaSighashType::Single,
    EcdsaSighashType::AllPlusAnyoneCanPay,
    EcdsaSighashType::NonePlusAnyoneCanPay,
    EcdsaSighashType::SinglePlusAnyoneCanPay,
];
pub const SCHNORR_TYPES: [SchnorrSighashType; 7] = [
    SchnorrSighashType::Default,
    SchnorrSighashType::All,
    SchnorrSighashType::None,
    SchnorrSighashType::Single,
    SchnorrSighashType::AllPlusAnyoneCanPay,
    SchnorrSighashType::NonePlusAnyoneCanPay,
    SchnorrSighashType::SinglePlusAnyoneCanPay,
];

#[derive(Clone, Debug, PartialEq, Eq, Hash)]
pub enum PrevMode {
    All,
    One,
    /// `All` with one element too many / too few
    AllWrongLen,
    /// `One` for another input
    OneWrongIndex,
}

#[derive(Clone, Debug, PartialEq, Eq, Hash)]
pub enum TapApi {
    Generic,
    KeySpend,
    /// `taproot_script_spend_signature_hash` with a ready `TapLeafHash`
    ScriptSpend,
    /// `taproot_script_spend_signature_hash` with `ScriptPath::new(script, 0xffffffff, leaf_version)`
    ScriptPathNew,
    /// `taproot_script_spend_signature_hash` with `ScriptPath::with_defaults(script)` (leaf version 0xc4)
    ScriptPathDefaults,
}

#[derive(Clone, Debug)]
pub enum Query {
    Legacy { idx: usize, script: Script, ty: EcdsaSighashType },
    Segwit { idx: usize, script: Script, value: Value, ty: EcdsaSighashType },
    Taproot {
        idx: usize,
        ty: SchnorrSighashType,
        annex: Option<Vec<u8>>,
        leaf: Option<(Script, u8, u32)>,
        prev: PrevMode,
        api: TapApi,
        genesis: [u8; 32],
    },
}

impl Query {
    pub fn kind(&self) -> &'static str {
        match self {
            Query::Legacy { .. } => "legacy",
            Query::Segwit { .. } => "segwit",
            Query::Taproot { .. } => "taproot",
        }
    }
    pub fn idx(&self) -> usize {
        match self {
            Query::Legacy { idx, .. } | Query::Segwit { idx, .. } | Query::Taproot { idx, .. } => *idx,
        }
    }
    pub fn type_byte(&self) -> u8 {
        match self {
            Query::Legacy { ty, .. } | Query::Segwit { ty, .. } => ty.as_u32() as u8,
            Query::Taproot { ty, .. } => *ty as u8,
        }
    }
    pub fn render(&self) -> serde_json::Value {
        match self {
            Query::Legacy { idx, script, ty } => json!({"kind": "legacy", "index": idx, "type": ty.to_string(), "script_len": script.len()}),
            Query::Segwit { idx, script, value, ty } => {
                json!({"kind": "segwit-v0", "index": idx, "type": ty.to_string(), "script_len": script.len(), "value": value.to_string()})
            }
            Query::Taproot { idx, ty, annex, leaf, prev, api, .. } => json!({"kind": "taproot", "index": idx, "type": ty.to_string(),
                "annex_len": annex.as_ref().map(|a| a.len()), "script_path": leaf.as_ref().map(|(s, v, c)| json!({"script_len": s.len(), "leaf_version": v, "codesep": c})),
                "prevouts": format!("{:?}", prev), "api": format!("{:?}", api)}),
        }
    }
}

/// digest or error
#[derive(Clone, Debug, PartialEq, Eq)]
pub enum Answer {
    Digest([u8; 32]),
    Err(String),
    /// the query could not be put to the sighash API at all because a constructor outside the
    /// property (`Annex::new`, `LeafVersion::from_u8`) refused an argument: not judged, counted
    Skipped(String),
}

/// Queries outside the quantifier of C03 / C13 ("Prevouts::All / Prevouts::One for the queried
/// input", valid input indices): `All` of the wrong length, `One` carrying another input's spent
/// output under ANYONECANPAY (without ANYONECANPAY this is the stated "single spent output for a
/// type that needs all" error), an input index beyond the inputs. Neither an error nor a digest
/// nor the absence of a panic is demanded of them, and they are never put to a cache whose later
/// answers are judged (a library that, say, accepted a longer `All` slice could fill its caches
/// from it; every history containing such a query is outside the quantifier as a whole). They
/// go to a throw-away cache and the outcome is counted (`observe_unstated`).
pub fn unstated(q: &Query, n_inputs: usize) -> bool {
    match q {
        Query::Taproot { idx, ty, prev, .. } => {
            let acp = (*ty as u8) & 0x80 != 0;
            *idx >= n_inputs || *prev == PrevMode::AllWrongLen || (*prev == PrevMode::OneWrongIndex && acp && n_inputs >= 2)
        }
        _ => false,
    }
}

pub struct Case {
    pub tx: Transaction,
    pub spent: Vec<TxOut>,
}

pub fn gen_case(t: &mut Tape) -> Case {
    let o = TxOpts { big: false, coinbase: false, max_in: 5, max_out: 5, ..TxOpts::default() };
    let mut tx = gen::gen_tx(t, &o);
    if tx.input.is_empty() {
        tx.input.push(gen::gen_txin(t, &o));
    }
    tx.input.truncate(5);
    tx.output.truncate(5);
    let so = TxOpts { big: false, witness: false, ..TxOpts::default() };
    let spent = (0..tx.input.len()).map(|_| gen::gen_txout(t, &so)).collect();
    Case { tx, spent }
}

pub fn gen_query(t: &mut Tape, case: &Case, allow_errors: bool) -> Query {
    let n = case.tx.input.len();
    let idx = t.below(n);
    match t.below(3) {
        0 => Query::Legacy { idx, script: gen::gen_script(t, false), ty: t.choose(&ECDSA_TYPES) },
        1 => Query::Segwit { idx, script: gen::gen_script(t, false), value: gen::gen_value(t), ty: t.choose(&ECDSA_TYPES) },
        _ => {
            let ty = t.choose(&SCHNORR_TYPES);
            let api = match t.below(4) {
                0 => TapApi::KeySpend,
                1 => TapApi::ScriptSpend,
                _ => TapApi::Generic,
            };
            let annex = if api == TapApi::Generic && t.chance(90) {
                let l = t.below(40);
                let mut a = vec![0x50];
                a.extend(t.bytes(l));
                Some(a)
            } else {
                None
            };
            let leaf = match api {
                TapApi::KeySpend => None,
                TapApi::ScriptSpend => Some((gen::gen_script(t, false), 0xc4, 0xffff_ffff)),
                // never drawn by this (frozen) generator
                TapApi::ScriptPathNew | TapApi::ScriptPathDefaults => None,
                TapApi::Generic => {
                    if t.bool() {
                        let ver = t.choose(&[0xc4u8, 0xc0, 0xc2, 0xfe, 0x66, 0x7e]);
                        let pos = t.choose(&[0xffff_ffffu32, 0, 1, 7, 0x1_0000]);
                        Some((gen::gen_script(t, false), ver, pos))
                    } else {
                        None
                    }
                }
            };
            let prev = match t.below(if allow_errors { 10 } else { 8 }) {
                0..=3 => PrevMode::All,
                4..=7 => PrevMode::One,
                8 => PrevMode::AllWrongLen,
                _ => PrevMode::OneWrongIndex,
            };
            // an input index beyond the inputs, only where the algorithm defines the outcome (ANYONECANPAY => error)
            let idx = if allow_errors && (ty as u8) & 0x80 != 0 && prev == PrevMode::All && t.chance(16) { n + t.below(3) } else { idx };
            Query::Taproot { idx, ty, annex, leaf, prev, api, genesis: t.arr32() }
        }
    }
}


// ---- extended generators (sub-checks `differential_x`, C13 `histories_x`) --------------------
// `gen_case` / `gen_query` above are frozen: committed regression replays decode through them.

pub const LEAF_VERSIONS: [u8; 6] = [0xc4, 0xc0, 0xc2, 0xfe, 0x66, 0x7e];

/// `gen_case` plus, drawn afterwards: a compact-size-boundary script on one spent output / one
/// output, 0xfc..0xfe inputs or outputs, null-valued issuances with entropy / nonce set, spent
/// outputs carrying a witness.
pub fn gen_case_x(t: &mut Tape) -> Case {
    let mut case = gen_case(t);
    // spent outputs with a witness (no algorithm reads it)
    for j in 0..case.spent.len() {
        if t.chance(48) {
            case.spent[j].witness = gen::gen_out_witness(t);
        }
    }
    // an issuance that is null by value but has entropy / blinding nonce set
    for j in 0..case.tx.input.len() {
        if enc::issuance_is_null(&case.tx.input[j].asset_issuance) && t.chance(56) {
            case.tx.input[j].asset_issuance = gx::null_valued_issuance(t);
        }
    }
    if t.chance(72) {
        let j = t.below(case.spent.len());
        case.spent[j].script_pubkey = gx::boundary_script(t);
    }
    if t.chance(72) {
        if case.tx.output.is_empty() {
            let so = TxOpts { big: false, witness: false, ..TxOpts::default() };
            case.tx.output.push(gen::gen_txout(t, &so));
        }
        let k = t.below(case.tx.output.len());
        case.tx.output[k].script_pubkey = gx::boundary_script(t);
    }
    match t.below(40) {
        39 => gx::many_inputs(&mut case.tx, &mut case.spent, t.choose(&[0xfdusize, 0xfc, 0xfe])),
        38 => gx::many_outputs(&mut case.tx, t.choose(&[0xfdusize, 0xfc, 0xfe])),
        _ => {}
    }
    case
}

fn gen_script_x(t: &mut Tape) -> Script {
    if t.chance(72) {
        gx::boundary_script(t)
    } else {
        gen::gen_script(t, false)
    }
}

/// `gen_query` with boundary-length script code / leaf script / annex, the `ScriptPath` entry of
/// the script-spend API, and every leaf version for the script-spend API
pub fn gen_query_x(t: &mut Tape, n: usize, allow_errors: bool) -> Query {
    let idx = t.below(n);
    match t.below(3) {
        0 => Query::Legacy { idx, script: gen_script_x(t), ty: t.choose(&ECDSA_TYPES) },
        1 => Query::Segwit { idx, script: gen_script_x(t), value: gen::gen_value(t), ty: t.choose(&ECDSA_TYPES) },
        _ => {
            let ty = t.choose(&SCHNORR_TYPES);
            let api = match t.below(8) {
                0 => TapApi::KeySpend,
                1 => TapApi::ScriptSpend,
                2 | 3 => TapApi::ScriptPathNew,
                4 => TapApi::ScriptPathDefaults,
                _ => TapApi::Generic,
            };
            let annex = if api == TapApi::Generic && t.chance(100) {
                let l = if t.chance(96) { gx::boundary_len(t) - 1 } else { t.below(40) };
                let mut a = vec![0x50];
                if l > 40 {
                    a.extend(t.filler(l));
                } else {
                    a.extend(t.bytes(l));
                }
                Some(a)
            } else {
                None
            };
            let leaf = match api {
                TapApi::KeySpend => None,
                TapApi::ScriptSpend | TapApi::ScriptPathNew => Some((gen_script_x(t), t.choose(&LEAF_VERSIONS), 0xffff_ffff)),
                TapApi::ScriptPathDefaults => Some((gen_script_x(t), 0xc4, 0xffff_ffff)),
                TapApi::Generic => {
                    if t.bool() {
                        let ver = t.choose(&LEAF_VERSIONS);
                        let pos = t.choose(&[0xffff_ffffu32, 0, 1, 7, 0x1_0000]);
                        Some((gen_script_x(t), ver, pos))
                    } else {
                        None
                    }
                }
            };
            let prev = match t.below(if allow_errors { 10 } else { 8 }) {
                0..=3 => PrevMode::All,
                4..=7 => PrevMode::One,
                8 => PrevMode::AllWrongLen,
                _ => PrevMode::OneWrongIndex,
            };
            let idx = if allow_errors && (ty as u8) & 0x80 != 0 && prev == PrevMode::All && t.chance(8) { n + t.below(3) } else { idx };
            Query::Taproot { idx, ty, annex, leaf, prev, api, genesis: t.arr32() }
        }
    }
}

/// histogram labels for the shapes the extended generators add
pub fn class_x(tx: &Transaction, spent: &[TxOut], q: &Query, ctx: &mut Ctx) {
    let tb = q.type_byte();
    let acp = tb & 0x80 != 0;
    let base = if tb == 0 { 1 } else { tb & 3 };
    let idx = q.idx();
    let tap = matches!(q, Query::Taproot { .. });
    match q {
        Query::Legacy { script, .. } | Query::Segwit { script, .. } => {
            if script.len() >= 0xfc {
                ctx.class(&format!("x:script-code:len={}", gx::len_class(script.len())));
            }
        }
        Query::Taproot { annex, leaf, api, .. } => {
            if let Some(a) = annex {
                if a.len() >= 0xfc {
                    ctx.class(&format!("x:annex:len={}", gx::len_class(a.len())));
                }
            }
            if let Some((s, v, _)) = leaf {
                if s.len() >= 0xfc {
                    ctx.class(&format!("x:leaf-script:len={}", gx::len_class(s.len())));
                }
                if *api != TapApi::Generic {
                    ctx.class(&format!("x:script-spend-api:leaf-version={:#04x}", v));
                }
            }
            ctx.class(&format!("x:taproot-api:{:?}", api));
        }
    }
    // a boundary-length spent script that the queried algorithm actually hashes
    if tap && !unstated(q, tx.input.len()) {
        for (j, s) in spent.iter().enumerate() {
            if s.script_pubkey.len() >= 0xfc && (!acp || j == idx) {
                ctx.class(&format!("x:hashed-spent-script:len={}", gx::len_class(s.script_pubkey.len())));
            }
        }
    }
    for (k, o) in tx.output.iter().enumerate() {
        if o.script_pubkey.len() >= 0xfc && (base == 1 || (base == 3 && k == idx)) {
            ctx.class(&format!("x:hashed-output-script:len={}", gx::len_class(o.script_pubkey.len())));
        }
    }
    if tx.input.len() >= 0xfc {
        ctx.class(&format!("x:inputs={:#x}:{}", tx.input.len(), q.kind()));
    }
    if tx.output.len() >= 0xfc {
        ctx.class(&format!("x:outputs={:#x}:{}", tx.output.len(), q.kind()));
    }
    let nv = |j: usize| {
        let i = &tx.input[j].asset_issuance;
        enc::issuance_is_null(i) && *i != elements::AssetIssuance::null()
    };
    if idx < tx.input.len() && nv(idx) {
        ctx.class("x:null-valued-issuance-with-entropy/nonce:signed-input");
    } else if !acp && (0..tx.input.len()).any(nv) {
        ctx.class("x:null-valued-issuance-with-entropy/nonce:other-input");
    }
    if tap && spent.iter().any(|s| !s.witness.is_empty()) {
        ctx.class("x:spent-output-with-witness");
    }
}

/// the reference answer (and signing message, when there is one)
pub fn ref_answer(tx: &Transaction, spent: &[TxOut], q: &Query) -> (Answer, Option<Vec<u8>>) {
    match q {
        Query::Legacy { idx, script, ty } => match rs::legacy(tx, *idx, script.as_bytes(), ty.as_u32()) {
            rs::Legacy::One => (Answer::Digest(rs::ONE), None),
            rs::Legacy::Message(m) => (Answer::Digest(sha256d(&m)), Some(m)),
        },
        Query::Segwit { idx, script, value, ty } => {
            let m = rs::segwit_v0(tx, *idx, script.as_bytes(), value, ty.as_u32());
            (Answer::Digest(sha256d(&m)), Some(m))
        }
        Query::Taproot { idx, ty, annex, leaf, prev, genesis, .. } => {
            let mut longer;
            let other = (*idx + 1) % spent.len().max(1);
            let sp = match prev {
                PrevMode::All => rs::Spent::All(spent),
                PrevMode::One => match spent.get(*idx) {
                    Some(p) => rs::Spent::One(*idx, p),
                    None => rs::Spent::All(spent),
                },
                PrevMode::AllWrongLen => {
                    longer = spent.to_vec();
                    if longer.len() % 2 == 0 {
                        longer.push(TxOut::default());
                    } else {
                        longer.pop();
                    }
                    rs::Spent::All(&longer)
                }
                PrevMode::OneWrongIndex => rs::Spent::One(other, &spent[other]),
            };
            let leaf_h = leaf.as_ref().map(|(s, v, p)| (rs::tap_leaf_hash(*v, s.as_bytes()), *p));
            match rs::taproot_message(tx, *idx, &sp, annex.as_deref(), leaf_h, *ty as u8, genesis) {
                Ok(m) => (Answer::Digest(rs::taproot_digest(&m)), Some(m)),
                Err(e) => (Answer::Err(format!("{:?}", e)), None),
            }
        }
    }
}

/// ask the library through `cache`; also returns the signing message written by the
/// `*_encode_signing_data_to` entry point
pub fn lib_answer<R: std::ops::Deref<Target = Transaction>>(
    cache: &mut SighashCache<R>,
    spent: &[TxOut],
    q: &Query,
    want_message: bool,
) -> Result<(Answer, Option<Vec<u8>>), Failure> {
    lib_answer_ord(cache, spent, q, want_message, false)
}

/// as `lib_answer`; with `message_first` the `*_encode_signing_data_to` entry point is called
/// BEFORE the digest function, so that it meets the cache in whatever state earlier, different
/// questions left it (the digest functions would otherwise always have prepared it)
pub fn lib_answer_ord<R: std::ops::Deref<Target = Transaction>>(
    cache: &mut SighashCache<R>,
    spent: &[TxOut],
    q: &Query,
    want_message: bool,
    message_first: bool,
) -> Result<(Answer, Option<Vec<u8>>), Failure> {
    match q {
        Query::Legacy { idx, script, ty } => {
            let msg = |cache: &mut SighashCache<R>| -> Result<Vec<u8>, Failure> {
                let mut v = Vec::new();
                let r = guard::guard("encode_legacy_signing_data_to", 0, || cache.encode_legacy_signing_data_to(&mut v, *idx, script, *ty))?;
                if let Err(e) = r {
                    return Err(Failure::new(format!("encode_legacy_signing_data_to failed on a Vec writer: {}", e)));
                }
                Ok(v)
            };
            let before = if want_message && message_first { Some(msg(cache)?) } else { None };
            let d = guard::guard("legacy_sighash", 0, || cache.legacy_sighash(*idx, script, *ty).to_byte_array())?;
            let m = if want_message && !message_first { Some(msg(cache)?) } else { before };
            Ok((Answer::Digest(d), m))
        }
        Query::Segwit { idx, script, value, ty } => {
            let msg = |cache: &mut SighashCache<R>| -> Result<Vec<u8>, Failure> {
                let mut v = Vec::new();
                let r = guard::guard("encode_segwitv0_signing_data_to", 0, || {
                    cache.encode_segwitv0_signing_data_to(&mut v, *idx, script, *value, *ty)
                })?;
                if let Err(e) = r {
                    return Err(Failure::new(format!("encode_segwitv0_signing_data_to failed on a Vec writer: {}", e)));
                }
                Ok(v)
            };
            let before = if want_message && message_first { Some(msg(cache)?) } else { None };
            let d = guard::guard("segwitv0_sighash", 0, || cache.segwitv0_sighash(*idx, script, *value, *ty).to_byte_array())?;
            let m = if want_message && !message_first { Some(msg(cache)?) } else { before };
            Ok((Answer::Digest(d), m))
        }
        Query::Taproot { idx, ty, annex, leaf, prev, api, genesis } => {
            let longer;
            let other = (*idx + 1) % spent.len().max(1);
            let prevouts: Prevouts<&TxOut>;
            let refs: Vec<&TxOut>;
            match prev {
                PrevMode::All => {
                    refs = spent.iter().collect();
                    prevouts = Prevouts::All(&refs);
                }
                PrevMode::One => match spent.get(*idx) {
                    Some(p) => prevouts = Prevouts::One(*idx, p),
                    None => {
                        refs = spent.iter().collect();
                        prevouts = Prevouts::All(&refs);
                    }
                },
                PrevMode::AllWrongLen => {
                    let mut l = spent.to_vec();
                    if l.len() % 2 == 0 {
                        l.push(TxOut::default());
                    } else {
                        l.pop();
                    }
                    longer = l;
                    refs = longer.iter().collect();
                    prevouts = Prevouts::All(&refs);
                }
                PrevMode::OneWrongIndex => prevouts = Prevouts::One(other, &spent[other]),
            }
            let genesis_h = BlockHash::from_byte_array(*genesis);
            // `Annex::new` and `LeafVersion::from_u8` are outside the property: a refusal is counted, not judged
            let annex_v = match annex {
                Some(a) => match guard::guard("Annex::new", a.len(), || Annex::new(a)) {
                    Ok(Ok(x)) => Some(x),
                    // the statement quantifies over annexes: a well-formed one (first byte 0x50) must be usable
                    Ok(Err(e)) => return Err(Failure::new(format!("Annex::new rejected a 0x50-prefixed annex of {} bytes, so its taproot sighash cannot be asked for: {}", a.len(), e))),
                    Err(f) => return Err(f),
                },
                None => None,
            };
            let mut script_path: Option<ScriptPath> = None;
            let leaf_v: Option<(TapLeafHash, u32)> = match leaf {
                Some((s, v, pos)) => {
                    let ver = if *v == 0xc4 {
                        LeafVersion::TAPSCRIPT
                    } else {
                        match LeafVersion::from_u8(*v) {
                            Ok(v) => v,
                            Err(e) => return Err(Failure::new(format!("LeafVersion::from_u8({:#x}) refused a valid leaf version, so the script-path sighash cannot be asked for: {}", v, e))),
                        }
                    };
                    match api {
                        TapApi::ScriptPathNew | TapApi::ScriptPathDefaults => {
                            let sp = if *api == TapApi::ScriptPathDefaults { ScriptPath::with_defaults(s) } else { ScriptPath::new(s, *pos, ver) };
                            let h = guard::guard("ScriptPath::leaf_hash", 0, || sp.leaf_hash())?;
                            script_path = Some(sp);
                            Some((h, *pos))
                        }
                        _ => Some((guard::guard("TapLeafHash::from_script", 0, || TapLeafHash::from_script(s, ver))?, *pos)),
                    }
                }
                None => None,
            };
            // message first (only for queries inside the quantifier): Ok(bytes) or the library's error
            let mut before: Option<Result<Vec<u8>, String>> = None;
            if want_message && message_first && !unstated(q, spent.len()) {
                let mut v = Vec::new();
                let r0 = guard::guard("taproot_encode_signing_data_to", 0, || {
                    cache.taproot_encode_signing_data_to(&mut v, *idx, &prevouts, annex_v.clone(), leaf_v, *ty, genesis_h)
                })?;
                before = Some(match r0 {
                    Ok(()) => Ok(v),
                    Err(e) => Err(format!("{:?}", e)),
                });
            }
            let r = guard::guard("taproot sighash", 0, || match api {
                TapApi::Generic => cache.taproot_sighash(*idx, &prevouts, annex_v.clone(), leaf_v, *ty, genesis_h),
                TapApi::KeySpend => cache.taproot_key_spend_signature_hash(*idx, &prevouts, *ty, genesis_h),
                TapApi::ScriptSpend => match leaf_v {
                    Some((h, _)) => cache.taproot_script_spend_signature_hash(*idx, &prevouts, h, *ty, genesis_h),
                    None => cache.taproot_key_spend_signature_hash(*idx, &prevouts, *ty, genesis_h),
                },
                TapApi::ScriptPathNew | TapApi::ScriptPathDefaults => match script_path.clone() {
                    Some(sp) => cache.taproot_script_spend_signature_hash(*idx, &prevouts, sp, *ty, genesis_h),
                    None => cache.taproot_key_spend_signature_hash(*idx, &prevouts, *ty, genesis_h),
                },
            });
            let r = match r {
                Ok(r) => r,
                // outside the quantifier a panic is as little stated as an error or a digest
                Err(f) if f.panic_loc.is_some() && unstated(q, spent.len()) => return Ok((Answer::Err(format!("panic: {}", f.msg)), None)),
                Err(f) => return Err(f),
            };
            match r {
                Ok(h) => {
                    let m = if let Some(b) = before {
                        match b {
                            Ok(v) => Some(v),
                            Err(e) => return Err(Failure::new(format!("taproot_encode_signing_data_to (called first) errs where taproot_sighash succeeds: {}", e))),
                        }
                    } else if want_message {
                        let mut v = Vec::new();
                        let r2 = guard::guard("taproot_encode_signing_data_to", 0, || {
                            cache.taproot_encode_signing_data_to(&mut v, *idx, &prevouts, annex_v.clone(), leaf_v, *ty, genesis_h)
                        })?;
                        if let Err(e) = r2 {
                            return Err(Failure::new(format!("taproot_encode_signing_data_to errs where taproot_sighash succeeds: {}", e)));
                        }
                        Some(v)
                    } else {
                        None
                    };
                    Ok((Answer::Digest(h.to_byte_array()), m))
                }
                Err(e) => {
                    if let Some(Ok(_)) = before {
                        return Err(Failure::new(format!("taproot_encode_signing_data_to (called first) succeeds where the digest function answers {:?}\n query={}", e, q.render())));
                    }
                    Ok((Answer::Err(format!("{:?}", e)), None))
                }
            }
        }
    }
}

/// put a query from outside the quantifier to a throw-away cache and count what the library does
pub fn observe_unstated(tx: &Transaction, spent: &[TxOut], q: &Query, ctx: &mut Ctx) {
    let mut cache = SighashCache::new(tx);
    let cls = match lib_answer(&mut cache, spent, q, false) {
        Ok((Answer::Digest(_), _)) => "not-stated:library-gives-digest",
        Ok((Answer::Err(e), _)) if e.starts_with("panic") => "not-stated:library-panics",
        Ok((Answer::Err(_), _)) => "not-stated:library-gives-error",
        Ok((Answer::Skipped(_), _)) => "not-stated:skipped",
        Err(_) => "not-stated:library-fails-otherwise",
    };
    ctx.class(cls);
}

/// Known finding keys (status decided by /verif/known_findings.json)
pub const KF_LEGACY_SINGLE: &str = "legacy-single-out-of-range-is-hashed";
pub const KF_ACP_ONE: &str = "taproot-all-anyonecanpay-rejects-prevouts-one";

/// compare library and reference for one query; Ok(true) when they agree (or differ by a listed
/// known finding)
pub fn compare(tx: &Transaction, spent: &[TxOut], q: &Query, lib: &(Answer, Option<Vec<u8>>), ctx: &mut Ctx) -> R {
    if let Answer::Skipped(why) = &lib.0 {
        ctx.class(&format!("skipped:{}", why.split(' ').next().unwrap_or("")));
        return Ok(());
    }
    if unstated(q, tx.input.len()) {
        // outside the quantifier (wrong number of spent outputs, another input's spent output, input
        // index beyond the inputs): nothing is demanded, the outcome is only counted
        ctx.class(match &lib.0 {
            Answer::Digest(_) => "not-stated:library-gives-digest",
            Answer::Err(e) if e.starts_with("panic") => "not-stated:library-panics",
            _ => "not-stated:library-gives-error",
        });
        return Ok(());
    }
    let (want, want_msg) = ref_answer(tx, spent, q);
    ctx.eval();
    match (&lib.0, &want) {
        (Answer::Skipped(_), _) | (_, Answer::Skipped(_)) => {}
        (Answer::Digest(a), Answer::Digest(b)) => {
            if a != b {
                if let Query::Legacy { idx, ty, .. } = q {
                    if (ty.as_u32() & 0x1f) == 3 && *idx >= tx.output.len() && *a == sha256d(&rs::ONE) && ctx.is_known(KF_LEGACY_SINGLE) {
                        return Ok(());
                    }
                }
                return Err(Failure::new(format!(
                    "{} sighash differs from the reference implementation\n query={}\n lib={}\n ref={}\n tx={:?}",
                    q.kind(),
                    q.render(),
                    hex(a),
                    hex(b),
                    tx
                )));
            }
            if let (Some(lm), Some(wm)) = (&lib.1, &want_msg) {
                if lm != wm {
                    ensure_eq!(hex(lm), hex(wm), "{} signing message differs from the reference ({})", q.kind(), q.render());
                }
            }
        }
        (Answer::Err(_), Answer::Err(_)) => {}
        (Answer::Err(e), Answer::Digest(_)) => {
            if let Query::Taproot { ty, prev, .. } = q {
                if *ty == SchnorrSighashType::AllPlusAnyoneCanPay && *prev == PrevMode::One && e.contains("PrevoutKind") && ctx.is_known(KF_ACP_ONE) {
                    return Ok(());
                }
            }
            return Err(Failure::new(format!("{} sighash returns {} where the algorithm defines a digest\n query={}\n tx={:?}", q.kind(), e, q.render(), tx)));
        }
        (Answer::Digest(d), Answer::Err(e)) => {
            return Err(Failure::new(format!(
                "{} sighash returns a digest ({}) where the algorithm defines an error ({})\n query={}",
                q.kind(),
                hex(d),
                e,
                q.render()
            )));
        }
    }
    Ok(())
}

fn differential(t: &mut Tape, ctx: &mut Ctx) -> R {
    differential_impl(t, ctx, false)
}

/// the same check over the extended generators: lengths at the compact-size boundaries (script code,
/// leaf script, annex, spent / output scripts, input / output counts), the `ScriptPath` entry point,
/// null-valued issuances with entropy / nonce, spent outputs with witness; here the shared cache is
/// also asked for the signing message
fn differential_x(t: &mut Tape, ctx: &mut Ctx) -> R {
    differential_impl(t, ctx, true)
}

fn differential_impl(t: &mut Tape, ctx: &mut Ctx, ext: bool) -> R {
    let case = if ext { gen_case_x(t) } else { gen_case(t) };
    let nq = 1 + t.below(4);
    // every query is asked twice: of a cache created for it alone, and of one cache object shared by all
    // queries of the case (the digests the statement defines do not depend on what was asked before)
    let mut shared = SighashCache::new(&case.tx);
    for qi in 0..nq {
        let q = if ext { gen_query_x(t, case.tx.input.len(), true) } else { gen_query(t, &case, true) };
        let shared_message = ext && t.chance(64);
        if unstated(&q, case.tx.input.len()) {
            observe_unstated(&case.tx, &case.spent, &q, ctx);
            if let Query::Taproot { prev, .. } = &q {
                ctx.class(&format!("taproot:prevouts:{:?}", prev));
            }
            continue;
        }
        let mut cache = SighashCache::new(&case.tx);
        let lib = lib_answer(&mut cache, &case.spent, &q, true)?;
        compare(&case.tx, &case.spent, &q, &lib, ctx)?;
        let lib_shared = lib_answer_ord(&mut shared, &case.spent, &q, shared_message, true)?;
        if ext {
            class_x(&case.tx, &case.spent, &q, ctx);
            if shared_message {
                ctx.class("x:signing-message-from-shared-cache");
            }
        }
        if let Err(mut f) = compare(&case.tx, &case.spent, &q, &lib_shared, ctx) {
            f.msg = clip(format!("(query {} of {} on one shared SighashCache) {}", qi + 1, nq, f.msg));
            return Err(f);
        }
        let feats = gen::tx_features(&case.tx);
        let single_oor = q.type_byte() & 3 == 3 && q.idx() >= case.tx.output.len();
        let interesting = q.idx() > 0 || feats.iter().any(|f| ["pegin", "issuance", "reissuance", "conf-asset", "conf-value"].contains(f)) || single_oor;
        ctx.class(&format!("query:{}:{:#04x}", q.kind(), q.type_byte()));
        if single_oor {
            ctx.class("single-without-output");
        }
        if let Query::Taproot { prev, annex, leaf, .. } = &q {
            ctx.class(&format!("taproot:prevouts:{:?}", prev));
            if annex.is_some() {
                ctx.class("taproot:annex");
            }
            if leaf.is_some() {
                ctx.class("taproot:script-path");
            }
        }
        if matches!(lib.0, Answer::Err(_)) {
            ctx.class("answer:error");
        }
        let x_shape = ext
            && (case.tx.input.len() >= 0xfc
                || case.tx.output.len() >= 0xfc
                || case.spent.iter().any(|s| s.script_pubkey.len() >= 0xfc)
                || case.tx.output.iter().any(|o| o.script_pubkey.len() >= 0xfc)
                || case.tx.input.iter().any(|i| enc::issuance_is_null(&i.asset_issuance) && i.asset_issuance != elements::AssetIssuance::null())
                || match &q {
                    Query::Legacy { script, .. } | Query::Segwit { script, .. } => script.len() >= 0xfc,
                    Query::Taproot { annex, leaf, api, .. } => {
                        annex.as_ref().map_or(false, |a| a.len() >= 0xfc)
                            || leaf.as_ref().map_or(false, |(s, _, _)| s.len() >= 0xfc)
                            || matches!(api, TapApi::ScriptPathNew | TapApi::ScriptPathDefaults)
                    }
                });
        if x_shape || (case.tx.input.len() >= 2 && interesting) {
            ctx.nontrivial(&(crate::refimpl::enc::tx_full(&case.tx), format!("{}", q.render())));
        }
        let cls = format!("{}query:{}", if ext { "x-" } else { "" }, q.kind());
        if ctx.wants_sample(&cls) && case.tx.input.len() >= 2 {
            ctx.sample(&cls, || json!({"inputs": case.tx.input.len(), "outputs": case.tx.output.len(), "features": feats, "query": q.render(),
                "answer": match &lib.0 { Answer::Digest(d) => hex(d), Answer::Err(e) | Answer::Skipped(e) => e.clone() }}));
        }
    }
    Ok(())
}

// ---- metamorphic dependency table -------------------------------------------------------

#[derive(Clone, Copy, Debug, PartialEq, Eq, Hash)]
enum Mod {
    Version,
    LockTime,
    ScriptSig(usize),
    SequenceOf(usize),
    PrevTxid(usize),
    OutputScript(usize),
    OutputWitness(usize),
    InScriptWitness(usize),
    InPeginWitness(usize),
    IssuanceProof(usize),
    SpentAsset(usize),
    SpentValue(usize),
    SpentScript(usize),
    IssuanceAmount(usize),
    AddOutput,
    // added after the first 15 (drawn last, so the tape positions of the older ones are unchanged)
    PeginFlag(usize),
    InflationProof(usize),
    /// entropy / blinding nonce of the input's issuance (also of a null-valued one, which is not committed)
    IssuanceEntropy(usize),
    SpentNonce(usize),
    SpentWitness(usize),
    OutputNonce(usize),
    OutputSurjection(usize),
}

fn has_iss(case: &Case, j: usize) -> bool {
    // the consensus rule (both amounts null = no issuance), from the reference encoder
    !enc::issuance_is_null(&case.tx.input[j].asset_issuance)
}

/// Expected effect from the algorithms' commitment structure: Some(true) must change,
/// Some(false) must not change, None = not stated here.
fn expected(q: &Query, case: &Case, m: Mod) -> Option<bool> {
    let idx = q.idx();
    let tb = q.type_byte();
    let acp = tb & 0x80 != 0;
    let base = if tb == 0 { 1 } else { tb & 3 };
    let tap = matches!(q, Query::Taproot { .. });
    let nout = case.tx.output.len();
    // queries that answer with an error or with the SINGLE constants are left to the differential check
    if base == 3 && idx >= nout {
        return None;
    }
    Some(match m {
        Mod::Version | Mod::LockTime => true,
        Mod::ScriptSig(_) => false,
        Mod::SequenceOf(j) if j == idx => true,
        Mod::SequenceOf(_) => {
            if acp {
                false
            } else if tap {
                true
            } else {
                base == 1
            }
        }
        Mod::PrevTxid(j) => j == idx || !acp,
        Mod::OutputScript(k) => match base {
            1 => true,
            2 => false,
            _ => k == idx,
        },
        Mod::OutputWitness(k) => {
            if !tap {
                false
            } else {
                match base {
                    1 => true,
                    2 => false,
                    _ => k == idx,
                }
            }
        }
        Mod::InScriptWitness(_) | Mod::InPeginWitness(_) => false,
        Mod::IssuanceProof(j) => {
            if !tap {
                false
            } else if !acp {
                true
            } else {
                j == idx && has_iss(case, j)
            }
        }
        Mod::InflationProof(j) => {
            if !tap {
                false
            } else if !acp {
                true
            } else {
                j == idx && has_iss(case, j)
            }
        }
        // legacy folds the flag into the serialized outpoint index, taproot hashes the outpoint flag;
        // BIP143's outpoint is the plain COutPoint
        Mod::PeginFlag(j) => {
            if matches!(q, Query::Segwit { .. }) {
                false
            } else {
                j == idx || !acp
            }
        }
        Mod::IssuanceEntropy(j) => has_iss(case, j) && (j == idx || !acp),
        Mod::SpentNonce(_) | Mod::SpentWitness(_) => {
            if !tap {
                return None;
            }
            false
        }
        Mod::OutputNonce(k) => match base {
            1 => true,
            2 => false,
            _ => k == idx,
        },
        Mod::OutputSurjection(k) => {
            if !tap {
                false
            } else {
                match base {
                    1 => true,
                    2 => false,
                    _ => k == idx,
                }
            }
        }
        Mod::SpentAsset(j) | Mod::SpentValue(j) | Mod::SpentScript(j) => {
            if !tap {
                return None;
            }
            j == idx || !acp
        }
        Mod::IssuanceAmount(j) => j == idx || !acp,
        Mod::AddOutput => base == 1,
    })
}

fn apply_mod(t: &mut Tape, case: &mut Case, m: Mod) -> bool {
    let p = pool();
    match m {
        Mod::Version => case.tx.version ^= 1 << t.below(32),
        Mod::LockTime => {
            case.tx.lock_time = elements::LockTime::from_consensus(case.tx.lock_time.to_consensus_u32() ^ (1 << t.below(32)))
        }
        Mod::ScriptSig(j) => {
            let mut b = case.tx.input[j].script_sig.to_bytes();
            b.push(0x51);
            case.tx.input[j].script_sig = Script::from(b);
        }
        Mod::SequenceOf(j) => {
            // for legacy NONE/SINGLE the other sequences are zeroed: keep the new value non-zero vs zero aware
            case.tx.input[j].sequence = Sequence(case.tx.input[j].sequence.0 ^ (1 << t.below(32)));
        }
        Mod::PrevTxid(j) => {
            let mut a = case.tx.input[j].previous_output.txid.to_byte_array();
            a[t.below(32)] ^= 1 << t.below(8);
            case.tx.input[j].previous_output.txid = Txid::from_byte_array(a);
        }
        Mod::OutputScript(k) => {
            let mut b = case.tx.output[k].script_pubkey.to_bytes();
            b.push(0x52);
            case.tx.output[k].script_pubkey = Script::from(b);
        }
        Mod::OutputWitness(k) => {
            let w = &mut case.tx.output[k].witness;
            let cur = w.rangeproof.clone();
            let mut i = t.below(p.rangeproofs.len());
            if cur.as_deref() == Some(&p.rangeproofs[i]) {
                i = (i + 1) % p.rangeproofs.len();
            }
            w.rangeproof = Some(Box::new(p.rangeproofs[i].clone()));
        }
        Mod::InScriptWitness(j) => case.tx.input[j].witness.script_witness.push(vec![1, 2, 3]),
        Mod::InPeginWitness(j) => case.tx.input[j].witness.pegin_witness.push(vec![4]),
        Mod::IssuanceProof(j) => {
            let w = &mut case.tx.input[j].witness;
            let cur = w.amount_rangeproof.clone();
            let mut i = t.below(p.rangeproofs.len());
            if cur.as_deref() == Some(&p.rangeproofs[i]) {
                i = (i + 1) % p.rangeproofs.len();
            }
            w.amount_rangeproof = Some(Box::new(p.rangeproofs[i].clone()));
        }
        Mod::SpentAsset(j) => {
            let cur = case.spent[j].asset;
            let mut a = gen::gen_asset(t);
            if a == cur {
                a = if cur.is_null() { elements::confidential::Asset::Explicit(p.assets[1]) } else { elements::confidential::Asset::Null };
            }
            case.spent[j].asset = a;
        }
        Mod::SpentValue(j) => {
            let cur = case.spent[j].value;
            let mut v = gen::gen_value(t);
            if v == cur {
                v = if cur.is_null() { Value::Explicit(3) } else { Value::Null };
            }
            case.spent[j].value = v;
        }
        Mod::SpentScript(j) => {
            let mut b = case.spent[j].script_pubkey.to_bytes();
            b.push(0x53);
            case.spent[j].script_pubkey = Script::from(b);
        }
        Mod::IssuanceAmount(j) => {
            if !has_iss(case, j) {
                return false;
            }
            let cur = case.tx.input[j].asset_issuance.amount;
            case.tx.input[j].asset_issuance.amount = match cur {
                Value::Explicit(n) => Value::Explicit(n ^ 1 | 2),
                _ => Value::Explicit(77),
            };
            if case.tx.input[j].asset_issuance.amount == cur {
                return false;
            }
        }
        Mod::AddOutput => {
            let so = TxOpts { big: false, witness: false, ..TxOpts::default() };
            case.tx.output.push(gen::gen_txout(t, &so));
        }
        Mod::PeginFlag(j) => case.tx.input[j].is_pegin = !case.tx.input[j].is_pegin,
        Mod::InflationProof(j) => {
            let w = &mut case.tx.input[j].witness;
            let cur = w.inflation_keys_rangeproof.clone();
            let mut i = t.below(p.rangeproofs.len());
            if cur.as_deref() == Some(&p.rangeproofs[i]) {
                i = (i + 1) % p.rangeproofs.len();
            }
            w.inflation_keys_rangeproof = Some(Box::new(p.rangeproofs[i].clone()));
        }
        Mod::IssuanceEntropy(j) => {
            let iss = &mut case.tx.input[j].asset_issuance;
            if t.bool() {
                let cur = iss.asset_blinding_nonce;
                let mut n = gen::gen_tweak(t);
                if n == cur {
                    n = if cur == p.tweaks[0] { p.tweaks[1] } else { p.tweaks[0] };
                }
                iss.asset_blinding_nonce = n;
            } else {
                iss.asset_entropy[t.below(32)] ^= 1 << t.below(8);
            }
        }
        Mod::SpentNonce(j) => {
            let cur = case.spent[j].nonce;
            let mut n = gen::gen_nonce(t);
            if n == cur {
                n = if cur.is_null() { elements::confidential::Nonce::Explicit([9; 32]) } else { elements::confidential::Nonce::Null };
            }
            case.spent[j].nonce = n;
        }
        Mod::SpentWitness(j) => {
            let w = &mut case.spent[j].witness;
            let cur = w.rangeproof.clone();
            let mut i = t.below(p.rangeproofs.len());
            if cur.as_deref() == Some(&p.rangeproofs[i]) {
                i = (i + 1) % p.rangeproofs.len();
            }
            w.rangeproof = Some(Box::new(p.rangeproofs[i].clone()));
        }
        Mod::OutputNonce(k) => {
            let cur = case.tx.output[k].nonce;
            let mut n = gen::gen_nonce(t);
            if n == cur {
                n = if cur.is_null() { elements::confidential::Nonce::Explicit([9; 32]) } else { elements::confidential::Nonce::Null };
            }
            case.tx.output[k].nonce = n;
        }
        Mod::OutputSurjection(k) => {
            let w = &mut case.tx.output[k].witness;
            let cur = w.surjection_proof.clone();
            let mut i = t.below(p.surjproofs.len());
            if cur.as_deref() == Some(&p.surjproofs[i]) {
                i = (i + 1) % p.surjproofs.len();
            }
            w.surjection_proof = Some(Box::new(p.surjproofs[i].clone()));
        }
    }
    true
}

fn metamorphic(t: &mut Tape, ctx: &mut Ctx) -> R {
    let case = gen_case(t);
    let q = gen_query(t, &case, false);
    // error answers are handled by the differential check
    let mut cache = SighashCache::new(&case.tx);
    let base = lib_answer(&mut cache, &case.spent, &q, false)?.0;
    let Answer::Digest(base_d) = base else { return Ok(()) };
    let nin = case.tx.input.len();
    let nout = case.tx.output.len();
    let mut mods = vec![Mod::Version, Mod::LockTime, Mod::AddOutput];
    for j in 0..nin {
        mods.extend([
            Mod::ScriptSig(j),
            Mod::SequenceOf(j),
            Mod::PrevTxid(j),
            Mod::InScriptWitness(j),
            Mod::InPeginWitness(j),
            Mod::IssuanceProof(j),
            Mod::SpentAsset(j),
            Mod::SpentValue(j),
            Mod::SpentScript(j),
            Mod::IssuanceAmount(j),
        ]);
    }
    for k in 0..nout {
        mods.extend([Mod::OutputScript(k), Mod::OutputWitness(k)]);
    }
    for j in 0..nin {
        mods.extend([Mod::PeginFlag(j), Mod::InflationProof(j), Mod::IssuanceEntropy(j), Mod::SpentNonce(j), Mod::SpentWitness(j)]);
    }
    for k in 0..nout {
        mods.extend([Mod::OutputNonce(k), Mod::OutputSurjection(k)]);
    }
    for m in mods {
        let Some(exp) = expected(&q, &case, m) else { continue };
        let mut c2 = Case { tx: case.tx.clone(), spent: case.spent.clone() };
        if !apply_mod(t, &mut c2, m) {
            continue;
        }
        let mut cache2 = SighashCache::new(&c2.tx);
        let a2 = lib_answer(&mut cache2, &c2.spent, &q, false)?.0;
        ctx.eval();
        if matches!(a2, Answer::Skipped(_)) {
            continue;
        }
        let Answer::Digest(d2) = a2 else {
            return Err(Failure::new(format!("{} sighash turned into an error after modification {:?} ({})", q.kind(), m, q.render())));
        };
        if exp {
            ensure!(d2 != base_d, "{} digest does not depend on {:?}, which the algorithm commits to for this hash type\n query={}\n tx={:?}", q.kind(), m, q.render(), case.tx);
        } else {
            ensure!(d2 == base_d, "{} digest depends on {:?}, which the algorithm does not commit to for this hash type\n query={}\n tx={:?}", q.kind(), m, q.render(), case.tx);
        }
        let label = format!("{:?}", m);
        let label = label.split('(').next().unwrap_or("").to_string();
        ctx.class(&format!("dep:{}:{}", if exp { "committed" } else { "not-committed" }, label));
        if nin >= 2 {
            ctx.nontrivial(&(q.kind(), q.type_byte(), q.idx(), label, hex(&base_d)));
        }
    }
    Ok(())
}

fn repro_legacy_single() -> bool {
    let mut t = Tape::new(&[]);
    let o = TxOpts { big: false, coinbase: false, ..TxOpts::default() };
    let tx = Transaction { version: 2, lock_time: elements::LockTime::ZERO, input: vec![gen::gen_txin(&mut t, &o), gen::gen_txin(&mut t, &o)], output: vec![] };
    let c = SighashCache::new(&tx);
    c.legacy_sighash(1, &Script::new(), EcdsaSighashType::Single).to_byte_array() != rs::ONE
}
fn repro_acp_one() -> bool {
    let mut t = Tape::new(&[]);
    let o = TxOpts { big: false, coinbase: false, ..TxOpts::default() };
    let tx = Transaction { version: 2, lock_time: elements::LockTime::ZERO, input: vec![gen::gen_txin(&mut t, &o)], output: vec![TxOut::default()] };
    let spent = TxOut::default();
    let mut c = SighashCache::new(&tx);
    c.taproot_key_spend_signature_hash(0, &Prevouts::One(0, &spent), SchnorrSighashType::AllPlusAnyoneCanPay, BlockHash::from_byte_array([0u8; 32])).is_err()
}

pub fn knowns() -> Vec<Known> {
    vec![
        Known { key: KF_LEGACY_SINGLE, what: "legacy_sighash(SINGLE, index >= outputs) returns sha256d(0x01 00..00) instead of the constant 0x01 00..00", repro: repro_legacy_single },
        Known { key: KF_ACP_ONE, what: "taproot ALL|ANYONECANPAY with Prevouts::One fails with PrevoutKind", repro: repro_acp_one },
    ]
}

pub fn property() -> Property {
    Property {
        id: "C03",
        rule: "differential: tape-generated transactions (1..5 inputs, 0..5 outputs, pegin/issuance/reissuance/confidential \
               fields, issuance and output proofs) with spent outputs; 1-4 queries each over legacy/segwit-v0/taproot, every \
               input index, all 6 ECDSA / 7 Schnorr types, key/script path, annex, code-separator, Prevouts All/One; oracle: \
               digest and exact signing message equal the harness's independent implementation (anchored on the 20 pinned \
               Elements Core vectors), asked of a fresh cache and of one cache shared by the case's queries; an error is \
               demanded only for a single spent output with a type that needs all of them and for taproot SINGLE without \
               output. Queries outside the quantifier (Prevouts::All of the wrong length, One for another input under \
               ANYONECANPAY, input index beyond the inputs) are put to a throw-away cache only and the outcome is \
               counted, not judged (classes not-stated:*); a refusal of a 0x50-prefixed annex by Annex::new or of a valid leaf version by LeafVersion::from_u8 is a failure (the statement quantifies over annexes and script paths). \
               differential_x: the same check over extended generators: script code / leaf script / annex / one spent \
               script / one output script of length 0xfc,0xfd,0xfe,0xff,0x100,0x1fd and rarely 0xffff,0x10000,0x10001; \
               0xfc/0xfd/0xfe inputs or outputs (1/40 each); inputs whose issuance is null by value but has entropy / \
               blinding nonce set (treated as no issuance); spent outputs carrying a witness; the script-spend API through \
               ScriptPath::new / with_defaults (code-separator 0xffffffff) and with all six leaf versions; signing message \
               also requested from the shared cache (1/4). metamorphic: 22 kinds of single-field modification at every \
               input/output position against an explicit committed / not-committed table per (algorithm, hash type) \
               (incl. pegin flag, inflation-keys proof, issuance entropy / nonce of real and of null-valued issuances, spent \
               nonce / witness, output nonce / surjection proof). Non-trivial: >=2 inputs and (index>0 or \
               pegin/issuance/confidential field or SINGLE without output), or any of the extended shapes; distinct by (tx \
               encoding, query).",
        assumptions: &[
            "the legacy serialization folds the pegin/issuance flag bits into the outpoint index, as the pinned Elements Core issuance vector requires",
            "input indices >= number of inputs are only generated for taproot ANYONECANPAY (library returns an error; not judged); legacy/segwit document a panic there",
            "an issuance is present iff one of its two amounts is non-null (CAssetIssuance::IsNull), whatever entropy and blinding nonce hold",
            "taproot_script_spend_signature_hash documents the code-separator position 0xffffffff; ScriptPath values are built with that position",
        ],
        subs: vec![
            Sub { name: "differential", kind: Kind::Tape { max_len: 3000, quick: 400_000, thorough: 4_000_000, f: differential } },
            Sub { name: "metamorphic", kind: Kind::Tape { max_len: 3000, quick: 64_000, thorough: 640_000, f: metamorphic } },
            Sub { name: "differential_x", kind: Kind::Tape { max_len: 3000, quick: 100_000, thorough: 2_000_000, f: differential_x } },
        ],
        known: knowns(),
    }
}
