//! C03 — signature hashes follow the Elements legacy / segwit-v0 / taproot algorithms.
//! (C13 reuses the query machinery defined here.)
use elements::confidential::Value;
use elements::hashes::Hash as _;
use elements::sighash::{Annex, Prevouts, SighashCache};
use elements::taproot::{LeafVersion, TapLeafHash};
use elements::{BlockHash, EcdsaSighashType, SchnorrSighashType, Script, Sequence, Transaction, TxOut, Txid};
use serde_json::json;

use crate::engine::*;
use crate::gen::{self, pool, TxOpts};
use crate::refimpl::sighash as rs;
use crate::refimpl::sha256::sha256d;
use crate::{ensure, ensure_eq};

pub const ECDSA_TYPES: [EcdsaSighashType; 6] = [
    EcdsaSighashType::All,
    EcdsaSighashType::None,
    EcdsaSighashType::Single,
    EcdsaSighashType::AllPlusAnyoneCanPay,
    EcdsaSighashType::NonePlusAnyoneCanPay,
    EcdsaSighashType::SinglePlusAnyoneCanPay,
];
pub const SCHNORR_TYPES: [SchnorrSighashType; 7] = [
    SchnorrSighashType::Default,
    SchnorrSighashType::All,
    SchnorrSighashType::None,
    SchnorrSighashType::Single,
    SchnorrSighashType::AllPlusAnyoneCanPay,
    SchnorrSighashType::NonePlusAnyoneCanPay,
    SchnorrSighashType::SinglePlusAnyoneCanPay,
];

#[derive(Clone, Debug, PartialEq, Eq, Hash)]
pub enum PrevMode {
    All,
    One,
    /// `All` with one element too many / too few
    AllWrongLen,
    /// `One` for another input
    OneWrongIndex,
}

#[derive(Clone, Debug, PartialEq, Eq, Hash)]
pub enum TapApi {
    Generic,
    KeySpend,
    ScriptSpend,
}

#[derive(Clone, Debug)]
pub enum Query {
    Legacy { idx: usize, script: Script, ty: EcdsaSighashType },
    Segwit { idx: usize, script: Script, value: Value, ty: EcdsaSighashType },
    Taproot {
        idx: usize,
        ty: SchnorrSighashType,
        annex: Option<Vec<u8>>,
        leaf: Option<(Script, u8, u32)>,
        prev: PrevMode,
        api: TapApi,
        genesis: [u8; 32],
    },
}

impl Query {
    pub fn kind(&self) -> &'static str {
        match self {
            Query::Legacy { .. } => "legacy",
            Query::Segwit { .. } => "segwit",
            Query::Taproot { .. } => "taproot",
        }
    }
    pub fn idx(&self) -> usize {
        match self {
            Query::Legacy { idx, .. } | Query::Segwit { idx, .. } | Query::Taproot { idx, .. } => *idx,
        }
    }
    pub fn type_byte(&self) -> u8 {
        match self {
            Query::Legacy { ty, .. } | Query::Segwit { ty, .. } => ty.as_u32() as u8,
            Query::Taproot { ty, .. } => *ty as u8,
        }
    }
    pub fn render(&self) -> serde_json::Value {
        match self {
            Query::Legacy { idx, script, ty } => json!({"kind": "legacy", "index": idx, "type": ty.to_string(), "script_len": script.len()}),
            Query::Segwit { idx, script, value, ty } => {
                json!({"kind": "segwit-v0", "index": idx, "type": ty.to_string(), "script_len": script.len(), "value": value.to_string()})
            }
            Query::Taproot { idx, ty, annex, leaf, prev, api, .. } => json!({"kind": "taproot", "index": idx, "type": ty.to_string(),
                "annex_len": annex.as_ref().map(|a| a.len()), "script_path": leaf.as_ref().map(|(s, v, c)| json!({"script_len": s.len(), "leaf_version": v, "codesep": c})),
                "prevouts": format!("{:?}", prev), "api": format!("{:?}", api)}),
        }
    }
}

/// digest or error
#[derive(Clone, Debug, PartialEq, Eq)]
pub enum Answer {
    Digest([u8; 32]),
    Err(String),
}

pub struct Case {
    pub tx: Transaction,
    pub spent: Vec<TxOut>,
}

pub fn gen_case(t: &mut Tape) -> Case {
    let o = TxOpts { big: false, coinbase: false, max_in: 5, max_out: 5, ..TxOpts::default() };
    let mut tx = gen::gen_tx(t, &o);
    if tx.input.is_empty() {
        tx.input.push(gen::gen_txin(t, &o));
    }
    tx.input.truncate(5);
    tx.output.truncate(5);
    let so = TxOpts { big: false, witness: false, ..TxOpts::default() };
    let spent = (0..tx.input.len()).map(|_| gen::gen_txout(t, &so)).collect();
    Case { tx, spent }
}

pub fn gen_query(t: &mut Tape, case: &Case, allow_errors: bool) -> Query {
    let n = case.tx.input.len();
    let idx = t.below(n);
    match t.below(3) {
        0 => Query::Legacy { idx, script: gen::gen_script(t, false), ty: t.choose(&ECDSA_TYPES) },
        1 => Query::Segwit { idx, script: gen::gen_script(t, false), value: gen::gen_value(t), ty: t.choose(&ECDSA_TYPES) },
        _ => {
            let ty = t.choose(&SCHNORR_TYPES);
            let api = match t.below(4) {
                0 => TapApi::KeySpend,
                1 => TapApi::ScriptSpend,
                _ => TapApi::Generic,
            };
            let annex = if api == TapApi::Generic && t.chance(90) {
                let l = t.below(40);
                let mut a = vec![0x50];
                a.extend(t.bytes(l));
                Some(a)
            } else {
                None
            };
            let leaf = match api {
                TapApi::KeySpend => None,
                TapApi::ScriptSpend => Some((gen::gen_script(t, false), 0xc4, 0xffff_ffff)),
                TapApi::Generic => {
                    if t.bool() {
                        let ver = t.choose(&[0xc4u8, 0xc0, 0xc2, 0xfe, 0x66, 0x7e]);
                        let pos = t.choose(&[0xffff_ffffu32, 0, 1, 7, 0x1_0000]);
                        Some((gen::gen_script(t, false), ver, pos))
                    } else {
                        None
                    }
                }
            };
            let prev = match t.below(if allow_errors { 10 } else { 8 }) {
                0..=3 => PrevMode::All,
                4..=7 => PrevMode::One,
                8 => PrevMode::AllWrongLen,
                _ => PrevMode::OneWrongIndex,
            };
            // an input index beyond the inputs, only where the algorithm defines the outcome (ANYONECANPAY => error)
            let idx = if allow_errors && (ty as u8) & 0x80 != 0 && prev == PrevMode::All && t.chance(16) { n + t.below(3) } else { idx };
            Query::Taproot { idx, ty, annex, leaf, prev, api, genesis: t.arr32() }
        }
    }
}

/// the reference answer (and signing message, when there is one)
pub fn ref_answer(tx: &Transaction, spent: &[TxOut], q: &Query) -> (Answer, Option<Vec<u8>>) {
    match q {
        Query::Legacy { idx, script, ty } => match rs::legacy(tx, *idx, script.as_bytes(), ty.as_u32()) {
            rs::Legacy::One => (Answer::Digest(rs::ONE), None),
            rs::Legacy::Message(m) => (Answer::Digest(sha256d(&m)), Some(m)),
        },
        Query::Segwit { idx, script, value, ty } => {
            let m = rs::segwit_v0(tx, *idx, script.as_bytes(), value, ty.as_u32());
            (Answer::Digest(sha256d(&m)), Some(m))
        }
        Query::Taproot { idx, ty, annex, leaf, prev, genesis, .. } => {
            let mut longer;
            let other = (*idx + 1) % spent.len().max(1);
            let sp = match prev {
                PrevMode::All => rs::Spent::All(spent),
                PrevMode::One => match spent.get(*idx) {
                    Some(p) => rs::Spent::One(*idx, p),
                    None => rs::Spent::All(spent),
                },
                PrevMode::AllWrongLen => {
                    longer = spent.to_vec();
                    if longer.len() % 2 == 0 {
                        longer.push(TxOut::default());
                    } else {
                        longer.pop();
                    }
                    rs::Spent::All(&longer)
                }
                PrevMode::OneWrongIndex => rs::Spent::One(other, &spent[other]),
            };
            let leaf_h = leaf.as_ref().map(|(s, v, p)| (rs::tap_leaf_hash(*v, s.as_bytes()), *p));
            match rs::taproot_message(tx, *idx, &sp, annex.as_deref(), leaf_h, *ty as u8, genesis) {
                Ok(m) => (Answer::Digest(rs::taproot_digest(&m)), Some(m)),
                Err(e) => (Answer::Err(format!("{:?}", e)), None),
            }
        }
    }
}

/// ask the library through `cache`; also returns the signing message written by the
/// `*_encode_signing_data_to` entry point
pub fn lib_answer<R: std::ops::Deref<Target = Transaction>>(
    cache: &mut SighashCache<R>,
    spent: &[TxOut],
    q: &Query,
    want_message: bool,
) -> Result<(Answer, Option<Vec<u8>>), Failure> {
    match q {
        Query::Legacy { idx, script, ty } => {
            let d = guard::guard("legacy_sighash", 0, || cache.legacy_sighash(*idx, script, *ty).to_byte_array())?;
            let m = if want_message {
                let mut v = Vec::new();
                let r = guard::guard("encode_legacy_signing_data_to", 0, || cache.encode_legacy_signing_data_to(&mut v, *idx, script, *ty))?;
                if let Err(e) = r {
                    return Err(Failure::new(format!("encode_legacy_signing_data_to failed on a Vec writer: {}", e)));
                }
                Some(v)
            } else {
                None
            };
            Ok((Answer::Digest(d), m))
        }
        Query::Segwit { idx, script, value, ty } => {
            let d = guard::guard("segwitv0_sighash", 0, || cache.segwitv0_sighash(*idx, script, *value, *ty).to_byte_array())?;
            let m = if want_message {
                let mut v = Vec::new();
                let r = guard::guard("encode_segwitv0_signing_data_to", 0, || {
                    cache.encode_segwitv0_signing_data_to(&mut v, *idx, script, *value, *ty)
                })?;
                if let Err(e) = r {
                    return Err(Failure::new(format!("encode_segwitv0_signing_data_to failed on a Vec writer: {}", e)));
                }
                Some(v)
            } else {
                None
            };
            Ok((Answer::Digest(d), m))
        }
        Query::Taproot { idx, ty, annex, leaf, prev, api, genesis } => {
            let longer;
            let other = (*idx + 1) % spent.len().max(1);
            let prevouts: Prevouts<&TxOut>;
            let refs: Vec<&TxOut>;
            match prev {
                PrevMode::All => {
                    refs = spent.iter().collect();
                    prevouts = Prevouts::All(&refs);
                }
                PrevMode::One => match spent.get(*idx) {
                    Some(p) => prevouts = Prevouts::One(*idx, p),
                    None => {
                        refs = spent.iter().collect();
                        prevouts = Prevouts::All(&refs);
                    }
                },
                PrevMode::AllWrongLen => {
                    let mut l = spent.to_vec();
                    if l.len() % 2 == 0 {
                        l.push(TxOut::default());
                    } else {
                        l.pop();
                    }
                    longer = l;
                    refs = longer.iter().collect();
                    prevouts = Prevouts::All(&refs);
                }
                PrevMode::OneWrongIndex => prevouts = Prevouts::One(other, &spent[other]),
            }
            let genesis_h = BlockHash::from_byte_array(*genesis);
            let annex_v = match annex {
                Some(a) => match Annex::new(a) {
                    Ok(x) => Some(x),
                    Err(e) => return Err(Failure::new(format!("Annex::new rejected a 0x50-prefixed annex: {}", e))),
                },
                None => None,
            };
            let leaf_v: Option<(TapLeafHash, u32)> = match leaf {
                Some((s, v, pos)) => {
                    let ver = match LeafVersion::from_u8(*v) {
                        Ok(v) => v,
                        Err(e) => return Err(Failure::new(format!("LeafVersion::from_u8({:#x}) failed: {}", v, e))),
                    };
                    Some((guard::guard("TapLeafHash::from_script", 0, || TapLeafHash::from_script(s, ver))?, *pos))
                }
                None => None,
            };
            let r = guard::guard("taproot sighash", 0, || match api {
                TapApi::Generic => cache.taproot_sighash(*idx, &prevouts, annex_v.clone(), leaf_v, *ty, genesis_h),
                TapApi::KeySpend => cache.taproot_key_spend_signature_hash(*idx, &prevouts, *ty, genesis_h),
                TapApi::ScriptSpend => match leaf_v {
                    Some((h, _)) => cache.taproot_script_spend_signature_hash(*idx, &prevouts, h, *ty, genesis_h),
                    None => cache.taproot_key_spend_signature_hash(*idx, &prevouts, *ty, genesis_h),
                },
            })?;
            match r {
                Ok(h) => {
                    let m = if want_message {
                        let mut v = Vec::new();
                        let r2 = guard::guard("taproot_encode_signing_data_to", 0, || {
                            cache.taproot_encode_signing_data_to(&mut v, *idx, &prevouts, annex_v.clone(), leaf_v, *ty, genesis_h)
                        })?;
                        if let Err(e) = r2 {
                            return Err(Failure::new(format!("taproot_encode_signing_data_to errs where taproot_sighash succeeds: {}", e)));
                        }
                        Some(v)
                    } else {
                        None
                    };
                    Ok((Answer::Digest(h.to_byte_array()), m))
                }
                Err(e) => Ok((Answer::Err(format!("{:?}", e)), None)),
            }
        }
    }
}

/// Known finding keys (status decided by /verif/known_findings.json)
pub const KF_LEGACY_SINGLE: &str = "legacy-single-out-of-range-is-hashed";
pub const KF_ACP_ONE: &str = "taproot-all-anyonecanpay-rejects-prevouts-one";

/// compare library and reference for one query; Ok(true) when they agree (or differ by a listed
/// known finding)
pub fn compare(tx: &Transaction, spent: &[TxOut], q: &Query, lib: &(Answer, Option<Vec<u8>>), ctx: &mut Ctx) -> R {
    let (want, want_msg) = ref_answer(tx, spent, q);
    ctx.eval();
    match (&lib.0, &want) {
        (Answer::Digest(a), Answer::Digest(b)) => {
            if a != b {
                if let Query::Legacy { idx, ty, .. } = q {
                    if (ty.as_u32() & 0x1f) == 3 && *idx >= tx.output.len() && *a == sha256d(&rs::ONE) && ctx.is_known(KF_LEGACY_SINGLE) {
                        return Ok(());
                    }
                }
                return Err(Failure::new(format!(
                    "{} sighash differs from the reference implementation\n query={}\n lib={}\n ref={}\n tx={:?}",
                    q.kind(),
                    q.render(),
                    hex(a),
                    hex(b),
                    tx
                )));
            }
            if let (Some(lm), Some(wm)) = (&lib.1, &want_msg) {
                ensure_eq!(hex(lm), hex(wm), "{} signing message differs from the reference ({})", q.kind(), q.render());
            }
        }
        (Answer::Err(_), Answer::Err(_)) => {}
        (Answer::Err(e), Answer::Digest(_)) => {
            if let Query::Taproot { ty, prev, .. } = q {
                if *ty == SchnorrSighashType::AllPlusAnyoneCanPay && *prev == PrevMode::One && e.contains("PrevoutKind") && ctx.is_known(KF_ACP_ONE) {
                    return Ok(());
                }
            }
            return Err(Failure::new(format!("{} sighash returns {} where the algorithm defines a digest\n query={}\n tx={:?}", q.kind(), e, q.render(), tx)));
        }
        (Answer::Digest(d), Answer::Err(e)) => {
            return Err(Failure::new(format!(
                "{} sighash returns a digest ({}) where the algorithm defines an error ({})\n query={}",
                q.kind(),
                hex(d),
                e,
                q.render()
            )));
        }
    }
    Ok(())
}

fn differential(t: &mut Tape, ctx: &mut Ctx) -> R {
    let case = gen_case(t);
    let nq = 1 + t.below(4);
    // every query is asked twice: of a cache created for it alone, and of one cache object shared by all
    // queries of the case (the digests the statement defines do not depend on what was asked before)
    let mut shared = SighashCache::new(&case.tx);
    for qi in 0..nq {
        let q = gen_query(t, &case, true);
        let mut cache = SighashCache::new(&case.tx);
        let lib = lib_answer(&mut cache, &case.spent, &q, true)?;
        compare(&case.tx, &case.spent, &q, &lib, ctx)?;
        let lib_shared = lib_answer(&mut shared, &case.spent, &q, false)?;
        if let Err(mut f) = compare(&case.tx, &case.spent, &q, &lib_shared, ctx) {
            f.msg = clip(format!("(query {} of {} on one shared SighashCache) {}", qi + 1, nq, f.msg));
            return Err(f);
        }
        let feats = gen::tx_features(&case.tx);
        let single_oor = q.type_byte() & 3 == 3 && q.idx() >= case.tx.output.len();
        let interesting = q.idx() > 0 || feats.iter().any(|f| ["pegin", "issuance", "reissuance", "conf-asset", "conf-value"].contains(f)) || single_oor;
        ctx.class(&format!("query:{}:{:#04x}", q.kind(), q.type_byte()));
        if single_oor {
            ctx.class("single-without-output");
        }
        if let Query::Taproot { prev, annex, leaf, .. } = &q {
            ctx.class(&format!("taproot:prevouts:{:?}", prev));
            if annex.is_some() {
                ctx.class("taproot:annex");
            }
            if leaf.is_some() {
                ctx.class("taproot:script-path");
            }
        }
        if matches!(lib.0, Answer::Err(_)) {
            ctx.class("answer:error");
        }
        if case.tx.input.len() >= 2 && interesting {
            ctx.nontrivial(&(crate::refimpl::enc::tx_full(&case.tx), format!("{}", q.render())));
        }
        let cls = format!("query:{}", q.kind());
        if ctx.wants_sample(&cls) && case.tx.input.len() >= 2 {
            ctx.sample(&cls, || json!({"inputs": case.tx.input.len(), "outputs": case.tx.output.len(), "features": feats, "query": q.render(),
                "answer": match &lib.0 { Answer::Digest(d) => hex(d), Answer::Err(e) => e.clone() }}));
        }
    }
    Ok(())
}

// ---- metamorphic dependency table -------------------------------------------------------

#[derive(Clone, Copy, Debug, PartialEq, Eq, Hash)]
enum Mod {
    Version,
    LockTime,
    ScriptSig(usize),
    SequenceOf(usize),
    PrevTxid(usize),
    OutputScript(usize),
    OutputWitness(usize),
    InScriptWitness(usize),
    InPeginWitness(usize),
    IssuanceProof(usize),
    SpentAsset(usize),
    SpentValue(usize),
    SpentScript(usize),
    IssuanceAmount(usize),
    AddOutput,
}

/// Expected effect from the algorithms' commitment structure: Some(true) must change,
/// Some(false) must not change, None = not stated here.
fn expected(q: &Query, case: &Case, m: Mod) -> Option<bool> {
    let idx = q.idx();
    let tb = q.type_byte();
    let acp = tb & 0x80 != 0;
    let base = if tb == 0 { 1 } else { tb & 3 };
    let tap = matches!(q, Query::Taproot { .. });
    let nout = case.tx.output.len();
    // queries that answer with an error or with the SINGLE constants are left to the differential check
    if base == 3 && idx >= nout {
        return None;
    }
    Some(match m {
        Mod::Version | Mod::LockTime => true,
        Mod::ScriptSig(_) => false,
        Mod::SequenceOf(j) if j == idx => true,
        Mod::SequenceOf(_) => {
            if acp {
                false
            } else if tap {
                true
            } else {
                base == 1
            }
        }
        Mod::PrevTxid(j) => j == idx || !acp,
        Mod::OutputScript(k) => match base {
            1 => true,
            2 => false,
            _ => k == idx,
        },
        Mod::OutputWitness(k) => {
            if !tap {
                false
            } else {
                match base {
                    1 => true,
                    2 => false,
                    _ => k == idx,
                }
            }
        }
        Mod::InScriptWitness(_) | Mod::InPeginWitness(_) => false,
        Mod::IssuanceProof(j) => {
            if !tap {
                false
            } else if !acp {
                true
            } else {
                j == idx && case.tx.input[j].has_issuance()
            }
        }
        Mod::SpentAsset(j) | Mod::SpentValue(j) | Mod::SpentScript(j) => {
            if !tap {
                return None;
            }
            j == idx || !acp
        }
        Mod::IssuanceAmount(j) => j == idx || !acp,
        Mod::AddOutput => base == 1,
    })
}

fn apply_mod(t: &mut Tape, case: &mut Case, m: Mod) -> bool {
    let p = pool();
    match m {
        Mod::Version => case.tx.version ^= 1 << t.below(32),
        Mod::LockTime => {
            case.tx.lock_time = elements::LockTime::from_consensus(case.tx.lock_time.to_consensus_u32() ^ (1 << t.below(32)))
        }
        Mod::ScriptSig(j) => {
            let mut b = case.tx.input[j].script_sig.to_bytes();
            b.push(0x51);
            case.tx.input[j].script_sig = Script::from(b);
        }
        Mod::SequenceOf(j) => {
            // for legacy NONE/SINGLE the other sequences are zeroed: keep the new value non-zero vs zero aware
            case.tx.input[j].sequence = Sequence(case.tx.input[j].sequence.0 ^ (1 << t.below(32)));
        }
        Mod::PrevTxid(j) => {
            let mut a = case.tx.input[j].previous_output.txid.to_byte_array();
            a[t.below(32)] ^= 1 << t.below(8);
            case.tx.input[j].previous_output.txid = Txid::from_byte_array(a);
        }
        Mod::OutputScript(k) => {
            let mut b = case.tx.output[k].script_pubkey.to_bytes();
            b.push(0x52);
            case.tx.output[k].script_pubkey = Script::from(b);
        }
        Mod::OutputWitness(k) => {
            let w = &mut case.tx.output[k].witness;
            let cur = w.rangeproof.clone();
            let mut i = t.below(p.rangeproofs.len());
            if cur.as_deref() == Some(&p.rangeproofs[i]) {
                i = (i + 1) % p.rangeproofs.len();
            }
            w.rangeproof = Some(Box::new(p.rangeproofs[i].clone()));
        }
        Mod::InScriptWitness(j) => case.tx.input[j].witness.script_witness.push(vec![1, 2, 3]),
        Mod::InPeginWitness(j) => case.tx.input[j].witness.pegin_witness.push(vec![4]),
        Mod::IssuanceProof(j) => {
            let w = &mut case.tx.input[j].witness;
            let cur = w.amount_rangeproof.clone();
            let mut i = t.below(p.rangeproofs.len());
            if cur.as_deref() == Some(&p.rangeproofs[i]) {
                i = (i + 1) % p.rangeproofs.len();
            }
            w.amount_rangeproof = Some(Box::new(p.rangeproofs[i].clone()));
        }
        Mod::SpentAsset(j) => {
            let cur = case.spent[j].asset;
            let mut a = gen::gen_asset(t);
            if a == cur {
                a = if cur.is_null() { elements::confidential::Asset::Explicit(p.assets[1]) } else { elements::confidential::Asset::Null };
            }
            case.spent[j].asset = a;
        }
        Mod::SpentValue(j) => {
            let cur = case.spent[j].value;
            let mut v = gen::gen_value(t);
            if v == cur {
                v = if cur.is_null() { Value::Explicit(3) } else { Value::Null };
            }
            case.spent[j].value = v;
        }
        Mod::SpentScript(j) => {
            let mut b = case.spent[j].script_pubkey.to_bytes();
            b.push(0x53);
            case.spent[j].script_pubkey = Script::from(b);
        }
        Mod::IssuanceAmount(j) => {
            if !case.tx.input[j].has_issuance() {
                return false;
            }
            let cur = case.tx.input[j].asset_issuance.amount;
            case.tx.input[j].asset_issuance.amount = match cur {
                Value::Explicit(n) => Value::Explicit(n ^ 1 | 2),
                _ => Value::Explicit(77),
            };
            if case.tx.input[j].asset_issuance.amount == cur {
                return false;
            }
        }
        Mod::AddOutput => {
            let so = TxOpts { big: false, witness: false, ..TxOpts::default() };
            case.tx.output.push(gen::gen_txout(t, &so));
        }
    }
    true
}

fn metamorphic(t: &mut Tape, ctx: &mut Ctx) -> R {
    let case = gen_case(t);
    let q = gen_query(t, &case, false);
    // error answers are handled by the differential check
    let mut cache = SighashCache::new(&case.tx);
    let base = lib_answer(&mut cache, &case.spent, &q, false)?.0;
    let Answer::Digest(base_d) = base else { return Ok(()) };
    let nin = case.tx.input.len();
    let nout = case.tx.output.len();
    let mut mods = vec![Mod::Version, Mod::LockTime, Mod::AddOutput];
    for j in 0..nin {
        mods.extend([
            Mod::ScriptSig(j),
            Mod::SequenceOf(j),
            Mod::PrevTxid(j),
            Mod::InScriptWitness(j),
            Mod::InPeginWitness(j),
            Mod::IssuanceProof(j),
            Mod::SpentAsset(j),
            Mod::SpentValue(j),
            Mod::SpentScript(j),
            Mod::IssuanceAmount(j),
        ]);
    }
    for k in 0..nout {
        mods.extend([Mod::OutputScript(k), Mod::OutputWitness(k)]);
    }
    for m in mods {
        let Some(exp) = expected(&q, &case, m) else { continue };
        let mut c2 = Case { tx: case.tx.clone(), spent: case.spent.clone() };
        if !apply_mod(t, &mut c2, m) {
            continue;
        }
        if let (Mod::SequenceOf(j), Query::Legacy { .. } | Query::Segwit { .. }) = (m, &q) {
            let _ = j;
        }
        let mut cache2 = SighashCache::new(&c2.tx);
        let a2 = lib_answer(&mut cache2, &c2.spent, &q, false)?.0;
        ctx.eval();
        let Answer::Digest(d2) = a2 else {
            return Err(Failure::new(format!("{} sighash turned into an error after modification {:?} ({})", q.kind(), m, q.render())));
        };
        if exp {
            ensure!(d2 != base_d, "{} digest does not depend on {:?}, which the algorithm commits to for this hash type\n query={}\n tx={:?}", q.kind(), m, q.render(), case.tx);
        } else {
            ensure!(d2 == base_d, "{} digest depends on {:?}, which the algorithm does not commit to for this hash type\n query={}\n tx={:?}", q.kind(), m, q.render(), case.tx);
        }
        let label = format!("{:?}", m);
        let label = label.split('(').next().unwrap_or("").to_string();
        ctx.class(&format!("dep:{}:{}", if exp { "committed" } else { "not-committed" }, label));
        if nin >= 2 {
            ctx.nontrivial(&(q.kind(), q.type_byte(), q.idx(), label, hex(&base_d)));
        }
    }
    Ok(())
}

fn repro_legacy_single() -> bool {
    let mut t = Tape::new(&[]);
    let o = TxOpts { big: false, coinbase: false, ..TxOpts::default() };
    let tx = Transaction { version: 2, lock_time: elements::LockTime::ZERO, input: vec![gen::gen_txin(&mut t, &o), gen::gen_txin(&mut t, &o)], output: vec![] };
    let c = SighashCache::new(&tx);
    c.legacy_sighash(1, &Script::new(), EcdsaSighashType::Single).to_byte_array() != rs::ONE
}
fn repro_acp_one() -> bool {
    let mut t = Tape::new(&[]);
    let o = TxOpts { big: false, coinbase: false, ..TxOpts::default() };
    let tx = Transaction { version: 2, lock_time: elements::LockTime::ZERO, input: vec![gen::gen_txin(&mut t, &o)], output: vec![TxOut::default()] };
    let spent = TxOut::default();
    let mut c = SighashCache::new(&tx);
    c.taproot_key_spend_signature_hash(0, &Prevouts::One(0, &spent), SchnorrSighashType::AllPlusAnyoneCanPay, BlockHash::from_byte_array([0u8; 32])).is_err()
}

pub fn knowns() -> Vec<Known> {
    vec![
        Known { key: KF_LEGACY_SINGLE, what: "legacy_sighash(SINGLE, index >= outputs) returns sha256d(0x01 00..00) instead of the constant 0x01 00..00", repro: repro_legacy_single },
        Known { key: KF_ACP_ONE, what: "taproot ALL|ANYONECANPAY with Prevouts::One fails with PrevoutKind", repro: repro_acp_one },
    ]
}

pub fn property() -> Property {
    Property {
        id: "C03",
        rule: "differential: tape-generated transactions (1..5 inputs, 0..5 outputs, pegin/issuance/reissuance/confidential \
               fields, issuance and output proofs) with spent outputs; 1-4 queries each over legacy/segwit-v0/taproot, every \
               input index, all 6 ECDSA / 7 Schnorr types, key/script path, annex, code-separator, Prevouts All/One (+wrong \
               length, wrong index, out-of-range ANYONECANPAY index); oracle: digest and exact signing message equal the \
               harness's independent implementation (anchored on the 20 pinned Elements Core vectors); errors where the \
               algorithm defines them. metamorphic: 15 kinds of single-field modification at every input/output position \
               against an explicit committed / not-committed table per (algorithm, hash type). Non-trivial: >=2 inputs and \
               (index>0 or pegin/issuance/confidential field or SINGLE without output); distinct by (tx encoding, query).",
        assumptions: &[
            "the legacy serialization folds the pegin/issuance flag bits into the outpoint index, as the pinned Elements Core issuance vector requires",
            "input indices >= number of inputs are only generated where the algorithm defines the outcome (taproot ANYONECANPAY => error); legacy/segwit document a panic there",
        ],
        subs: vec![
            Sub { name: "differential", kind: Kind::Tape { max_len: 3000, quick: 400_000, thorough: 4_000_000, f: differential } },
            Sub { name: "metamorphic", kind: Kind::Tape { max_len: 3000, quick: 80_000, thorough: 800_000, f: metamorphic } },
        ],
        known: knowns(),
    }
}
