//! C16 — scripts built by the builder parse back exactly; templates and addresses agree.
use std::collections::BTreeMap;
use std::str::FromStr;

use elements::address::Payload;
use elements::bitcoin::PublicKey as BtcKey;
use elements::opcodes::{All, Class, ClassifyContext};
use elements::script::{read_scriptint, Builder, Error as ScriptError, Instruction};
use elements::secp256k1_zkp::PublicKey as BlindKey;
use elements::{Address, AddressParams, Script};
use serde_json::json;

use crate::engine::*;
use crate::gen::pool;
use crate::refimpl::script::{self as rs, AddrKind, BOp, Ins, VerifyCtx};
use crate::{ensure, ensure_eq, fail};

/// `Address::from_script` (via `Script::is_v1plus_p2witprog`, which has no lower bound on the
/// program length) gives an address for `OP_n OP_0` and `OP_n <1 byte>` (n = 1..16); such a
/// program is not a witness program (BIP 141: 2..40 bytes) and the text form does not parse.
pub const KF_SHORT_PROGRAM: &str = "from-script-accepts-v1plus-program-shorter-than-2";

/// signature of KF_SHORT_PROGRAM: version opcode OP_1..OP_16, then a direct push of 0 or 1 bytes
fn short_program_sig(s: &[u8]) -> bool {
    (s.len() == 2 || s.len() == 3) && (rs::OP_1..=rs::OP_16).contains(&s[0]) && s[1] as usize == s.len() - 2
}

fn hex_clip(b: &[u8]) -> String {
    if b.len() <= 120 {
        hex(b)
    } else {
        format!("{}..({} bytes)..{}", hex(&b[..60]), b.len(), hex(&b[b.len() - 20..]))
    }
}

// ---------------------------------------------------------------------------------------------
// templates / addresses: one oracle shared by the enumeration and the perturbation search

/// cheap per-thread class counter (flushed into `Ctx` by the caller)
#[derive(Default)]
struct Local {
    classes: BTreeMap<&'static str, u64>,
    evals: u64,
}
impl Local {
    fn class(&mut self, k: &'static str) {
        *self.classes.entry(k).or_insert(0) += 1;
    }
    fn flush(self, ctx: &mut Ctx) {
        ctx.evals_n(self.evals);
        for (k, v) in self.classes {
            ctx.class_n(k, v);
        }
    }
}

const PRED_NAMES: [&str; 10] = [
    "is_p2pkh",
    "is_p2sh",
    "is_p2pk",
    "is_witness_program",
    "is_v0_p2wpkh",
    "is_v0_p2wsh",
    "is_v1_p2tr",
    "is_op_return",
    "is_provably_unspendable",
    "is_v1plus_p2witprog",
];
const V1PLUS: usize = 9;
/// predicates the statement does not list (it names p2pkh, p2sh and the witness-program forms): a
/// disagreement with the byte-form model is shown in the histogram but is not a C16 violation
const OUTSIDE_STATEMENT: [usize; 0] = [];
const OUTSIDE_LABELS: [&str; 10] = [
    "",
    "",
    "outside-statement:is_p2pk-differs-from-byte-form(counted,not-failed)",
    "",
    "",
    "",
    "",
    "outside-statement:is_op_return-differs-from-byte-form(counted,not-failed)",
    "outside-statement:is_provably_unspendable-differs-from-byte-form(counted,not-failed)",
    "",
];

fn model_preds(s: &[u8]) -> [bool; 10] {
    [
        rs::is_p2pkh(s),
        rs::is_p2sh(s),
        rs::is_p2pk(s),
        rs::is_witness_program(s),
        rs::is_v0_p2wpkh(s),
        rs::is_v0_p2wsh(s),
        rs::is_v1_p2tr(s),
        rs::is_op_return(s),
        rs::is_provably_unspendable(s),
        rs::is_v1plus_witness_program(s),
    ]
}

fn all_params() -> [&'static AddressParams; 3] {
    [&AddressParams::LIQUID, &AddressParams::ELEMENTS, &AddressParams::LIQUID_TESTNET]
}
fn params_name(p: &AddressParams) -> &'static str {
    if p == &AddressParams::LIQUID {
        "liquid"
    } else if p == &AddressParams::ELEMENTS {
        "elements"
    } else {
        "liquid-testnet"
    }
}
/// combination `k` (0..6) of network parameters and blinding key
fn combo(k: usize, salt: usize) -> (&'static AddressParams, Option<BlindKey>) {
    let keys = &pool().pubkeys;
    let blinder = if k % 2 == 1 { Some(keys[salt % keys.len()]) } else { None };
    (all_params()[(k / 2) % 3], blinder)
}

fn known_or_fail(ctx: &mut Ctx, loc: &mut Local, s: &[u8], msg: String) -> R {
    if short_program_sig(s) && ctx.is_known(KF_SHORT_PROGRAM) {
        loc.class("known:short-v1plus-program");
        Ok(())
    } else {
        Err(Failure::new(msg))
    }
}

fn check_address(
    a: &Address,
    kind: &AddrKind,
    bytes: &[u8],
    params: &'static AddressParams,
    blinder: Option<BlindKey>,
) -> Result<String, Failure> {
    let n = bytes.len();
    ensure!(a.params == params, "from_script changed the address parameters (script {})", hex(bytes));
    ensure!(a.blinding_pubkey == blinder, "from_script changed the blinding key (script {})", hex(bytes));
    let payload_ok = match (&a.payload, kind) {
        (Payload::PubkeyHash(h), AddrKind::PubkeyHash(w)) => AsRef::<[u8]>::as_ref(h) == &w[..],
        (Payload::ScriptHash(h), AddrKind::ScriptHash(w)) => AsRef::<[u8]>::as_ref(h) == &w[..],
        (Payload::WitnessProgram { version, program }, AddrKind::Witness { version: wv, program: wp }) => {
            version.to_u8() == *wv && program == wp
        }
        _ => false,
    };
    ensure!(payload_ok, "address payload {:?} of script {} is not {:?}", a.payload, hex(bytes), kind);
    let spk = guard::guard("Address::script_pubkey", n, || a.script_pubkey())?;
    ensure!(
        spk.as_bytes() == bytes,
        "script_pubkey of the address derived from script {} is {}",
        hex(bytes),
        hex(spk.as_bytes())
    );
    let text = guard::guard("Address::to_string", n, || a.to_string())?;
    let back = guard::guard("Address::from_str", text.len(), || Address::from_str(&text))?;
    match back {
        Ok(b) => ensure!(
            &b == a,
            "text form {} of the address of script {} ({}, blinded={}) parses to a different address {:?}",
            text,
            hex(bytes),
            params_name(params),
            blinder.is_some(),
            b
        ),
        Err(e) => fail!(
            "text form {} of the address of script {} ({}, blinded={}) does not parse: {:?}",
            text,
            hex(bytes),
            params_name(params),
            blinder.is_some(),
            e
        ),
    }
    let back2 = guard::guard("Address::parse_with_params", text.len(), || Address::parse_with_params(&text, params))?;
    ensure!(
        back2.as_ref().ok() == Some(a),
        "parse_with_params({}, {}) gives {:?} for the address of script {}",
        text,
        params_name(params),
        back2,
        hex(bytes)
    );
    Ok(text)
}

/// All template oracles for one script. `rot` selects the (parameters, blinding key) combination
/// used for the existence test; when an address exists all six combinations are checked.
fn check_script(bytes: &[u8], rot: usize, ctx: &mut Ctx, loc: &mut Local) -> R {
    let n = bytes.len();
    let script = Script::from(bytes.to_vec());
    let got = guard::guard("Script::is_* predicates", n, || {
        [
            script.is_p2pkh(),
            script.is_p2sh(),
            script.is_p2pk(),
            script.is_witness_program(),
            script.is_v0_p2wpkh(),
            script.is_v0_p2wsh(),
            script.is_v1_p2tr(),
            script.is_op_return(),
            script.is_provably_unspendable(),
            script.is_v1plus_p2witprog(),
        ]
    })?;
    let want = model_preds(bytes);
    loc.evals += 1;
    let mut deferred: Option<String> = None;
    // the statement's quantifier: byte strings of length 0..45
    // (Kept strict after review: the predicates the anchors name beyond the statement's list — is_p2pk,
    // is_op_return, is_provably_unspendable — are byte-form facts as well, and "an address is derived exactly
    // for those templates" has no length bound, so longer scripts are judged like the others.)
    let in_quantifier = n <= MAX_L as usize || true;
    if got != want {
        for i in 0..got.len() {
            if got[i] != want[i] && (!in_quantifier || OUTSIDE_STATEMENT.contains(&i)) {
                // not a template the statement lists (p2pk, OP_RETURN, unspendability: owned by C05)
                // or a script longer than the quantifier's 45 bytes: counted, never a failure
                loc.class(if !in_quantifier { "outside-quantifier:script-longer-than-45-bytes:predicate-differs(counted,not-failed)" } else { OUTSIDE_LABELS[i] });
                continue;
            }
            if got[i] != want[i] {
                let msg = format!(
                    "Script::{} is {} for script {} ({} bytes) whose byte form says {}",
                    PRED_NAMES[i],
                    got[i],
                    hex_clip(bytes),
                    n,
                    want[i]
                );
                if i == V1PLUS {
                    // reported after the address oracle (the address is the visible consequence)
                    deferred = Some(msg);
                } else {
                    return Err(Failure::new(msg));
                }
            }
        }
    }
    let kind = rs::address_kind(bytes);
    let (params, blinder) = combo(rot % 6, rot / 6);
    let addr = guard::guard("Address::from_script", n, || Address::from_script(&script, blinder, params))?;
    loc.evals += 1;
    match (&addr, &kind) {
        (None, None) => {}
        (Some(_), None) if !in_quantifier => {
            loc.class("outside-quantifier:script-longer-than-45-bytes:has-address(counted,not-failed)");
        }
        (Some(a), None) => {
            // show the unblinded form too: that is the one whose text does not parse
            let plain = guard::guard("Address::from_script", n, || Address::from_script(&script, None, params))?;
            let mut shown = String::new();
            for x in [Some(a.clone()), plain].into_iter().flatten() {
                let text = guard::guard("Address::to_string", n, || x.to_string())?;
                let back = guard::guard("Address::from_str", text.len(), || Address::from_str(&text))?;
                shown.push_str(&format!(" [{} -> from_str: {:?}]", text, back));
            }
            let msg = format!(
                "Address::from_script gives an address for script {} which is none of p2pkh / p2sh / v0 20- or 32-byte program / \
                 v1..v16 witness program of 2..40 bytes; text forms:{}",
                hex_clip(bytes),
                shown
            );
            known_or_fail(ctx, loc, bytes, msg)?;
        }
        (None, Some(k)) => fail!("Address::from_script gives None for script {} which is {:?}", hex(bytes), k),
        (Some(_), Some(k)) => {
            for c in 0..6 {
                let (params, blinder) = combo(c, rot / 6 + c);
                let a = guard::guard("Address::from_script", n, || Address::from_script(&script, blinder, params))?;
                let Some(a) = a else {
                    fail!("Address::from_script depends on parameters / blinding key: None for script {} with {}", hex(bytes), params_name(params))
                };
                let text = check_address(&a, k, bytes, params, blinder)?;
                loc.evals += 1;
                let label = match (k, blinder.is_some()) {
                    (AddrKind::PubkeyHash(_), false) => "address:p2pkh",
                    (AddrKind::PubkeyHash(_), true) => "address:p2pkh:blinded",
                    (AddrKind::ScriptHash(_), false) => "address:p2sh",
                    (AddrKind::ScriptHash(_), true) => "address:p2sh:blinded",
                    (AddrKind::Witness { version: 0, .. }, false) => "address:segwit-v0",
                    (AddrKind::Witness { version: 0, .. }, true) => "address:segwit-v0:blinded",
                    (AddrKind::Witness { .. }, false) => "address:segwit-v1plus",
                    (AddrKind::Witness { .. }, true) => "address:segwit-v1plus:blinded",
                };
                loc.class(label);
                if ctx.wants_sample(label) {
                    ctx.sample(label, || json!({"script": hex(bytes), "network": params_name(params), "address": text}));
                }
            }
        }
    }
    if let Some(msg) = deferred {
        known_or_fail(ctx, loc, bytes, msg)?;
    }
    match rs::near_template(bytes) {
        Some((how, what)) => {
            let label: &'static str = match (how, what) {
                ("exact", "p2pkh") => "exact:p2pkh",
                ("exact", "p2sh") => "exact:p2sh",
                ("exact", "p2pk") => "exact:p2pk",
                ("exact", "v0_p2wpkh") => "exact:v0_p2wpkh",
                ("exact", "v0_p2wsh") => "exact:v0_p2wsh",
                ("exact", "v1_p2tr") => "exact:v1_p2tr",
                ("exact", "v0_other_witprog") => "exact:v0-witness-program-other-length(no address)",
                ("exact", _) => "exact:v1plus-witness-program",
                ("sub1", "p2pkh") => "near:one-byte-substituted:p2pkh",
                ("sub1", "p2sh") => "near:one-byte-substituted:p2sh",
                ("sub1", "p2pk") => "near:one-byte-substituted:p2pk",
                ("sub1", _) => "near:one-byte-substituted:witness-program",
                ("trunc1", "p2pkh") => "near:one-byte-short:p2pkh",
                ("trunc1", "p2sh") => "near:one-byte-short:p2sh",
                ("trunc1", "p2pk") => "near:one-byte-short:p2pk",
                ("trunc1", _) => "near:one-byte-short:witness-program",
                (_, "p2pkh") => "near:one-byte-long:p2pkh",
                (_, "p2sh") => "near:one-byte-long:p2sh",
                (_, "p2pk") => "near:one-byte-long:p2pk",
                _ => "near:one-byte-long:witness-program",
            };
            loc.class(label);
            ctx.nontrivial(&bytes);
            if how != "exact" && ctx.wants_sample(label) {
                ctx.sample(label, || json!({"script": hex_clip(bytes), "predicates_true": PRED_NAMES.iter().zip(want).filter(|x| x.1).map(|x| *x.0).collect::<Vec<_>>(), "address": kind.is_some()}));
            }
        }
        None => loc.class("far-from-any-template"),
    }
    Ok(())
}

/// tail bytes that a template of this shape fixes: positions and values
fn template_patch(l: usize, b0: u8) -> Vec<(usize, u8)> {
    let mut p: Vec<(usize, u8)> = Vec::new();
    // by length: the exact template lengths get the template's fixed tail whatever the head is
    match l {
        25 => p.extend_from_slice(&[(2, 20), (23, rs::OP_EQUALVERIFY), (24, rs::OP_CHECKSIG)]),
        23 => p.push((22, rs::OP_EQUAL)),
        35 => p.push((34, rs::OP_CHECKSIG)),
        _ => {}
    }
    // by head: template-shaped scripts of every other length
    if l >= 3 && p.is_empty() {
        match b0 {
            rs::OP_DUP => {
                p.push((2, 20));
                if l >= 5 {
                    p.push((l - 2, rs::OP_EQUALVERIFY));
                    p.push((l - 1, rs::OP_CHECKSIG));
                }
            }
            rs::OP_HASH160 => p.push((l - 1, rs::OP_EQUAL)),
            33 | 65 => p.push((l - 1, rs::OP_CHECKSIG)),
            _ => {}
        }
    }
    p
}

const MAX_L: u64 = 45;

/// index = L * 256 + b0; inner loop over every second byte and the variants
fn templates_exhaustive(idx: u64, seed: u64, ctx: &mut Ctx) -> R {
    let l = (idx / 256) as usize;
    let b0 = (idx % 256) as u8;
    let mut loc = Local::default();
    let r = templates_index(l, b0, idx, seed, ctx, &mut loc);
    // every template must really be hit at the index that contains it (harness sanity)
    if r.is_ok() {
        let need = match (l, b0) {
            (25, rs::OP_DUP) => Some("exact:p2pkh"),
            (23, rs::OP_HASH160) => Some("exact:p2sh"),
            (35, 33) => Some("exact:p2pk"),
            (22, 0) => Some("exact:v0_p2wpkh"),
            (34, 0) => Some("exact:v0_p2wsh"),
            (34, rs::OP_1) => Some("exact:v1_p2tr"),
            (4, rs::OP_16) | (42, rs::OP_16) => Some("exact:v1plus-witness-program"),
            _ => None,
        };
        if let Some(k) = need {
            assert!(loc.classes.get(k).copied().unwrap_or(0) > 0, "harness: enumeration index ({}, {:#x}) did not hit {}", l, b0, k);
        }
    }
    loc.flush(ctx);
    r
}

fn templates_index(l: usize, b0: u8, idx: u64, seed: u64, ctx: &mut Ctx, loc: &mut Local) -> R {
    if l == 0 {
        // one script only
        if b0 == 0 {
            check_script(&[], 0, ctx, loc)?;
        }
        return Ok(());
    }
    if l == 1 {
        return check_script(&[b0], b0 as usize, ctx, loc);
    }
    let fill = seeded_bytes(seed, idx, 256 + 48);
    let patch = template_patch(l, b0);
    let mut s = vec![0u8; l];
    s[0] = b0;
    for b1 in 0..=255usize {
        // variant A: filler tail
        s[1] = b1 as u8;
        s[2..].copy_from_slice(&fill[b1 + 2..b1 + l]);
        let rot = b1 + idx as usize;
        check_script(&s, rot, ctx, loc)?;
        if l < 3 {
            continue;
        }
        // variant B: the tail a template of this shape requires
        let mut changed = false;
        for &(i, v) in &patch {
            if i >= 2 && s[i] != v {
                s[i] = v;
                changed = true;
            }
        }
        if changed {
            check_script(&s, rot + 1, ctx, loc)?;
        }
        // variant C: one tail byte of B perturbed (a fixed position when there is one)
        let tail_fixed: Vec<usize> = patch.iter().map(|x| x.0).filter(|i| *i >= 2).collect();
        let pos = if tail_fixed.is_empty() { 2 + (fill[b1] as usize) % (l - 2) } else { tail_fixed[b1 % tail_fixed.len()] };
        let x = fill[b1 + 1] | u8::from(fill[b1 + 1] == 0);
        s[pos] ^= x;
        check_script(&s, rot + 2, ctx, loc)?;
    }
    // the p2pkh push-length byte is the third byte: every value of it, under a correct head and tail
    if b0 == rs::OP_DUP && l >= 5 {
        for x in 0..=255usize {
            s[1] = rs::OP_HASH160;
            s[2] = x as u8;
            s[3..].copy_from_slice(&fill[x + 3..x + l]);
            s[l - 2] = rs::OP_EQUALVERIFY;
            s[l - 1] = rs::OP_CHECKSIG;
            check_script(&s, x + idx as usize, ctx, loc)?;
            loc.class("family:p2pkh-third-byte");
        }
    }
    Ok(())
}

/// (template, script length, fixed position, class label): every byte a fixed-length template of the
/// statement pins (the witness-program forms are pinned by (length, first byte, second byte) only and
/// are complete in `templates_exhaustive`)
const FIXED_BYTES: [(&str, usize, usize, &str); 8] = [
    ("p2pkh", 25, 0, "family:fixed-byte:p2pkh[0]=OP_DUP"),
    ("p2pkh", 25, 1, "family:fixed-byte:p2pkh[1]=OP_HASH160"),
    ("p2pkh", 25, 2, "family:fixed-byte:p2pkh[2]=push-20"),
    ("p2pkh", 25, 23, "family:fixed-byte:p2pkh[23]=OP_EQUALVERIFY"),
    ("p2pkh", 25, 24, "family:fixed-byte:p2pkh[24]=OP_CHECKSIG"),
    ("p2sh", 23, 0, "family:fixed-byte:p2sh[0]=OP_HASH160"),
    ("p2sh", 23, 1, "family:fixed-byte:p2sh[1]=push-20"),
    ("p2sh", 23, 22, "family:fixed-byte:p2sh[22]=OP_EQUAL"),
];
/// hash fillers per (template, position): zero, ff, six seeded
const FIXED_FILLS: u64 = 8;

/// index = (template, fixed position) * FIXED_FILLS + filler; enumerates all 255 wrong values of that
/// one byte with every other byte of the template exact (and the exact template itself)
fn template_fixed_bytes(idx: u64, seed: u64, ctx: &mut Ctx) -> R {
    let (name, len, pos, label) = FIXED_BYTES[(idx / FIXED_FILLS) as usize % FIXED_BYTES.len()];
    let hash: Vec<u8> = match idx % FIXED_FILLS {
        0 => vec![0u8; 20],
        1 => vec![0xff; 20],
        _ => seeded_bytes(seed, idx ^ 0xf1_bed0, 20),
    };
    let mut s: Vec<u8> = Vec::with_capacity(len);
    if name == "p2pkh" {
        s.extend_from_slice(&[rs::OP_DUP, rs::OP_HASH160, 20]);
        s.extend_from_slice(&hash);
        s.extend_from_slice(&[rs::OP_EQUALVERIFY, rs::OP_CHECKSIG]);
    } else {
        s.extend_from_slice(&[rs::OP_HASH160, 20]);
        s.extend_from_slice(&hash);
        s.push(rs::OP_EQUAL);
    }
    assert!(s.len() == len && rs::address_kind(&s).is_some(), "harness: fixed-byte family base is not a {}", name);
    let mut loc = Local::default();
    let exact = s[pos];
    let mut r = check_script(&s, idx as usize, ctx, &mut loc);
    for v in 0..=255u8 {
        if r.is_err() {
            break;
        }
        if v == exact {
            continue;
        }
        s[pos] = v;
        // one wrong fixed byte: by the model never the template, never an address of that kind
        assert!(!(rs::is_p2pkh(&s) || rs::is_p2sh(&s)), "harness: {} with byte {} = {:#04x} still is a template", name, pos, v);
        r = check_script(&s, idx as usize + v as usize, ctx, &mut loc);
        loc.class(label);
    }
    loc.flush(ctx);
    r
}

fn template_perturbations(t: &mut Tape, ctx: &mut Ctx) -> R {
    let mut loc = Local::default();
    let kind = t.below(9);
    let mut s: Vec<u8> = match kind {
        0 | 1 => {
            // witness program, every version and every program length 0..=42
            let v = t.below(17) as u8;
            let n = t.below(43);
            let mut s = vec![if v == 0 { 0 } else { 0x50 + v }, n as u8];
            s.extend_from_slice(&t.bytes(n));
            loc.class("base:witness-program-any-length");
            s
        }
        2 => {
            let mut s = vec![0x76, 0xa9, 0x14];
            s.extend_from_slice(&t.arr20());
            s.extend_from_slice(&[0x88, 0xac]);
            loc.class("base:p2pkh");
            s
        }
        3 => {
            let mut s = vec![0xa9, 0x14];
            s.extend_from_slice(&t.arr20());
            s.push(0x87);
            loc.class("base:p2sh");
            s
        }
        4 => {
            let keys = &pool().pubkeys;
            let k = keys[t.below(keys.len())];
            let mut s = Vec::new();
            if t.bool() {
                s.push(65);
                s.extend_from_slice(&k.serialize_uncompressed());
            } else {
                s.push(33);
                s.extend_from_slice(&k.serialize());
            }
            s.push(0xac);
            loc.class("base:p2pk");
            s
        }
        5 => {
            let (v, n) = t.choose(&[(0u8, 20usize), (0, 32), (0x51, 32), (0x51, 20), (0x60, 40), (0x60, 2)]);
            let mut s = vec![v, n as u8];
            s.extend_from_slice(&t.bytes(n));
            loc.class("base:witness-special");
            s
        }
        6 => {
            let n = t.below(40);
            let mut s = vec![0x6a];
            s.extend_from_slice(&t.bytes(n));
            if t.chance(64) {
                s.insert(0, t.u8());
            }
            loc.class("base:op_return");
            s
        }
        7 => {
            let n = t.choose(&[10_000usize, 10_001, 9_999, 10_002]);
            let mut s = t.filler(n);
            s[0] = t.choose(&[0x51u8, 0x6a, 0x00, 0x76]);
            loc.class("base:around-max-script-size");
            s
        }
        _ => {
            let n = t.below(46);
            loc.class("base:random");
            t.bytes(n)
        }
    };
    let m = t.below(9);
    let mlabel = match m {
        0 => "mutation:none",
        1 if !s.is_empty() => {
            let i = t.below(s.len());
            s[i] ^= 1 + t.below(255) as u8;
            "mutation:substitute-one-byte"
        }
        2 if !s.is_empty() => {
            s.pop();
            "mutation:drop-last"
        }
        3 if !s.is_empty() => {
            s.remove(0);
            "mutation:drop-first"
        }
        4 => {
            s.push(t.u8());
            "mutation:append"
        }
        5 => {
            s.insert(0, t.u8());
            "mutation:prepend"
        }
        6 if s.len() >= 3 => {
            let i = 1 + t.below(s.len() - 1);
            if t.bool() {
                s.remove(i);
                "mutation:remove-inner"
            } else {
                s.insert(i, t.u8());
                "mutation:insert-inner"
            }
        }
        7 if s.len() >= 2 && (rs::OP_1..=rs::OP_16).contains(&s[0]) => {
            // non-minimal version: the number pushed as data
            let v = s[0] - 0x50;
            drop(s.splice(0..1, [1u8, v]));
            "mutation:version-as-data-push"
        }
        8 if s.len() >= 2 && s[1] <= 75 => {
            // program pushed with PUSHDATA1
            s.insert(1, rs::OP_PUSHDATA1);
            "mutation:program-via-pushdata1"
        }
        _ => "mutation:none",
    };
    loc.class(mlabel);
    let rot = t.below(36);
    let r = check_script(&s, rot, ctx, &mut loc);
    loc.flush(ctx);
    r
}

// ---------------------------------------------------------------------------------------------
// builder programs

fn gen_int(t: &mut Tape) -> i64 {
    let sign = |t: &mut Tape, m: i128| if t.bool() { -m } else { m };
    let v: i128 = match t.below(7) {
        0 => {
            // 0, -1, 1, -2, 2, ... +-20
            let k = t.below(42) as i128;
            if k % 2 == 0 {
                k / 2
            } else {
                -(k / 2 + 1)
            }
        }
        1 => {
            let k = t.choose(&[7u32, 8, 15, 16, 23, 24, 31, 32, 39, 40, 47, 48, 55, 56, 63]);
            let d = t.below(5) as i128 - 2;
            sign(t, (1i128 << k) + d)
        }
        2 => {
            let k = t.below(64) as u32;
            sign(t, (1i128 << k) - 1)
        }
        3 => {
            let k = t.below(64) as u32;
            sign(t, 1i128 << k)
        }
        4 => {
            let w = 1 + t.below(8) as u32;
            let m = (t.u64() >> (64 - 8 * w)) as i128;
            sign(t, m)
        }
        5 => t.choose(&[i64::MAX, i64::MIN + 1, 0x7fff_ffff, -0x7fff_ffff, 0x8000_0000, -0x8000_0000, 16, 17, -16, -17]) as i128,
        _ => (t.u64() as i64) as i128,
    };
    v.clamp(i64::MIN as i128 + 1, i64::MAX as i128) as i64
}

fn gen_slice(t: &mut Tape, big_left: &mut u32) -> Vec<u8> {
    match t.below(9) {
        8 => {
            // data whose last byte looks like an opcode with a VERIFY form (what a push_verify that
            // trusts the last *byte* instead of the last *instruction* would fold)
            let n = t.below(4);
            let mut d = t.bytes(n);
            d.push(t.choose(&[0x87u8, 0x9c, 0xac, 0xae, 0xc1]));
            d
        }
        0 => {
            let n = t.below(6);
            t.bytes(n)
        }
        1 => vec![t.choose(&[0u8, 1, 2, 15, 16, 17, 0x4f, 0x50, 0x51, 0x60, 0x7f, 0x80, 0x81, 0x82, 0xff])],
        2 => {
            let n = t.choose(&[75usize, 76, 74, 77]);
            t.filler(n)
        }
        3 => {
            let n = t.below(81);
            t.bytes(n)
        }
        4 => {
            let n = t.choose(&[255usize, 256, 254, 257]);
            t.filler(n)
        }
        5 => {
            if *big_left > 0 && t.chance(96) {
                *big_left -= 1;
                // the 65535/65536 boundary, and lengths whose PUSHDATA2 / PUSHDATA4 length bytes are
                // all different (high byte of PUSHDATA2 in 0x03..0xff, second and third byte of PUSHDATA4)
                let n = t.choose(&[
                    65535usize, 65536, 65537, 65534, 0x1234, 0x7fff, 0x8000, 0x8001, 0xff00, 0x1_0100, 0x1_2345, 0x2_0000, 0xfeff, 0x3_0201,
                ]);
                t.filler(n)
            } else if t.chance(64) {
                let n = t.choose(&[0x0300usize, 0x02ff, 0x0301, 0x01ff, 0x0200, 0x0201, 0x0400, 0x07ff, 0x0800, 0x0fff, 0x1000]);
                t.filler(n)
            } else {
                let n = t.below(700);
                t.filler(n)
            }
        }
        6 => {
            let n = t.choose(&[20usize, 32, 33, 65]);
            t.bytes(n)
        }
        _ => {
            let n = t.below(300);
            t.filler(n)
        }
    }
}

fn gen_opcode(t: &mut Tape) -> u8 {
    match t.below(3) {
        0 => t.choose(&[
            0x87u8, 0x9c, 0xac, 0xae, 0xc1, 0x88, 0x9d, 0xad, 0xaf, 0xc2, 0x69, 0x00, 0x51, 0x60, 0x4f, 0x6a, 0x76, 0xa9, 0x86, 0x9b, 0xab,
            0xc0, 0xba,
        ]),
        1 => 0x4f + t.below(0xb1) as u8,
        _ => t.choose(&[0x87u8, 0x9c, 0xac, 0xae, 0xc1]),
    }
}

fn len_class(n: usize) -> &'static str {
    match n {
        0 => "push-len:0",
        1 => "push-len:1",
        2..=74 => "push-len:2..74",
        75 => "push-len:75",
        76 => "push-len:76",
        77..=254 => "push-len:77..254",
        255 => "push-len:255",
        256 => "push-len:256",
        257..=767 => "push-len:257..767",
        768..=65279 => "push-len:768..65279(pushdata2-high-byte-3..254)",
        65280..=65534 => "push-len:65280..65534",
        65535 => "push-len:65535",
        65536 => "push-len:65536",
        65537..=65791 => "push-len:65537..65791",
        65792..=0xff_ffff => "push-len:65792..2^24-1(pushdata4-second/third-byte-nonzero)",
        _ => "push-len:>=2^24(pushdata4-top-byte-nonzero)",
    }
}
fn boundary_len(n: usize) -> bool {
    matches!(n, 75 | 76 | 255 | 256 | 65535 | 65536)
}

fn lib_ins(r: Result<Instruction<'_>, ScriptError>) -> Result<Ins, ScriptError> {
    match r {
        Ok(Instruction::PushBytes(d)) => Ok(Ins::Push(d.to_vec())),
        Ok(Instruction::Op(o)) => Ok(Ins::Op(o.into_u8())),
        Err(e) => Err(e),
    }
}
fn show_ins(v: &[Result<Ins, ScriptError>]) -> String {
    let mut s = String::new();
    for (i, x) in v.iter().enumerate() {
        if i >= 30 {
            s.push_str(" ...");
            break;
        }
        match x {
            Ok(Ins::Op(o)) => s.push_str(&format!(" op{:02x}", o)),
            Ok(Ins::Push(d)) if d.len() <= 10 => s.push_str(&format!(" <{}>", hex(d))),
            Ok(Ins::Push(d)) => s.push_str(&format!(" <{} bytes>", d.len())),
            Err(e) => s.push_str(&format!(" Err({:?})", e)),
        }
    }
    s
}
fn show_op(op: &BOp) -> String {
    match op {
        BOp::Opcode(c) => format!("push_opcode({:#04x})", c),
        BOp::Int(n) => format!("push_int({})", n),
        BOp::ScriptInt(n) => format!("push_scriptint({})", n),
        BOp::Slice(d) if d.len() <= 8 => format!("push_slice({})", hex(d)),
        BOp::Slice(d) => format!("push_slice(<{} bytes>)", d.len()),
        BOp::Key { compressed, .. } => format!("push_key(compressed={})", compressed),
        BOp::Verify => "push_verify()".into(),
    }
}
/// One builder program: the operations, where the builder starts, and (optionally) a point at
/// which the builder is turned into a script and resumed from its bytes with `Builder::from(Vec<u8>)`
struct Prog {
    ops: Vec<BOp>,
    keys: Vec<Option<BtcKey>>,
    /// start from `Builder::default()` instead of `Builder::new()`
    start_default: bool,
    /// `Some(k)`: before operation k (k == ops.len(): after the last one) the builder is replaced by
    /// `Builder::from(builder.into_script().into_bytes())`
    split: Option<usize>,
}

fn show_prog(p: &Prog) -> String {
    let mut s = String::from(if p.start_default { "Builder::default()" } else { "Builder::new()" });
    for (i, op) in p.ops.iter().enumerate() {
        if p.split == Some(i) {
            s.push_str(" => Builder::from(the script bytes so far)");
        }
        s.push('.');
        s.push_str(&show_op(op));
    }
    if p.split == Some(p.ops.len()) {
        s.push_str(" => Builder::from(the script bytes so far)");
    }
    s
}

/// model of `first ++ second` built by two builders that share nothing but the bytes
fn concat_built(a: rs::Built, b: rs::Built) -> rs::Built {
    let (nb, ni) = (a.bytes.len(), a.ins.len());
    let mut out = a;
    out.bytes.extend_from_slice(&b.bytes);
    out.ins.extend(b.ins);
    out.steps.extend(b.steps.into_iter().map(|st| rs::Step { len_after: st.len_after + nb, ins_index: st.ins_index + ni, verify: st.verify }));
    if out.first_nonminimal.is_none() {
        out.first_nonminimal = b.first_nonminimal.map(|k| k + ni);
    }
    out
}

fn gen_prog(t: &mut Tape) -> Prog {
    let nops = t.below(25);
    let mut ops: Vec<BOp> = Vec::with_capacity(nops + 1);
    let mut keys: Vec<Option<BtcKey>> = Vec::with_capacity(nops + 1);
    let mut big_left = 2u32;
    while ops.len() < nops {
        let (op, key) = match t.below(11) {
            0 | 1 => (BOp::Opcode(gen_opcode(t)), None),
            2 => (BOp::Int(gen_int(t)), None),
            3 => (BOp::ScriptInt(gen_int(t)), None),
            4 | 5 => (BOp::Slice(gen_slice(t, &mut big_left)), None),
            6 => {
                let pk = pool().pubkeys[t.below(pool().pubkeys.len())];
                let compressed = !t.bool();
                let ser = if compressed { pk.serialize().to_vec() } else { pk.serialize_uncompressed().to_vec() };
                (BOp::Key { compressed, ser }, Some(BtcKey { compressed, inner: pk }))
            }
            7 | 8 => (BOp::Verify, None),
            _ => {
                // an opcode with a VERIFY form directly followed by push_verify
                ops.push(BOp::Opcode(t.choose(&[0x87u8, 0x9c, 0xac, 0xae, 0xc1])));
                keys.push(None);
                (BOp::Verify, None)
            }
        };
        ops.push(op);
        keys.push(key);
    }
    // drawn after the operations: where the builder starts and whether / where it is resumed from bytes
    let start_default = t.chance(32);
    let split = match t.below(8) {
        0..=4 => None,
        5 | 6 => Some(t.below(ops.len() + 1)),
        _ => {
            // right before a push_verify (the operation that reads the remembered opcode), if there is one
            let verifies: Vec<usize> = (0..ops.len()).filter(|&i| ops[i] == BOp::Verify).collect();
            if verifies.is_empty() {
                Some(t.below(ops.len() + 1))
            } else {
                Some(verifies[t.below(verifies.len())])
            }
        }
    };
    Prog { ops, keys, start_default, split }
}

fn builder_programs(t: &mut Tape, ctx: &mut Ctx) -> R {
    let prog = gen_prog(t);
    check_prog(&prog, ctx)
}

fn check_prog(prog: &Prog, ctx: &mut Ctx) -> R {
    let ops = &prog.ops;
    let keys = &prog.keys;
    let (start_default, split) = (prog.start_default, prog.split);
    let primary = rs::build(ops);
    let total = primary.bytes.len();

    // the library
    let (script, lens, empties) = guard::guard("Builder", total, || {
        let mut b = if start_default { Builder::default() } else { Builder::new() };
        let mut lens = Vec::with_capacity(ops.len());
        let mut empties = Vec::with_capacity(ops.len());
        for (i, (op, key)) in ops.iter().zip(keys).enumerate() {
            if split == Some(i) {
                b = Builder::from(b.into_script().into_bytes());
            }
            b = match (op, key) {
                (BOp::Opcode(c), _) => b.push_opcode(All::from(*c)),
                (BOp::Int(n), _) => b.push_int(*n),
                (BOp::ScriptInt(n), _) => b.push_scriptint(*n),
                (BOp::Slice(d), _) => b.push_slice(d),
                (BOp::Key { .. }, Some(k)) => b.push_key(k),
                (BOp::Key { ser, .. }, None) => b.push_slice(ser),
                (BOp::Verify, _) => b.push_verify(),
            };
            lens.push(b.len());
            empties.push(b.is_empty());
        }
        if split == Some(ops.len()) {
            b = Builder::from(b.into_script().into_bytes());
        }
        (b.into_script(), lens, empties)
    })?;
    ctx.eval();
    let bytes = script.as_bytes();

    // A builder resumed from bytes: the model is the same as for an uninterrupted builder (the
    // remembered opcode is the last *instruction* of the prefix when that is an opcode; for OP_0,
    // which decodes as a push, the difference is invisible because OP_0 has no VERIFY form), with
    // one liberty: a push_verify directly after the resumption, when the prefix ends in an opcode
    // that has a VERIFY form, may either replace that opcode (it is the last opcode of the script)
    // or append OP_VERIFY (the resumed builder itself added no opcode yet) - both scripts iterate
    // to what was added. Anything else (in particular touching the bytes of a data push) fails.
    let mut model = primary;
    ctx.class(if start_default { "start:Builder::default" } else { "start:Builder::new" });
    match split {
        None => ctx.class("resume:none"),
        Some(k) => {
            ctx.class("resume:Builder::from(prefix-bytes)");
            let prefix_end = if k == 0 { 0 } else { model.steps[k - 1].len_after };
            let last_ins_is_push = k > 0 && prefix_end > 0 && matches!(model.ins.get(model.steps[k - 1].ins_index), Some(Ins::Push(_)));
            let last_byte_foldable = prefix_end > 0 && rs::verify_form(model.bytes[prefix_end - 1]).is_some();
            let next_is_verify = ops.get(k) == Some(&BOp::Verify);
            // (the model's bytes already hold the VERIFY form where a fold happened)
            let at_foldable_opcode = next_is_verify && matches!(model.steps[k].verify, Some(VerifyCtx::Folded(_)));
            ctx.class(match (k == ops.len(), next_is_verify, prefix_end == 0, last_ins_is_push, last_byte_foldable || at_foldable_opcode) {
                (true, ..) => "resume:after-the-last-operation",
                (_, false, ..) => "resume:then-other-operation",
                (_, true, true, ..) => "resume:then-push_verify:empty-prefix",
                (_, true, _, true, true) => "resume:then-push_verify:prefix-ends-in-data-with-foldable-last-byte",
                (_, true, _, true, false) => "resume:then-push_verify:prefix-ends-in-other-data",
                (_, true, _, false, true) => "resume:then-push_verify:prefix-ends-in-foldable-opcode",
                (_, true, _, false, false) => "resume:then-push_verify:prefix-ends-in-other-opcode",
            });
            if next_is_verify {
                if let Some(VerifyCtx::Folded(o)) = model.steps[k].verify {
                    let mut second = rs::build(&ops[k..]);
                    if let Some(st) = second.steps.first_mut() {
                        st.verify = Some(VerifyCtx::AfterOtherOp(o));
                    }
                    let alt = concat_built(rs::build(&ops[..k]), second);
                    if bytes == &alt.bytes[..] && bytes != &model.bytes[..] {
                        model = alt;
                        ctx.class("resume:push_verify-at-foldable-opcode:appended-OP_VERIFY");
                    } else {
                        ctx.class("resume:push_verify-at-foldable-opcode:folded");
                    }
                }
            }
        }
    }
    let model = model;
    let show_ops = |_: &[BOp]| show_prog(prog);
    if bytes != &model.bytes[..] {
        let at = bytes.iter().zip(&model.bytes).position(|(a, b)| a != b).unwrap_or(bytes.len().min(total));
        let lo = at.saturating_sub(6);
        fail!(
            "script built by {} differs from the expected bytes at offset {}: got ..{} ({} bytes), expected ..{} ({} bytes)",
            show_ops(&ops),
            at,
            hex(&bytes[lo.min(bytes.len())..(at + 8).min(bytes.len())]),
            bytes.len(),
            hex(&model.bytes[lo.min(total)..(at + 8).min(total)]),
            total
        );
    }
    for (i, st) in model.steps.iter().enumerate() {
        ensure_eq!(lens[i], st.len_after, "Builder::len after operation {} of {}", i, show_ops(&ops));
        ensure!(empties[i] == (st.len_after == 0), "Builder::is_empty after operation {} of {}", i, show_ops(&ops));
    }

    // instructions(): exactly what was added
    let cap = model.ins.len() + 4;
    let got: Vec<Result<Ins, ScriptError>> = guard::guard("Script::instructions", total, || script.instructions().take(cap).map(lib_ins).collect())?;
    let want: Vec<Result<Ins, ScriptError>> = model.ins.iter().cloned().map(Ok).collect();
    ctx.eval();
    ensure!(
        got == want,
        "instructions() of the script built by {} yields{} but{} was added",
        show_ops(&ops),
        show_ins(&got),
        show_ins(&want)
    );

    // every push uses the shortest header for its length (independent decoder over the library's bytes)
    match rs::parse(bytes) {
        Ok(items) => {
            ensure!(items.len() == model.ins.len(), "built script {} does not decode into the added items", hex_clip(bytes));
            for (k, (ins, hdr)) in items.iter().enumerate() {
                ensure!(ins == &model.ins[k], "item {} of built script {} is not the item added by {}", k, hex_clip(bytes), show_ops(&ops));
                if let Ins::Push(d) = ins {
                    ensure!(
                        *hdr == rs::shortest_header_len(d.len()),
                        "push of {} bytes uses a {}-byte header (shortest is {}) in the script built by {}",
                        d.len(),
                        hdr,
                        rs::shortest_header_len(d.len()),
                        show_ops(&ops)
                    );
                }
            }
        }
        Err((_, e)) => fail!("built script {} does not decode: {:?} (operations {})", hex_clip(bytes), e, show_ops(&ops)),
    }
    ctx.eval();

    // instructions_minimal(): every builder push has the shortest header, so the only pushes a
    // minimality-enforcing iterator may object to are one-byte data pushes of a number that has
    // its own opcode (1..16, 0x81; BIP 62 rule 3). The statement does not say that the iterator
    // must reject them, nor how: accepted are the complete list, or the list up to such a push
    // followed by an error of any kind. Not accepted: an Ok item that differs from what was added,
    // an error anywhere else, a list that ends early without an error.
    let got_min: Vec<Result<Ins, ScriptError>> =
        guard::guard("Script::instructions_minimal", total, || script.instructions_minimal().take(cap).map(lib_ins).collect())?;
    ctx.eval();
    let mut stopped_at: Option<usize> = None;
    for (j, g) in got_min.iter().enumerate() {
        match g {
            Ok(item) => ensure!(
                model.ins.get(j) == Some(item),
                "instructions_minimal() of the script built by {} yields{} but{} was added (item {} differs)",
                show_ops(&ops),
                show_ins(&got_min),
                show_ins(&want),
                j
            ),
            Err(e) => {
                let objectionable = matches!(model.ins.get(j), Some(Ins::Push(d)) if rs::is_small_int_byte(d));
                ensure!(
                    objectionable,
                    "instructions_minimal() of the script built by {} fails with {:?} at item {} of{} although that item is {}",
                    show_ops(&ops),
                    e,
                    j,
                    show_ins(&want),
                    if j < model.ins.len() { "encoded minimally" } else { "past the end of what was added" }
                );
                stopped_at = Some(j);
                break;
            }
        }
    }
    match (stopped_at, model.first_nonminimal) {
        (None, fnm) => {
            ensure!(
                got_min.len() == model.ins.len(),
                "instructions_minimal() of the script built by {} yields only{} of{}, without an error",
                show_ops(&ops),
                show_ins(&got_min),
                show_ins(&want)
            );
            ctx.class(if fnm.is_none() { "minimal:accepted" } else { "minimal:small-int-data-push-tolerated" });
        }
        (Some(j), fnm) => ctx.class(if Some(j) == fnm { "minimal:rejected-at-first-small-int-data-push" } else { "minimal:rejected-at-later-small-int-data-push" }),
    }

    // numbers read back
    let mut sig: Vec<(u8, u64)> = Vec::with_capacity(ops.len());
    let mut nontrivial = false;
    for (i, op) in ops.iter().enumerate() {
        let st = &model.steps[i];
        let item = &model.ins[st.ins_index];
        match op {
            BOp::Int(n) | BOp::ScriptInt(n) => {
                let is_int = matches!(op, BOp::Int(_));
                match item {
                    Ins::Push(d) => {
                        // the bytes as the library's iterator returned them
                        let lib_d = match &got[st.ins_index] {
                            Ok(Ins::Push(x)) => x.clone(),
                            _ => d.clone(),
                        };
                        let r = guard::guard("read_scriptint", lib_d.len(), || read_scriptint(&lib_d))?;
                        ctx.eval();
                        if d.len() <= 4 {
                            ensure!(r == Ok(*n), "{} pushed {} which read_scriptint reads as {:?}", show_op(op), hex(&lib_d), r);
                        } else {
                            // wider than the 4 bytes script arithmetic reads: the statement does not say
                            // that reading must fail, nor how; it must not read back a *different* value
                            ensure!(
                                !matches!(r, Ok(v) if v != *n),
                                "{} pushed the {}-byte number {} which read_scriptint reads as {:?}",
                                show_op(op),
                                d.len(),
                                hex(&lib_d),
                                r
                            );
                        }
                        ctx.class(match (is_int, d.len()) {
                            (true, 0) => "int:OP_0",
                            (true, 1..=4) => "int:data-1..4-bytes",
                            (true, _) => "int:data-5..9-bytes(read:error-or-same-value)",
                            (false, 0) => "scriptint:empty",
                            (false, 1) if rs::is_small_int_byte(d) => "scriptint:small-int-as-data",
                            (false, 1..=4) => "scriptint:data-1..4-bytes",
                            (false, _) => "scriptint:data-5..9-bytes(read:error-or-same-value)",
                        });
                        sig.push((if is_int { 2 } else { 3 }, d.len() as u64 * 2 + u64::from(*n < 0)));
                    }
                    Ins::Op(c) => {
                        // dedicated opcode: its class states the number
                        let c = *c;
                        let cls = guard::guard("opcodes::All::classify", 1, || All::from(c).classify(ClassifyContext::Legacy))?;
                        ctx.eval();
                        ensure!(
                            cls == Class::PushNum(*n as i32),
                            "{} gave opcode {:#04x} whose class is {:?}, not PushNum({})",
                            show_op(op),
                            c,
                            cls,
                            n
                        );
                        ctx.class("int:OP_1NEGATE/OP_1..OP_16");
                        sig.push((2, 100 + u64::from(c)));
                    }
                }
            }
            BOp::Slice(d) => {
                // a slice that is the script-number encoding of v is the same push as push_scriptint(v)
                // and must read back as v; how other byte strings (non-minimal encodings such as 00, 80,
                // 0100, or more than 4 bytes) are read is outside the statement
                if let Some(v) = rs::scriptnum_decode(d).filter(|v| rs::scriptnum_encode(*v) == *d) {
                    let r = guard::guard("read_scriptint", d.len(), || read_scriptint(d))?;
                    ctx.eval();
                    ensure!(r == Ok(v), "read_scriptint({}) = {:?}; these bytes are the script number {}", hex(d), r, v);
                    ctx.class("slice:canonical-script-number");
                }
                ctx.class(len_class(d.len()));
                if boundary_len(d.len()) {
                    nontrivial = true;
                    ctx.class("nontrivial:push-at-size-boundary");
                }
                sig.push((4, d.len() as u64));
            }
            BOp::Key { compressed, ser } => {
                ensure!(
                    ser.len() == if *compressed { 33 } else { 65 },
                    "harness: key serialization of {} bytes",
                    ser.len()
                );
                ctx.class(if *compressed { "key:compressed" } else { "key:uncompressed" });
                sig.push((5, u64::from(*compressed)));
            }
            BOp::Opcode(c) => {
                ctx.class(if rs::verify_form(*c).is_some() {
                    "opcode:has-verify-form"
                } else if *c == 0 {
                    "opcode:OP_0"
                } else {
                    "opcode:other"
                });
                sig.push((1, u64::from(*c)));
            }
            BOp::Verify => {
                match st.verify {
                    Some(VerifyCtx::Folded(o)) => {
                        nontrivial = true;
                        ctx.class(match o {
                            rs::OP_EQUAL => "verify:folds:OP_EQUAL",
                            rs::OP_NUMEQUAL => "verify:folds:OP_NUMEQUAL",
                            rs::OP_CHECKSIG => "verify:folds:OP_CHECKSIG",
                            rs::OP_CHECKMULTISIG => "verify:folds:OP_CHECKMULTISIG",
                            _ => "verify:folds:OP_CHECKSIGFROMSTACK",
                        });
                        sig.push((6, u64::from(o)));
                    }
                    Some(VerifyCtx::AtStart) => {
                        ctx.class("verify:appended:at-script-start");
                        sig.push((6, 1));
                    }
                    Some(VerifyCtx::AfterData) => {
                        // data ending in a byte that looks like a foldable opcode is the interesting case
                        let looks = model.bytes.get(st.len_after.wrapping_sub(2)).map_or(false, |b| rs::verify_form(*b).is_some());
                        ctx.class(if looks { "verify:appended:after-data-ending-in-foldable-byte" } else { "verify:appended:after-data" });
                        sig.push((6, 2 + u64::from(looks)));
                    }
                    Some(VerifyCtx::AfterOtherOp(o)) => {
                        ctx.class(match o {
                            rs::OP_VERIFY => "verify:appended:after-OP_VERIFY",
                            rs::OP_EQUALVERIFY | rs::OP_NUMEQUALVERIFY | rs::OP_CHECKSIGVERIFY | rs::OP_CHECKMULTISIGVERIFY
                            | rs::OP_CHECKSIGFROMSTACKVERIFY => "verify:appended:after-a-VERIFY-form",
                            _ => "verify:appended:after-other-opcode",
                        });
                        sig.push((6, 1000 + u64::from(o)));
                    }
                    None => fail!("harness: model recorded no verify context"),
                }
            }
        }
    }
    // boundary pushes also come from push_key / numbers? (33/65 and <= 9 bytes: never a boundary)
    let resumed_verify = split.map_or(false, |k| ops.get(k) == Some(&BOp::Verify));
    if resumed_verify {
        // a push_verify whose remembered opcode comes from Builder::from's reading of the prefix
        nontrivial = true;
        sig.push((7, split.unwrap_or(0) as u64));
    }
    if nontrivial {
        ctx.nontrivial(&sig);
        let label = if resumed_verify {
            "builder:resumed-from-bytes-then-push_verify"
        } else if model.steps.iter().any(|s| matches!(s.verify, Some(VerifyCtx::Folded(_)))) {
            "builder:fold"
        } else {
            "builder:boundary-push"
        };
        if ctx.wants_sample(label) {
            ctx.sample(label, || json!({"operations": show_ops(&ops), "script": hex_clip(bytes), "items": show_ins(&want)}));
        }
    }
    Ok(())
}

/// the model against literal vectors; a failure here is a harness error, not a violation
fn anchors(_idx: u64, _seed: u64, ctx: &mut Ctx) -> R {
    if let Err(e) = rs::self_test() {
        panic!("harness: script model self-test failed: {}", e);
    }
    ctx.eval();
    ctx.class("model-self-test");
    Ok(())
}

/// push lengths whose PUSHDATA2 / PUSHDATA4 length bytes are pairwise different and non-zero in every
/// position (the last one is the smallest family member with a non-zero top byte: 16 MiB + 0x0304)
const LONG_PUSHES: [usize; 8] = [0x0102, 0x1234, 0x8001, 0xfe7f, 0x01_0203, 0x03_8081, 0x02_0100, 0x0100_0304];

/// index -> one fixed program around a long push: foldable opcode, the push, push_verify (must
/// append), a foldable opcode, push_verify (must fold); odd indices resume from bytes after the push
fn long_pushes(idx: u64, _seed: u64, ctx: &mut Ctx) -> R {
    // (the 16 MiB push only in its uninterrupted form: indices 0..=14)
    let n = LONG_PUSHES[(idx / 2) as usize % LONG_PUSHES.len()];
    // data ends in a byte that looks like OP_EQUAL
    let mut data: Vec<u8> = (0..n).map(|i| (i as u8).wrapping_mul(37).wrapping_add((i >> 8) as u8)).collect();
    if let Some(l) = data.last_mut() {
        *l = rs::OP_EQUAL;
    }
    let ops = vec![BOp::Opcode(rs::OP_CHECKSIG), BOp::Slice(data), BOp::Verify, BOp::Int(n as i64), BOp::Opcode(rs::OP_NUMEQUAL), BOp::Verify];
    let keys = vec![None; ops.len()];
    let prog = Prog { ops, keys, start_default: false, split: if idx % 2 == 1 { Some(2) } else { None } };
    ctx.class("long-push:fixed-program");
    check_prog(&prog, ctx)
}

fn repro_short_program() -> bool {
    let s = Script::from(vec![0x51, 0x00]);
    match Address::from_script(&s, None, &AddressParams::ELEMENTS) {
        Some(a) => Address::from_str(&a.to_string()).is_err(),
        None => false,
    }
}

pub fn property() -> Property {
    Property {
        id: "C16",
        rule: "builder_programs: tape-generated sequences of 0..25 Builder operations: push_opcode over OP_0 and every byte \
               0x4f..=0xff (biased to the opcodes with a VERIFY form), push_int / push_scriptint over i64 without i64::MIN \
               (dense at 0, +-1..20, +-2^k and +-(2^k)-1, byte-length boundaries), push_slice with lengths 0,1,2,74..77,254..257,\
               511..513, 767..769, 0x1234, 0x7fff..0x8001, 0xfeff, 0xff00, 65534..65537, 0x10100, 0x12345, 0x20000, 0x30201 and \
               random (also data ending in a byte that looks like a foldable opcode), push_key compressed / uncompressed, \
               push_verify after every kind of predecessor; the builder starts as Builder::new() or (1/8) Builder::default(), \
               and in 3/8 of the programs it is turned into a script at a tape-chosen point (biased to right before a \
               push_verify) and resumed with Builder::from(bytes). Oracle: script bytes == model bytes (shortest push header for \
               the length, OP_0/OP_1NEGATE/OP_1..16 for push_int, little-endian sign-magnitude numbers, 5-entry VERIFY folding \
               table, data pushes clear the last opcode; a resumed builder remembers the last instruction of the prefix when \
               that is an opcode - only for a push_verify directly after the resumption at a foldable opcode both the folded \
               and the appended form are accepted); Builder::len/is_empty after every step; instructions() == the items added; \
               an independent decoder finds the same items and the shortest header on each; instructions_minimal() yields the \
               same list, or stops with an error (any variant) exactly at a one-byte data push of 1..16 / 0x81 - no Ok item \
               may differ, no error elsewhere, no early end; read_scriptint(push) == n up to 4 bytes, and never a different \
               value beyond (error of any kind or n); a push_slice of a canonical script number reads back as that number; \
               dedicated number opcodes classify as PushNum(n). long_pushes: 15 fixed programs (foldable opcode, push, \
               push_verify, number, foldable opcode, push_verify; 7 of them resumed from bytes after the push) with pushes \
               of 0x0102, 0x1234, 0x8001, 0xfe7f, 0x010203, 0x038081, 0x020100 and 0x01000304 (16 MiB) bytes, so that every \
               length byte of PUSHDATA2 / PUSHDATA4 is non-zero and distinct once; same oracle. templates_exhaustive: every \
               length 0..=45 x every first byte x every second byte, each with a filler tail, with the tail the template shape \
               fixes, and with one such tail byte perturbed, plus every third byte under a p2pkh head and tail (complete \
               family). template_fixed_bytes: for each of the 8 bytes that p2pkh (positions 0,1,2,23,24) and p2sh (0,1,22) \
               fix, all 255 wrong values with every other byte exact, x 8 hashes (complete family). \
               template_perturbations: hand-built p2pkh / p2sh / p2pk / witness programs of every version 0..16 and program \
               length 0..42 / OP_RETURN / 9999..10002-byte scripts with one substitution, truncation, extension, insertion, \
               version pushed as data or program pushed via PUSHDATA1. Oracle for the three: Script::is_p2pkh, is_p2sh, \
               is_witness_program, is_v0_p2wpkh, is_v0_p2wsh, is_v1_p2tr, is_v1plus_p2witprog == the byte forms; \
               Address::from_script is Some exactly for p2pkh, p2sh, v0 20/32-byte and v1..16 witness programs, for 3 \
               networks x with/without blinding key; then payload, script_pubkey() == script, from_str(to_string()) == address \
               and parse_with_params likewise. is_p2pk / is_op_return / is_provably_unspendable (not named by the statement) \
               and scripts longer than the quantifier's 45 bytes are evaluated and a disagreement with the byte form is \
               counted in the histogram (outside-statement:* / outside-quantifier:*) but is not a failure. Non-trivial: a \
               builder program containing a push of exactly 75, 76, 255, 256, 65535 or 65536 bytes, a folding push_verify or a \
               push_verify directly after a resumption from bytes (distinct by operation kinds, lengths and opcodes); a \
               script that is an exact template or one substituted / missing / extra byte away from one (distinct by bytes).",
        assumptions: &[
            "the builder / template model (refimpl/script.rs) is anchored on literal BIP 62 / 141 / 173 vectors (sub-check anchors)",
            "i64::MIN is outside the domain of push_int / push_scriptint (it has no sign-magnitude negation in i64)",
            "push_opcode is not fed the raw push opcodes 0x01..=0x4e (they would swallow the following bytes)",
        ],
        subs: vec![
            Sub { name: "anchors", kind: Kind::Index { count: |_| 1, exhaustive: true, f: anchors } },
            Sub { name: "builder_programs", kind: Kind::Tape { max_len: 1400, quick: 800_000, thorough: 10_000_000, f: builder_programs } },
            Sub { name: "templates_exhaustive", kind: Kind::Index { count: |_| (MAX_L + 1) * 256, exhaustive: true, f: templates_exhaustive } },
            Sub {
                name: "template_fixed_bytes",
                kind: Kind::Index { count: |_| FIXED_BYTES.len() as u64 * FIXED_FILLS, exhaustive: true, f: template_fixed_bytes },
            },
            Sub { name: "long_pushes", kind: Kind::Index { count: |_| 2 * LONG_PUSHES.len() as u64 - 1, exhaustive: true, f: long_pushes } },
            Sub { name: "template_perturbations", kind: Kind::Tape { max_len: 200, quick: 1_600_000, thorough: 20_000_000, f: template_perturbations } },
        ],
        known: vec![Known {
            key: KF_SHORT_PROGRAM,
            what: "Address::from_script returns an address for OP_1..OP_16 followed by a push of 0 or 1 bytes (is_v1plus_p2witprog has no lower length bound); its text form does not parse",
            repro: repro_short_program,
        }],
    }
}
