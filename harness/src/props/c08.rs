//! C08 — PSET and transaction views agree; unique id and lock time follow BIP370.
use elements::confidential::{Asset, Nonce, Value};
use elements::hashes::Hash as _;
use elements::pset::{Input, Output, PartiallySignedTransaction as Pset};
use elements::secp256k1_zkp::ZERO_TWEAK;
use elements::{locktime, AssetIssuance, LockTime, OutPoint, Script, Sequence, Transaction, TxIn, TxInWitness, TxOut, TxOutWitness};
use serde_json::json;

use crate::engine::*;
use crate::gen::pset::{self as gp, PsetOpts};
use crate::gen::{self, pool, TxOpts};
use crate::refimpl::{enc, sha256::sha256d};
use crate::{ensure, ensure_eq};

pub const KF_NONCE_LOST: &str = "from-tx-extract-tx-loses-nonce-of-explicit-output";
pub const KF_COINBASE_PEGIN: &str = "extract-tx-marks-coinbase-index-as-pegin";
pub const KF_LOCKTIME_PREF: &str = "locktime-prefers-time-over-height";
pub const KF_UID_SCRIPTSIG: &str = "unique-id-depends-on-final-script-sig";

// ---- (a) transaction -> PSET -> transaction ------------------------------------------------

fn tx_roundtrip(t: &mut Tape, ctx: &mut Ctx) -> R {
    let o = TxOpts { big: false, wellformed: true, ..TxOpts::default() };
    let tx = gen::gen_tx(t, &o);
    let pset = guard::guard("from_tx", 0, || Pset::from_tx(tx.clone()))?;
    let back = guard::guard("extract_tx", 0, || pset.extract_tx())?;
    ctx.eval();
    let back = match back {
        Ok(b) => b,
        Err(e) => return Err(Failure::new(format!("extract_tx(from_tx(tx)) failed: {} for {:?}", e, tx))),
    };
    if back != tx {
        // classify the difference
        let mut patched = back.clone();
        let mut nonce_only = false;
        let mut coinbase_only = false;
        if patched.output.len() == tx.output.len() {
            for (b, a) in patched.output.iter_mut().zip(tx.output.iter()) {
                let explicit_plain = a.asset.is_explicit() && a.value.is_explicit() && a.witness.is_empty();
                if b.nonce != a.nonce && b.nonce == Nonce::Null && a.nonce.is_confidential() && explicit_plain {
                    b.nonce = a.nonce;
                    nonce_only = true;
                }
            }
        }
        if patched.input.len() == tx.input.len() {
            for (b, a) in patched.input.iter_mut().zip(tx.input.iter()) {
                if a.previous_output.vout == u32::MAX && !a.is_pegin && b.is_pegin {
                    b.is_pegin = false;
                    coinbase_only = true;
                }
            }
        }
        let explained = patched == tx;
        let mut suppressed = explained;
        if explained && nonce_only && !ctx.is_known(KF_NONCE_LOST) {
            suppressed = false;
        }
        if explained && coinbase_only && !ctx.is_known(KF_COINBASE_PEGIN) {
            suppressed = false;
        }
        if !suppressed {
            return Err(Failure::new(format!(
                "extract_tx(from_tx(tx)) != tx{}\n tx  ={:?}\n back={:?}",
                if explained { format!(" (difference: {}{})", if nonce_only { "nonce of an explicit output lost " } else { "" }, if coinbase_only { "index 0xffffffff input marked as pegin" } else { "" }) } else { String::new() },
                tx,
                back
            )));
        }
    }
    let feats = gen::tx_features(&tx);
    for f in &feats {
        ctx.class(&format!("feature:{}", f));
    }
    if feats.iter().any(|f| ["pegin", "issuance", "reissuance", "conf-value", "conf-asset", "in-witness", "out-witness"].contains(f)) {
        ctx.nontrivial(&enc::tx_full(&tx));
    }
    if ctx.wants_sample("tx") && feats.len() >= 3 {
        ctx.sample("tx", || json!({"inputs": tx.input.len(), "outputs": tx.output.len(), "features": feats}));
    }
    Ok(())
}

// ---- reference extraction and lock-time selection -------------------------------------------

#[derive(Debug, PartialEq, Eq, Clone, Copy)]
pub enum RefLock {
    Ok(u32),
    Conflict,
}

/// BIP370: fallback (or 0) when nothing constrains; else the maximum of the kind every constraining
/// input supports, height preferred when both are possible; conflict otherwise
pub fn ref_locktime(reqs: &[(Option<u32>, Option<u32>)], fallback: Option<u32>) -> RefLock {
    let constraining: Vec<&(Option<u32>, Option<u32>)> = reqs.iter().filter(|(t, h)| t.is_some() || h.is_some()).collect();
    if constraining.is_empty() {
        return RefLock::Ok(fallback.unwrap_or(0));
    }
    let height_ok = constraining.iter().all(|(_, h)| h.is_some());
    let time_ok = constraining.iter().all(|(t, _)| t.is_some());
    if height_ok {
        RefLock::Ok(constraining.iter().filter_map(|(_, h)| *h).max().unwrap_or(0))
    } else if time_ok {
        RefLock::Ok(constraining.iter().filter_map(|(t, _)| *t).max().unwrap_or(0))
    } else {
        RefLock::Conflict
    }
}

fn pset_lock_reqs(p: &Pset) -> Vec<(Option<u32>, Option<u32>)> {
    p.inputs().iter().map(|i| (i.required_time_locktime.map(|t| t.to_consensus_u32()), i.required_height_locktime.map(|h| h.to_consensus_u32()))).collect()
}

/// field-by-field reference extraction; None when the PSET cannot be extracted
/// `coinbase_pegin_flag`: reproduce the library's treatment of index 0xffffffff when that finding is listed
fn ref_extract(p: &Pset, unsigned: bool) -> Option<Transaction> {
    let lock = match ref_locktime(&pset_lock_reqs(p), p.global.tx_data.fallback_locktime.map(|l| l.to_consensus_u32())) {
        RefLock::Ok(n) => n,
        RefLock::Conflict => return None,
    };
    let mut input = Vec::new();
    for i in p.inputs() {
        let raw = i.previous_output_index;
        let (vout, is_pegin) = if raw == u32::MAX { (raw, false) } else { (raw & 0x3fff_ffff, raw & (1 << 30) != 0) };
        let amount = match (i.issuance_value_amount, i.issuance_value_comm) {
            (_, Some(c)) => Value::Confidential(c),
            (Some(x), None) => Value::Explicit(x),
            (None, None) => Value::Null,
        };
        let keys = match (i.issuance_inflation_keys, i.issuance_inflation_keys_comm) {
            (_, Some(c)) => Value::Confidential(c),
            (Some(x), None) => Value::Explicit(x),
            (None, None) => Value::Null,
        };
        input.push(TxIn {
            previous_output: OutPoint { txid: i.previous_txid, vout },
            is_pegin,
            script_sig: if unsigned { Script::new() } else { i.final_script_sig.clone().unwrap_or_default() },
            sequence: if unsigned { Sequence(0) } else { i.sequence.unwrap_or(Sequence::MAX) },
            asset_issuance: AssetIssuance {
                asset_blinding_nonce: i.issuance_blinding_nonce.unwrap_or(ZERO_TWEAK),
                asset_entropy: i.issuance_asset_entropy.unwrap_or([0u8; 32]),
                amount,
                inflation_keys: keys,
            },
            witness: if unsigned {
                TxInWitness::empty()
            } else {
                TxInWitness {
                    amount_rangeproof: i.issuance_value_rangeproof.clone(),
                    inflation_keys_rangeproof: i.issuance_keys_rangeproof.clone(),
                    script_witness: i.final_script_witness.clone().unwrap_or_default(),
                    pegin_witness: i.pegin_witness.clone().unwrap_or_default(),
                }
            },
        });
    }
    let mut output = Vec::new();
    for o in p.outputs() {
        let asset = match (o.asset_comm, o.asset) {
            (Some(g), _) => Asset::Confidential(g),
            (None, Some(a)) => Asset::Explicit(a),
            (None, None) => return None,
        };
        let value = match (o.amount_comm, o.amount) {
            (Some(c), _) => Value::Confidential(c),
            (None, Some(v)) => Value::Explicit(v),
            (None, None) => return None,
        };
        output.push(TxOut {
            asset,
            value,
            nonce: o.ecdh_pubkey.map_or(Nonce::Null, |k| Nonce::Confidential(k.inner)),
            script_pubkey: o.script_pubkey.clone(),
            witness: if unsigned { TxOutWitness::empty() } else { TxOutWitness { surjection_proof: o.asset_surjection_proof.clone(), rangeproof: o.value_rangeproof.clone() } },
        });
    }
    Some(Transaction { version: p.global.tx_data.version, lock_time: LockTime::from_consensus(lock), input, output })
}

/// compare a library extraction with the reference, tolerating only the listed coinbase-pegin finding
fn same_extraction(lib: &Transaction, want: &Transaction, ctx: &mut Ctx) -> bool {
    if lib == want {
        return true;
    }
    let mut patched = lib.clone();
    let mut any = false;
    if patched.input.len() == want.input.len() {
        for (b, a) in patched.input.iter_mut().zip(want.input.iter()) {
            if a.previous_output.vout == u32::MAX && b.is_pegin && !a.is_pegin {
                b.is_pegin = false;
                any = true;
            }
        }
    }
    any && &patched == want && ctx.is_known(KF_COINBASE_PEGIN)
}

fn extraction(t: &mut Tape, ctx: &mut Ctx) -> R {
    let extractable = t.chance(200);
    let p = gp::gen_pset(t, &PsetOpts { extractable, ..PsetOpts::default() });
    let a = guard::guard("extract_tx", 0, || p.extract_tx())?;
    let b = guard::guard("extract_tx", 0, || p.extract_tx())?;
    ctx.eval();
    let want = ref_extract(&p, false);
    match (&a, &b) {
        (Ok(x), Ok(y)) => ensure!(x == y, "extract_tx is not deterministic"),
        (Err(_), Err(_)) => {}
        _ => return Err(Failure::new("extract_tx succeeds once and fails once on the same PSET".to_string())),
    }
    match (&a, &want) {
        (Ok(x), Some(w)) => {
            if !same_extraction(x, w, ctx) {
                // lock-time preference finding
                let mut y = x.clone();
                y.lock_time = w.lock_time;
                if same_extraction(&y, w, ctx) && x.lock_time != w.lock_time && both_kinds_possible(&p) && ctx.is_known(KF_LOCKTIME_PREF) {
                    ctx.class("known:locktime-preference");
                } else {
                    return Err(Failure::new(format!("extract_tx does not reflect the PSET's fields\n lib ={:?}\n want={:?}", x, w)));
                }
            }
        }
        (Err(_), None) => {}
        (Ok(x), None) => return Err(Failure::new(format!("extract_tx succeeded where the fields do not determine a transaction (lock-time conflict): {:?}", x.lock_time))),
        (Err(e), Some(_)) => return Err(Failure::new(format!("extract_tx failed on an extractable PSET: {}", e))),
    }
    ctx.class(if a.is_ok() { "extraction:ok" } else { "extraction:err" });
    let feats = gp::pset_features(&p);
    if a.is_ok() && !feats.is_empty() {
        ctx.nontrivial(&elements::encode::serialize(&p));
    }
    Ok(())
}

fn both_kinds_possible(p: &Pset) -> bool {
    let r = pset_lock_reqs(p);
    let c: Vec<_> = r.iter().filter(|(t, h)| t.is_some() || h.is_some()).collect();
    !c.is_empty() && c.iter().all(|(t, h)| t.is_some() && h.is_some())
}

// ---- (c) unique id under updater / signer / finalizer histories ------------------------------

fn ref_unique_id(p: &Pset) -> Option<[u8; 32]> {
    ref_extract(p, true).map(|tx| sha256d(&enc::tx_stripped(&tx)))
}

const N_OPS: usize = 16;
/// id-neutral field additions / changes; returns the label
fn apply_op(t: &mut Tape, p: &mut Pset, op: usize) -> Option<&'static str> {
    let pl = pool();
    let nin = p.inputs().len();
    let nout = p.outputs().len();
    match op {
        0..=11 => {
            if nin == 0 {
                return None;
            }
            let k = t.below(nin);
            let i: &mut Input = &mut p.inputs_mut()[k];
            Some(match op {
                0 => {
                    i.sequence = Some(Sequence(t.edgy_u32()));
                    "set-sequence"
                }
                1 => {
                    let l = t.range(1, 72);
                    i.partial_sigs.insert(gp::gen_btc_key(t), t.bytes(l));
                    "add-partial-sig"
                }
                2 => {
                    i.tap_key_sig = Some(gp::gen_schnorr_sig(t));
                    "set-tap-key-sig"
                }
                3 => {
                    i.tap_script_sigs.insert((gp::gen_xonly(t), gp::gen_leaf_hash(t)), gp::gen_schnorr_sig(t));
                    "add-tap-script-sig"
                }
                4 => {
                    i.final_script_sig = Some(gen::gen_script(t, false));
                    "set-final-script-sig(finalizer)"
                }
                5 => {
                    i.final_script_witness = Some(gen::gen_stack(t, false));
                    "set-final-script-witness(finalizer)"
                }
                6 => {
                    i.redeem_script = Some(gen::gen_script(t, false));
                    i.witness_script = Some(gen::gen_script(t, false));
                    "set-scripts"
                }
                7 => {
                    i.bip32_derivation.insert(gp::gen_btc_key(t), gp::gen_key_source(t));
                    i.tap_key_origins.insert(gp::gen_xonly(t), (vec![gp::gen_leaf_hash(t)], gp::gen_key_source(t)));
                    "add-key-derivations"
                }
                8 => {
                    i.witness_utxo = Some(gen::gen_txout(t, &TxOpts { big: false, witness: false, ..TxOpts::default() }));
                    if t.bool() {
                        i.non_witness_utxo = Some(gp::gen_small_tx(t));
                    }
                    "set-utxos"
                }
                9 => {
                    i.sighash_type = Some(t.choose(&gp::SCHNORR_TYPES).into());
                    "set-sighash-type"
                }
                10 => {
                    i.amount = Some(t.edgy_u64());
                    i.asset = Some(gen::gen_asset_id(t));
                    i.blind_value_proof = Some(Box::new(pl.rangeproofs[t.below(pl.rangeproofs.len())].clone()));
                    i.blind_asset_proof = Some(Box::new(pl.surjproofs[t.below(pl.surjproofs.len())].clone()));
                    "set-input-explicit-value-proofs"
                }
                _ => {
                    i.tap_internal_key = Some(gp::gen_xonly(t));
                    if let Some(cb) = gp::gen_control_block(t) {
                        i.tap_scripts.insert(cb, (gen::gen_script(t, false), gp::gen_leaf_version(t)));
                    }
                    "add-tap-scripts"
                }
            })
        }
        12..=14 => {
            if nout == 0 {
                return None;
            }
            let k = t.below(nout);
            let o: &mut Output = &mut p.outputs_mut()[k];
            Some(match op {
                12 => {
                    o.bip32_derivation.insert(gp::gen_btc_key(t), gp::gen_key_source(t));
                    o.redeem_script = Some(gen::gen_script(t, false));
                    "output-scripts-derivations"
                }
                13 => {
                    // explicit value / asset proof fields next to existing commitments
                    o.blind_value_proof = Some(Box::new(pl.rangeproofs[t.below(pl.rangeproofs.len())].clone()));
                    o.blind_asset_proof = Some(Box::new(pl.surjproofs[t.below(pl.surjproofs.len())].clone()));
                    if o.amount_comm.is_some() && o.amount.is_none() {
                        o.amount = Some(t.edgy_u64());
                    }
                    if o.asset_comm.is_some() && o.asset.is_none() {
                        o.asset = Some(gen::gen_asset_id(t));
                    }
                    "output-explicit-value-proofs"
                }
                _ => {
                    o.tap_internal_key = Some(gp::gen_xonly(t));
                    if let Some((tt, _)) = gp::gen_tap_tree(t, 4) {
                        o.tap_tree = Some(tt);
                    }
                    "output-tap-fields"
                }
            })
        }
        _ => {
            let l = t.below(8);
            p.global.proprietary.insert(gp::gen_prop_key(t, 0), t.bytes(l));
            p.global.xpub.insert(gp::gen_xpub(t), gp::gen_key_source(t));
            Some("global-xpub-proprietary")
        }
    }
}

fn unique_id_histories(t: &mut Tape, ctx: &mut Ctx) -> R {
    let mut p = gp::gen_pset(t, &PsetOpts { extractable: true, ..PsetOpts::default() });
    // drop lock-time conflicts and keep it non-empty enough to be interesting
    if p.inputs().is_empty() {
        p.add_input(gp::gen_input(t, 60));
        p.inputs_mut()[0].required_time_locktime = None;
    }
    let uid = |p: &Pset| guard::guard("unique_id", 0, || p.unique_id().map(|x| x.to_byte_array()));
    let id0 = match uid(&p)? {
        Ok(i) => i,
        Err(e) => return Err(Failure::new(format!("unique_id failed on an extractable PSET: {}", e))),
    };
    ctx.eval();
    let check_ref = |p: &Pset, id: &[u8; 32], ctx: &mut Ctx, what: &str| -> R {
        match ref_unique_id(p) {
            Some(w) => {
                if &w != id {
                    // tolerate only the listed lock-time preference finding (the id commits to the lock time)
                    if both_kinds_possible(p) && ctx.is_known(KF_LOCKTIME_PREF) {
                        return Ok(());
                    }
                    let has_sig = p.inputs().iter().any(|i| i.final_script_sig.as_ref().map_or(false, |s| !s.is_empty()));
                    if has_sig && ctx.is_known(KF_UID_SCRIPTSIG) {
                        return Ok(());
                    }
                    return Err(Failure::new(format!("unique_id ({}) is not the id of the unsigned transaction: lib={} ref={}", what, hex(id), hex(&w))));
                }
                Ok(())
            }
            None => Err(Failure::new("reference extraction failed".to_string())),
        }
    };
    // a PSET from the generator may already carry a final_script_sig
    check_ref(&p, &id0, ctx, "initial")?;
    let steps = 1 + t.below(10);
    let mut trace: Vec<&'static str> = Vec::new();
    let mut finalizer = false;
    for _ in 0..steps {
        let op = t.below(N_OPS);
        let Some(label) = apply_op(t, &mut p, op) else { continue };
        trace.push(label);
        if label.contains("finalizer") {
            finalizer = true;
        }
        let id = match uid(&p)? {
            Ok(i) => i,
            Err(e) => return Err(Failure::new(format!("unique_id failed after {:?}: {}", trace, e))),
        };
        ctx.eval();
        if id != id0 {
            let sig_step = label == "set-final-script-sig(finalizer)" || p.inputs().iter().any(|i| i.final_script_sig.is_some());
            if sig_step && ctx.is_known(KF_UID_SCRIPTSIG) {
                ctx.class("known:unique-id-script-sig");
                return Ok(());
            }
            return Err(Failure::new(format!("unique_id changed after `{}` (history {:?}): {} -> {}", label, trace, hex(&id0), hex(&id))));
        }
        check_ref(&p, &id, ctx, label)?;
        ctx.class(&format!("op:{}", label));
    }
    // controls: identifying data does change the id
    {
        let mut q = p.clone();
        let k = t.below(q.inputs().len());
        let mut a = q.inputs()[k].previous_txid.to_byte_array();
        a[t.below(32)] ^= 1;
        q.inputs_mut()[k].previous_txid = elements::Txid::from_byte_array(a);
        if let Ok(id) = uid(&q)? {
            ensure!(id != id0, "unique_id unchanged after changing a previous txid");
        }
        if !p.outputs().is_empty() {
            let mut q = p.clone();
            let k = t.below(q.outputs().len());
            let mut b = q.outputs()[k].script_pubkey.to_bytes();
            b.push(0x51);
            q.outputs_mut()[k].script_pubkey = Script::from(b);
            if let Ok(id) = uid(&q)? {
                ensure!(id != id0, "unique_id unchanged after changing an output script");
            }
        }
        let mut q = p.clone();
        let cur = q.global.tx_data.fallback_locktime.map_or(0, |l| l.to_consensus_u32());
        if q.inputs().iter().all(|i| i.required_height_locktime.is_none() && i.required_time_locktime.is_none()) {
            q.global.tx_data.fallback_locktime = Some(LockTime::from_consensus(cur ^ 1));
            if let Ok(id) = uid(&q)? {
                ensure!(id != id0, "unique_id unchanged after changing the lock time");
            }
        }
        ctx.evals_n(3);
    }
    if finalizer {
        ctx.class("history:with-finalizer-step");
        ctx.nontrivial(&(hex(&id0), trace.clone()));
    }
    if ctx.wants_sample("history") && finalizer {
        ctx.sample("history", || json!({"inputs": p.inputs().len(), "outputs": p.outputs().len(), "ops": trace, "unique_id": hex(&id0)}));
    }
    Ok(())
}

// ---- (d) lock-time selection, every kind assignment ------------------------------------------

/// index -> (number of inputs 0..=4, base-4 assignment of {none,time,height,both}); 341 assignments
fn decode_assignment(mut idx: u64) -> Vec<u8> {
    let mut n = 0usize;
    let mut count = 1u64;
    while idx >= count {
        idx -= count;
        n += 1;
        count *= 4;
    }
    (0..n).map(|k| ((idx >> (2 * k)) & 3) as u8).collect()
}

fn locktime_assignments(idx: u64, seed: u64, ctx: &mut Ctx) -> R {
    let assign = decode_assignment(idx % 341);
    let rounds = 40;
    let rnd = seeded_bytes(seed, idx, 64 * rounds);
    let mut t = Tape::new(&rnd);
    for _ in 0..rounds {
        let mut p = Pset::new_v2();
        let mut reqs = Vec::new();
        for kind in &assign {
            let mut i = Input::default();
            let time = gp::gen_time(&mut t);
            let height = gp::gen_height(&mut t);
            if kind & 1 != 0 {
                i.required_time_locktime = Some(time);
            }
            if kind & 2 != 0 {
                i.required_height_locktime = Some(height);
            }
            reqs.push((i.required_time_locktime.map(|x| x.to_consensus_u32()), i.required_height_locktime.map(|x| x.to_consensus_u32())));
            p.add_input(i);
        }
        let fallback = if t.bool() { Some(t.edgy_u32()) } else { None };
        p.global.tx_data.fallback_locktime = fallback.map(LockTime::from_consensus);
        let got = guard::guard("locktime", 0, || p.locktime())?;
        ctx.eval();
        let want = ref_locktime(&reqs, fallback);
        let both = !assign.is_empty() && assign.iter().filter(|k| **k != 0).all(|k| *k == 3) && assign.iter().any(|k| *k == 3);
        match (&got, want) {
            (Ok(l), RefLock::Ok(n)) => {
                if l.to_consensus_u32() != n {
                    if both && ctx.is_known(KF_LOCKTIME_PREF) {
                        ctx.class("known:locktime-preference");
                    } else {
                        return Err(Failure::new(format!(
                            "locktime() = {} but BIP370 prescribes {} for requirements (time, height) = {:?}, fallback {:?}",
                            l.to_consensus_u32(),
                            n,
                            reqs,
                            fallback
                        )));
                    }
                }
            }
            (Err(_), RefLock::Conflict) => {}
            (Ok(l), RefLock::Conflict) => return Err(Failure::new(format!("locktime() = {} although no kind is supported by all constraining inputs {:?}", l, reqs))),
            (Err(e), RefLock::Ok(n)) => return Err(Failure::new(format!("locktime() fails ({}) although BIP370 prescribes {} for {:?}", e, n, reqs))),
        }
        let kinds: std::collections::BTreeSet<u8> = assign.iter().copied().filter(|k| *k != 0).collect();
        if kinds.len() >= 2 {
            ctx.nontrivial(&(idx, hex(&rnd[..8]), reqs.clone(), fallback));
        }
    }
    ctx.class(&format!("inputs:{}", assign.len()));
    if ctx.wants_sample("assignment") && assign.len() >= 3 {
        ctx.sample("assignment", || json!({"kinds(1=time,2=height,3=both)": assign, "rounds": rounds}));
    }
    let _ = locktime::Height::ZERO;
    Ok(())
}

fn repro_nonce_lost() -> bool {
    let p = pool();
    let tx = Transaction {
        version: 2,
        lock_time: LockTime::ZERO,
        input: vec![],
        output: vec![TxOut { asset: Asset::Explicit(p.assets[0]), value: Value::Explicit(5), nonce: Nonce::Confidential(p.pubkeys[0]), script_pubkey: Script::new(), witness: TxOutWitness::empty() }],
    };
    Pset::from_tx(tx.clone()).extract_tx().map_or(true, |b| b != tx)
}
fn repro_coinbase_pegin() -> bool {
    let tx = Transaction { version: 2, lock_time: LockTime::ZERO, input: vec![TxIn::default()], output: vec![] };
    Pset::from_tx(tx.clone()).extract_tx().map_or(true, |b| b != tx)
}
fn repro_locktime_pref() -> bool {
    let mut p = Pset::new_v2();
    let mut i = Input::default();
    i.required_time_locktime = locktime::Time::from_consensus(600_000_000).ok();
    i.required_height_locktime = locktime::Height::from_consensus(7).ok();
    p.add_input(i);
    p.locktime().map_or(true, |l| l.to_consensus_u32() != 7)
}
fn repro_uid_scriptsig() -> bool {
    let mut p = Pset::new_v2();
    p.add_input(Input::default());
    let a = p.unique_id();
    p.inputs_mut()[0].final_script_sig = Some(Script::from(vec![0x51]));
    match (a, p.unique_id()) {
        (Ok(x), Ok(y)) => x != y,
        _ => true,
    }
}

pub fn property() -> Property {
    Property {
        id: "C08",
        rule: "tx_roundtrip: well-formed transactions (C01 generator constrained: pegin witness only on pegins, issuance proofs \
               only on issuances, non-null asset / value, nonce Null or key); oracle: extract_tx(from_tx(tx)) == tx. extraction: generated PSETs; extract_tx twice identical and equal to the \
               harness's field-by-field reference extraction (flag bits stripped except on 0xffffffff, commitments preferred, \
               defaults), Err exactly on lock-time conflicts. unique_id: histories of 1..10 updater / signer / finalizer \
               operations from a table of 16 id-neutral field additions; after every step unique_id == initial == harness \
               txid of the reference unsigned transaction (sequences 0, empty scriptSigs, BIP370 lock time); controls: \
               prevout / output / lock-time changes change it. locktime: ALL 341 assignments of {none,time,height,both} to \
               0..4 inputs x 40 value draws x fallback present/absent against the BIP370 reference. Non-trivial: tx with \
               pegin / issuance / confidential output / witness; history with a finalizer step; assignment with >=2 \
               different constraining kinds; distinct by encoding / history / values.",
        assumptions: &["explicit 32-byte nonces are not sent through PSET conversions (the format has no field for them)"],
        subs: vec![
            Sub { name: "tx_roundtrip", kind: Kind::Tape { max_len: 3000, quick: 240_000, thorough: 3_000_000, f: tx_roundtrip } },
            Sub { name: "extraction", kind: Kind::Tape { max_len: 6000, quick: 96_000, thorough: 1_200_000, f: extraction } },
            Sub { name: "unique_id", kind: Kind::Tape { max_len: 7000, quick: 60_000, thorough: 750_000, f: unique_id_histories } },
            Sub { name: "locktime", kind: Kind::Index { count: |t| t.pick(341, 341 * 30), exhaustive: true, f: locktime_assignments } },
        ],
        known: vec![
            Known { key: KF_NONCE_LOST, what: "an explicit output carrying a receiver key in its nonce comes back from from_tx -> extract_tx with a Null nonce", repro: repro_nonce_lost },
            Known { key: KF_COINBASE_PEGIN, what: "an input with index 0xffffffff comes back from from_tx -> extract_tx with is_pegin = true", repro: repro_coinbase_pegin },
            Known { key: KF_LOCKTIME_PREF, what: "locktime() prefers the time lock when both kinds are possible (BIP370: height)", repro: repro_locktime_pref },
            Known { key: KF_UID_SCRIPTSIG, what: "unique_id changes when final_script_sig is set", repro: repro_uid_scriptsig },
        ],
    }
}
