//! C08 — PSET and transaction views agree; unique id and lock time follow BIP370.
use elements::confidential::{Asset, Nonce, Value};
use elements::hashes::Hash as _;
use elements::pset::{Input, Output, PartiallySignedTransaction as Pset};
use elements::secp256k1_zkp::ZERO_TWEAK;
use elements::{locktime, AssetIssuance, LockTime, OutPoint, Script, Sequence, Transaction, TxIn, TxInWitness, TxOut, TxOutWitness};
use serde_json::json;

use crate::engine::*;
use crate::gen::pset::{self as gp, PsetOpts};
use crate::gen::{self, ext_g6, pool, TxOpts};
use crate::refimpl::{enc, sha256::sha256d};
use crate::ensure;

pub const KF_NONCE_LOST: &str = "from-tx-extract-tx-loses-nonce-of-explicit-output";
pub const KF_COINBASE_PEGIN: &str = "extract-tx-marks-coinbase-index-as-pegin";
pub const KF_LOCKTIME_PREF: &str = "locktime-prefers-time-over-height";
pub const KF_UID_SCRIPTSIG: &str = "unique-id-depends-on-final-script-sig";

// ---- (a) transaction -> PSET -> transaction ------------------------------------------------

/// harness-side shape predicates (the classifier of the recorded finding must not move together with the library's
/// own `is_explicit` / `is_empty` helpers, which `Output::from_txout` consults)
fn explicit_plain(o: &TxOut) -> bool {
    matches!(o.asset, Asset::Explicit(_)) && matches!(o.value, Value::Explicit(_)) && enc::out_witness_empty(&o.witness)
}

fn tx_roundtrip(t: &mut Tape, ctx: &mut Ctx) -> R {
    let o = TxOpts { big: false, wellformed: true, ..TxOpts::default() };
    let tx = gen::gen_tx(t, &o);
    roundtrip_core(&tx, ctx)?;
    let feats = gen::tx_features(&tx);
    for f in &feats {
        ctx.class(&format!("feature:{}", f));
    }
    if feats.iter().any(|f| ["pegin", "issuance", "reissuance", "conf-value", "conf-asset", "in-witness", "out-witness"].contains(f)) {
        ctx.nontrivial(&enc::tx_full(&tx));
    }
    if ctx.wants_sample("tx") && feats.len() >= 3 {
        ctx.sample("tx", || json!({"inputs": tx.input.len(), "outputs": tx.output.len(), "features": feats}));
    }
    Ok(())
}

/// counts on either side of the 0xfd compact-size boundary (0xfc, 0xfd, 0xfe, 0x100, 0x101 inputs and / or outputs)
fn tx_roundtrip_big(t: &mut Tape, ctx: &mut Ctx) -> R {
    let tx = ext_g6::gen_tx_bigcount(t);
    roundtrip_core(&tx, ctx)?;
    ctx.class(&format!("bigcount:inputs={}", if tx.input.len() >= 0xfc { format!("{:#x}", tx.input.len()) } else { "few".to_string() }));
    ctx.class(&format!("bigcount:outputs={}", if tx.output.len() >= 0xfc { format!("{:#x}", tx.output.len()) } else { "few".to_string() }));
    ctx.nontrivial(&enc::tx_full(&tx));
    Ok(())
}

fn roundtrip_core(tx: &Transaction, ctx: &mut Ctx) -> R {
    let pset = guard::guard("from_tx", 0, || Pset::from_tx(tx.clone()))?;
    let back = guard::guard("extract_tx", 0, || pset.extract_tx())?;
    ctx.eval();
    let back = match back {
        Ok(b) => b,
        Err(e) => return Err(Failure::new(format!("extract_tx(from_tx(tx)) failed: {} for {:?}", e, tx))),
    };
    if &back != tx {
        // classify the difference
        let mut patched = back.clone();
        let mut nonce_only = false;
        let mut coinbase_only = false;
        if patched.output.len() == tx.output.len() {
            for (b, a) in patched.output.iter_mut().zip(tx.output.iter()) {
                if b.nonce != a.nonce && b.nonce == Nonce::Null && matches!(a.nonce, Nonce::Confidential(_)) && explicit_plain(a) {
                    b.nonce = a.nonce;
                    nonce_only = true;
                }
            }
        }
        if patched.input.len() == tx.input.len() {
            for (b, a) in patched.input.iter_mut().zip(tx.input.iter()) {
                if a.previous_output.vout == u32::MAX && !a.is_pegin && b.is_pegin {
                    b.is_pegin = false;
                    coinbase_only = true;
                }
            }
        }
        let explained = &patched == tx;
        let mut suppressed = explained;
        if explained && nonce_only && !ctx.is_known(KF_NONCE_LOST) {
            suppressed = false;
        }
        if explained && coinbase_only && !ctx.is_known(KF_COINBASE_PEGIN) {
            suppressed = false;
        }
        if !suppressed {
            return Err(Failure::new(format!(
                "extract_tx(from_tx(tx)) != tx{}\n tx  ={:?}\n back={:?}",
                if explained { format!(" (difference: {}{})", if nonce_only { "nonce of an explicit output lost " } else { "" }, if coinbase_only { "index 0xffffffff input marked as pegin" } else { "" }) } else { String::new() },
                tx,
                back
            )));
        }
    }
    // the two views of every input agree: what the PSET input says about itself is what the TxIn says
    ensure!(pset.inputs().len() == tx.input.len(), "from_tx gives {} PSET inputs for {} inputs", pset.inputs().len(), tx.input.len());
    ensure!(pset.outputs().len() == tx.output.len(), "from_tx gives {} PSET outputs for {} outputs", pset.outputs().len(), tx.output.len());
    for (k, (pi, i)) in pset.inputs().iter().zip(tx.input.iter()).enumerate() {
        let (pegin, has_iss, iss) = guard::guard("Input::{is_pegin,has_issuance,asset_issuance}", 0, || (pi.is_pegin(), pi.has_issuance(), pi.asset_issuance()))?;
        ctx.eval();
        if pegin != i.is_pegin {
            let coinbase = i.previous_output.vout == u32::MAX && !i.is_pegin;
            if !(coinbase && ctx.is_known(KF_COINBASE_PEGIN)) {
                return Err(Failure::new(format!("pset::Input::from_txin(input {}).is_pegin() = {} but the input has is_pegin = {} ({:?})", k, pegin, i.is_pegin, i)));
            }
        }
        let want_iss = !enc::issuance_is_null(&i.asset_issuance);
        // `has_issuance` is a convenience predicate that neither extraction, the unique id nor the lock time uses
        // and that the statement does not name: a disagreement is shown in the histogram, it is not a C08 violation
        if has_iss != want_iss {
            ctx.class("outside-statement:Input::has_issuance-disagrees-with-the-TxIn(counted,not-failed)");
        }
        if want_iss {
            ensure!(iss == i.asset_issuance, "pset::Input::from_txin(input {}).asset_issuance() = {:?} differs from the input's issuance {:?}", k, iss, i.asset_issuance);
        } else {
            ensure!(matches!(iss.amount, Value::Null) && matches!(iss.inflation_keys, Value::Null), "pset::Input::from_txin(input {}).asset_issuance() reports amounts for an input without issuance: {:?}", k, iss);
        }
        ensure!(pi.previous_txid == i.previous_output.txid, "pset::Input::from_txin(input {}) has another previous txid", k);
    }
    Ok(())
}

// ---- reference extraction and lock-time selection -------------------------------------------

#[derive(Debug, PartialEq, Eq, Clone, Copy)]
pub enum RefLock {
    Ok(u32),
    Conflict,
}

/// BIP370: fallback (or 0) when nothing constrains; else the maximum of the kind every constraining
/// input supports, height preferred when both are possible; conflict otherwise
pub fn ref_locktime(reqs: &[(Option<u32>, Option<u32>)], fallback: Option<u32>) -> RefLock {
    let constraining: Vec<&(Option<u32>, Option<u32>)> = reqs.iter().filter(|(t, h)| t.is_some() || h.is_some()).collect();
    if constraining.is_empty() {
        return RefLock::Ok(fallback.unwrap_or(0));
    }
    let height_ok = constraining.iter().all(|(_, h)| h.is_some());
    let time_ok = constraining.iter().all(|(t, _)| t.is_some());
    if height_ok {
        RefLock::Ok(constraining.iter().filter_map(|(_, h)| *h).max().unwrap_or(0))
    } else if time_ok {
        RefLock::Ok(constraining.iter().filter_map(|(t, _)| *t).max().unwrap_or(0))
    } else {
        RefLock::Conflict
    }
}

fn pset_lock_reqs(p: &Pset) -> Vec<(Option<u32>, Option<u32>)> {
    p.inputs().iter().map(|i| (i.required_time_locktime.map(|t| t.to_consensus_u32()), i.required_height_locktime.map(|h| h.to_consensus_u32()))).collect()
}

/// field-by-field reference extraction; None when the PSET cannot be extracted
fn ref_extract(p: &Pset, unsigned: bool) -> Option<Transaction> {
    ref_extract_parts(p.global.tx_data.version, p.global.tx_data.fallback_locktime.map(|l| l.to_consensus_u32()), p.inputs(), p.outputs(), unsigned)
}

/// reference conversion of one PSET output; `None` for the asset / value when neither the explicit field nor the
/// commitment is present. The nonce is not part of it (see `check_to_txout`).
fn ref_txout_parts(o: &Output, unsigned: bool) -> (Option<Asset>, Option<Value>, Script, TxOutWitness) {
    let asset = match (o.asset_comm, o.asset) {
        (Some(g), _) => Some(Asset::Confidential(g)),
        (None, Some(a)) => Some(Asset::Explicit(a)),
        (None, None) => None,
    };
    let value = match (o.amount_comm, o.amount) {
        (Some(c), _) => Some(Value::Confidential(c)),
        (None, Some(v)) => Some(Value::Explicit(v)),
        (None, None) => None,
    };
    let witness = if unsigned { TxOutWitness::empty() } else { TxOutWitness { surjection_proof: o.asset_surjection_proof.clone(), rangeproof: o.value_rangeproof.clone() } };
    (asset, value, o.script_pubkey.clone(), witness)
}

/// the same from the pieces (version, fallback lock time, input maps, output maps): used with the harness's own
/// shadow lists where the PSET was assembled by insert / remove operations
fn ref_extract_parts(version: u32, fallback: Option<u32>, ins: &[Input], outs: &[Output], unsigned: bool) -> Option<Transaction> {
    let reqs: Vec<(Option<u32>, Option<u32>)> = ins.iter().map(|i| (i.required_time_locktime.map(|t| t.to_consensus_u32()), i.required_height_locktime.map(|h| h.to_consensus_u32()))).collect();
    let lock = match ref_locktime(&reqs, fallback) {
        RefLock::Ok(n) => n,
        RefLock::Conflict => return None,
    };
    let mut input = Vec::new();
    for i in ins {
        let raw = i.previous_output_index;
        let (vout, is_pegin) = if raw == u32::MAX { (raw, false) } else { (raw & 0x3fff_ffff, raw & (1 << 30) != 0) };
        let amount = match (i.issuance_value_amount, i.issuance_value_comm) {
            (_, Some(c)) => Value::Confidential(c),
            (Some(x), None) => Value::Explicit(x),
            (None, None) => Value::Null,
        };
        let keys = match (i.issuance_inflation_keys, i.issuance_inflation_keys_comm) {
            (_, Some(c)) => Value::Confidential(c),
            (Some(x), None) => Value::Explicit(x),
            (None, None) => Value::Null,
        };
        input.push(TxIn {
            previous_output: OutPoint { txid: i.previous_txid, vout },
            is_pegin,
            script_sig: if unsigned { Script::new() } else { i.final_script_sig.clone().unwrap_or_default() },
            sequence: if unsigned { Sequence(0) } else { i.sequence.unwrap_or(Sequence::MAX) },
            asset_issuance: AssetIssuance {
                asset_blinding_nonce: i.issuance_blinding_nonce.unwrap_or(ZERO_TWEAK),
                asset_entropy: i.issuance_asset_entropy.unwrap_or([0u8; 32]),
                amount,
                inflation_keys: keys,
            },
            witness: if unsigned {
                TxInWitness::empty()
            } else {
                TxInWitness {
                    amount_rangeproof: i.issuance_value_rangeproof.clone(),
                    inflation_keys_rangeproof: i.issuance_keys_rangeproof.clone(),
                    script_witness: i.final_script_witness.clone().unwrap_or_default(),
                    pegin_witness: i.pegin_witness.clone().unwrap_or_default(),
                }
            },
        });
    }
    let mut output = Vec::new();
    for o in outs {
        let (asset, value, script_pubkey, witness) = ref_txout_parts(o, unsigned);
        output.push(TxOut { asset: asset?, value: value?, nonce: o.ecdh_pubkey.map_or(Nonce::Null, |k| Nonce::Confidential(k.inner)), script_pubkey, witness });
    }
    Some(Transaction { version, lock_time: LockTime::from_consensus(lock), input, output })
}

/// `Output::to_txout` is a second "PSET output -> TxOut" conversion next to the one inside `extract_tx`: it must
/// reflect exactly the output's fields. Asset, value (commitment before explicit, Null when both are absent),
/// script and the two witness proofs are compared with the reference. For the nonce the statement fixes no rule
/// beyond "a field of this output": the library documents that it hands back the *blinding key* of an output
/// that is not yet blinded, where extract_tx emits only the ECDH key - so the oracle is: Null or one of the two
/// keys held by the output; Null when it holds neither; the ECDH key when the output is completely blinded
/// (every rule in use agrees there).
fn check_to_txout(o: &Output, k: usize, ctx: &mut Ctx) -> R {
    let a = guard::guard("Output::to_txout", 0, || o.to_txout())?;
    let b = guard::guard("Output::to_txout", 0, || o.to_txout())?;
    ctx.eval();
    ensure!(a == b, "Output::to_txout of output {} is not deterministic", k);
    let (asset, value, script, witness) = ref_txout_parts(o, false);
    let (asset, value) = (asset.unwrap_or(Asset::Null), value.unwrap_or(Value::Null));
    ensure!(a.asset == asset, "Output::to_txout(output {}).asset = {:?}, the fields (asset {:?}, asset_comm {:?}) give {:?}", k, a.asset, o.asset, o.asset_comm, asset);
    ensure!(a.value == value, "Output::to_txout(output {}).value = {:?}, the fields (amount {:?}, amount_comm {:?}) give {:?}", k, a.value, o.amount, o.amount_comm, value);
    ensure!(a.script_pubkey == script, "Output::to_txout(output {}).script_pubkey = {:?}, the field is {:?}", k, a.script_pubkey, script);
    ensure!(
        a.witness == witness,
        "Output::to_txout(output {}).witness (surjection proof {}, range proof {}) does not reflect the fields asset_surjection_proof ({}) / value_rangeproof ({})",
        k,
        a.witness.surjection_proof.as_ref().map_or("none".to_string(), |p| format!("{} bytes", p.serialize().len())),
        a.witness.rangeproof.as_ref().map_or("none".to_string(), |p| format!("{} bytes", p.serialize().len())),
        witness.surjection_proof.as_ref().map_or("none".to_string(), |p| format!("{} bytes", p.serialize().len())),
        witness.rangeproof.as_ref().map_or("none".to_string(), |p| format!("{} bytes", p.serialize().len()))
    );
    let ecdh = o.ecdh_pubkey.map(|x| Nonce::Confidential(x.inner));
    let bkey = o.blinding_key.map(|x| Nonce::Confidential(x.inner));
    let fully = o.blinding_key.is_some() && o.amount_comm.is_some() && o.asset_comm.is_some() && o.value_rangeproof.is_some() && o.asset_surjection_proof.is_some() && o.ecdh_pubkey.is_some();
    if fully {
        ensure!(Some(a.nonce) == ecdh, "Output::to_txout(output {}) of a completely blinded output has nonce {:?}, not its ECDH key {:?}", k, a.nonce, ecdh);
        ctx.class("to_txout:nonce=ecdh(fully blinded)");
    } else {
        ensure!(
            a.nonce == Nonce::Null || Some(a.nonce) == ecdh || Some(a.nonce) == bkey,
            "Output::to_txout(output {}).nonce = {:?} is neither Null nor a key of the output (ecdh {:?}, blinding key {:?})",
            k, a.nonce, o.ecdh_pubkey, o.blinding_key
        );
        ctx.class(if a.nonce == Nonce::Null { "to_txout:nonce=null" } else if Some(a.nonce) == ecdh { "to_txout:nonce=ecdh" } else { "to_txout:nonce=blinding-key" });
    }
    if o.amount.is_some() && o.amount_comm.is_some() {
        ctx.class("to_txout:amount+commitment");
    }
    if o.asset.is_some() && o.asset_comm.is_some() {
        ctx.class("to_txout:asset+commitment");
    }
    if o.value_rangeproof.is_some() != o.asset_surjection_proof.is_some() {
        ctx.class("to_txout:one-proof-only");
    }
    Ok(())
}

/// compare a library extraction with the reference, tolerating only the listed coinbase-pegin finding
/// An issuance whose amount and inflation keys are both null is no issuance on the wire (it is not serialized
/// and does not enter any id): the nonce / entropy such an in-memory value carries are not compared.
fn normalize_null_issuances(tx: &mut Transaction) {
    for i in tx.input.iter_mut() {
        if enc::issuance_is_null(&i.asset_issuance) {
            i.asset_issuance = Default::default();
        }
    }
}

fn same_extraction(lib: &Transaction, want: &Transaction, ctx: &mut Ctx) -> bool {
    if lib == want {
        return true;
    }
    let (mut l, mut w) = (lib.clone(), want.clone());
    normalize_null_issuances(&mut l);
    normalize_null_issuances(&mut w);
    if l == w {
        ctx.class("extraction:equal-up-to-nonce/entropy-of-a-null-issuance");
        return true;
    }
    let (lib, want) = (&l, &w);
    let mut patched = lib.clone();
    let mut any = false;
    if patched.input.len() == want.input.len() {
        for (b, a) in patched.input.iter_mut().zip(want.input.iter()) {
            if a.previous_output.vout == u32::MAX && b.is_pegin && !a.is_pegin {
                b.is_pegin = false;
                any = true;
            }
        }
    }
    any && &patched == want && ctx.is_known(KF_COINBASE_PEGIN)
}

fn extraction(t: &mut Tape, ctx: &mut Ctx) -> R {
    let extractable = t.chance(200);
    let p = gp::gen_pset(t, &PsetOpts { extractable, ..PsetOpts::default() });
    let a = guard::guard("extract_tx", 0, || p.extract_tx())?;
    let b = guard::guard("extract_tx", 0, || p.extract_tx())?;
    ctx.eval();
    let want = ref_extract(&p, false);
    match (&a, &b) {
        (Ok(x), Ok(y)) => ensure!(x == y, "extract_tx is not deterministic"),
        (Err(_), Err(_)) => {}
        _ => return Err(Failure::new("extract_tx succeeds once and fails once on the same PSET".to_string())),
    }
    match (&a, &want) {
        (Ok(x), Some(w)) => {
            if !same_extraction(x, w, ctx) {
                // lock-time preference finding
                let mut y = x.clone();
                y.lock_time = w.lock_time;
                if same_extraction(&y, w, ctx) && x.lock_time != w.lock_time && both_kinds_possible(&p) && ctx.is_known(KF_LOCKTIME_PREF) {
                    ctx.class("known:locktime-preference");
                } else {
                    return Err(Failure::new(format!("extract_tx does not reflect the PSET's fields\n lib ={:?}\n want={:?}", x, w)));
                }
            }
        }
        (Err(_), None) => {}
        (Ok(x), None) => return Err(Failure::new(format!("extract_tx succeeded where the fields do not determine a transaction (lock-time conflict): {:?}", x.lock_time))),
        (Err(e), Some(_)) => return Err(Failure::new(format!("extract_tx failed on an extractable PSET: {}", e))),
    }
    ctx.class(if a.is_ok() { "extraction:ok" } else { "extraction:err" });
    // the stand-alone output conversion (consumes no tape)
    for (k, o) in p.outputs().iter().enumerate() {
        check_to_txout(o, k, ctx)?;
    }
    let feats = gp::pset_features(&p);
    if let (Ok(x), false) = (&a, feats.is_empty()) {
        // signature from harness data only (the PSET encoder is C07's subject, not called here)
        ctx.nontrivial(&(enc::tx_full(x), feats));
    }
    Ok(())
}

fn both_kinds_possible(p: &Pset) -> bool {
    let r = pset_lock_reqs(p);
    let c: Vec<_> = r.iter().filter(|(t, h)| t.is_some() || h.is_some()).collect();
    !c.is_empty() && c.iter().all(|(t, h)| t.is_some() && h.is_some())
}

// ---- (c) unique id under updater / signer / finalizer histories ------------------------------

fn ref_unique_id(p: &Pset) -> Option<[u8; 32]> {
    ref_extract(p, true).map(|tx| sha256d(&enc::tx_stripped(&tx)))
}

const N_OPS: usize = 16;
/// ops 16.. exist only in the `unique_id_ext` sub-check (the tape of `unique_id` keeps its meaning)
const N_OPS_EXT: usize = 23;

/// id-neutral field families the first table lacks: explicit issuance amounts + their proofs next to an existing
/// commitment, witness-only proofs, pegin metadata, preimages, proprietary / unknown pairs, global scalars
fn apply_op_ext(t: &mut Tape, p: &mut Pset, op: usize) -> Option<&'static str> {
    let pl = pool();
    let rp = |t: &mut Tape| Box::new(pl.rangeproofs[t.below(pl.rangeproofs.len())].clone());
    let nin = p.inputs().len();
    let nout = p.outputs().len();
    match op {
        16 | 17 | 19 | 20 => {
            if nin == 0 {
                return None;
            }
            // prefer an input that can take the operation's interesting branch
            let k = match op {
                16 => p.inputs().iter().position(|i| i.issuance_value_comm.is_some() || i.issuance_inflation_keys_comm.is_some()).filter(|_| t.chance(200)).unwrap_or_else(|| t.below(nin)),
                _ => t.below(nin),
            };
            let i: &mut Input = &mut p.inputs_mut()[k];
            Some(match op {
                16 => {
                    // the commitment stays the issuance amount; the explicit value and its proof are extras
                    let mut hit = false;
                    if i.issuance_value_comm.is_some() {
                        i.issuance_value_amount = Some(t.edgy_u64());
                        hit = true;
                    }
                    if i.issuance_inflation_keys_comm.is_some() {
                        i.issuance_inflation_keys = Some(t.edgy_u64());
                        hit = true;
                    }
                    i.in_issuance_blind_value_proof = Some(rp(t));
                    i.in_issuance_blind_inflation_keys_proof = Some(rp(t));
                    i.blinded_issuance = Some(t.u8());
                    if hit {
                        "issuance-explicit-value-next-to-commitment+proofs"
                    } else {
                        "issuance-blind-proofs"
                    }
                }
                17 => {
                    i.issuance_value_rangeproof = Some(rp(t));
                    i.issuance_keys_rangeproof = Some(rp(t));
                    i.in_utxo_rangeproof = Some(rp(t));
                    i.pegin_witness = Some(gen::gen_stack(t, false));
                    "input-witness-only-fields"
                }
                19 => {
                    i.pegin_tx = Some(gp::gen_btc_tx(t));
                    i.pegin_value = Some(t.edgy_u64());
                    i.pegin_claim_script = Some(gen::gen_script(t, false));
                    i.pegin_genesis_hash = Some(elements::BlockHash::from_byte_array(t.arr32()));
                    let l = t.below(40);
                    i.pegin_txout_proof = Some(t.bytes(l));
                    "pegin-metadata"
                }
                _ => {
                    let l = t.below(20);
                    let pre = t.bytes(l);
                    i.sha256_preimages.insert(elements::hashes::sha256::Hash::hash(&pre), pre.clone());
                    i.hash160_preimages.insert(elements::hashes::hash160::Hash::hash(&pre), pre);
                    let l = t.below(8);
                    i.proprietary.insert(gp::gen_prop_key(t, 1), t.bytes(l));
                    let l = t.below(8);
                    i.unknown.insert(gp::gen_unknown_key(t, 1), t.bytes(l));
                    i.tap_merkle_root = Some(elements::taproot::TapNodeHash::from_byte_array(t.arr32()));
                    "input-preimages-proprietary-unknown"
                }
            })
        }
        18 | 21 => {
            if nout == 0 {
                return None;
            }
            let k = t.below(nout);
            let o: &mut Output = &mut p.outputs_mut()[k];
            Some(match op {
                18 => {
                    if t.bool() {
                        o.value_rangeproof = Some(rp(t));
                    }
                    if t.bool() || o.value_rangeproof.is_none() {
                        o.asset_surjection_proof = Some(Box::new(pl.surjproofs[t.below(pl.surjproofs.len())].clone()));
                    }
                    "output-witness-only-fields"
                }
                _ => {
                    o.witness_script = Some(gen::gen_script(t, false));
                    if o.blinding_key.is_none() {
                        o.blinder_index = Some(t.edgy_u32());
                    }
                    let l = t.below(8);
                    o.proprietary.insert(gp::gen_prop_key(t, 2), t.bytes(l));
                    let l = t.below(8);
                    o.unknown.insert(gp::gen_unknown_key(t, 2), t.bytes(l));
                    "output-script-blinder-index-proprietary-unknown"
                }
            })
        }
        _ => {
            let sc = gen::gen_tweak(t);
            if !p.global.scalars.contains(&sc) {
                p.global.scalars.push(sc);
            }
            p.global.tx_data.tx_modifiable = Some(t.u8());
            p.global.elements_tx_modifiable_flag = Some(t.u8());
            let l = t.below(8);
            p.global.unknown.insert(gp::gen_unknown_key(t, 0), t.bytes(l));
            Some("global-scalars-modifiable-unknown")
        }
    }
}

/// id-neutral field additions / changes; returns the label
fn apply_op(t: &mut Tape, p: &mut Pset, op: usize) -> Option<&'static str> {
    let pl = pool();
    let nin = p.inputs().len();
    let nout = p.outputs().len();
    match op {
        0..=11 => {
            if nin == 0 {
                return None;
            }
            let k = t.below(nin);
            let i: &mut Input = &mut p.inputs_mut()[k];
            Some(match op {
                0 => {
                    i.sequence = Some(Sequence(t.edgy_u32()));
                    "set-sequence"
                }
                1 => {
                    let l = t.range(1, 72);
                    i.partial_sigs.insert(gp::gen_btc_key(t), t.bytes(l));
                    "add-partial-sig"
                }
                2 => {
                    i.tap_key_sig = Some(gp::gen_schnorr_sig(t));
                    "set-tap-key-sig"
                }
                3 => {
                    i.tap_script_sigs.insert((gp::gen_xonly(t), gp::gen_leaf_hash(t)), gp::gen_schnorr_sig(t));
                    "add-tap-script-sig"
                }
                4 => {
                    i.final_script_sig = Some(gen::gen_script(t, false));
                    "set-final-script-sig(finalizer)"
                }
                5 => {
                    i.final_script_witness = Some(gen::gen_stack(t, false));
                    "set-final-script-witness(finalizer)"
                }
                6 => {
                    i.redeem_script = Some(gen::gen_script(t, false));
                    i.witness_script = Some(gen::gen_script(t, false));
                    "set-scripts"
                }
                7 => {
                    i.bip32_derivation.insert(gp::gen_btc_key(t), gp::gen_key_source(t));
                    i.tap_key_origins.insert(gp::gen_xonly(t), (vec![gp::gen_leaf_hash(t)], gp::gen_key_source(t)));
                    "add-key-derivations"
                }
                8 => {
                    i.witness_utxo = Some(gen::gen_txout(t, &TxOpts { big: false, witness: false, ..TxOpts::default() }));
                    if t.bool() {
                        i.non_witness_utxo = Some(gp::gen_small_tx(t));
                    }
                    "set-utxos"
                }
                9 => {
                    i.sighash_type = Some(t.choose(&gp::SCHNORR_TYPES).into());
                    "set-sighash-type"
                }
                10 => {
                    i.amount = Some(t.edgy_u64());
                    i.asset = Some(gen::gen_asset_id(t));
                    i.blind_value_proof = Some(Box::new(pl.rangeproofs[t.below(pl.rangeproofs.len())].clone()));
                    i.blind_asset_proof = Some(Box::new(pl.surjproofs[t.below(pl.surjproofs.len())].clone()));
                    "set-input-explicit-value-proofs"
                }
                _ => {
                    i.tap_internal_key = Some(gp::gen_xonly(t));
                    if let Some(cb) = gp::gen_control_block(t) {
                        i.tap_scripts.insert(cb, (gen::gen_script(t, false), gp::gen_leaf_version(t)));
                    }
                    "add-tap-scripts"
                }
            })
        }
        12..=14 => {
            if nout == 0 {
                return None;
            }
            let k = t.below(nout);
            let o: &mut Output = &mut p.outputs_mut()[k];
            Some(match op {
                12 => {
                    o.bip32_derivation.insert(gp::gen_btc_key(t), gp::gen_key_source(t));
                    o.redeem_script = Some(gen::gen_script(t, false));
                    "output-scripts-derivations"
                }
                13 => {
                    // explicit value / asset proof fields next to existing commitments
                    o.blind_value_proof = Some(Box::new(pl.rangeproofs[t.below(pl.rangeproofs.len())].clone()));
                    o.blind_asset_proof = Some(Box::new(pl.surjproofs[t.below(pl.surjproofs.len())].clone()));
                    if o.amount_comm.is_some() && o.amount.is_none() {
                        o.amount = Some(t.edgy_u64());
                    }
                    if o.asset_comm.is_some() && o.asset.is_none() {
                        o.asset = Some(gen::gen_asset_id(t));
                    }
                    "output-explicit-value-proofs"
                }
                _ => {
                    o.tap_internal_key = Some(gp::gen_xonly(t));
                    if let Some((tt, _)) = gp::gen_tap_tree(t, 4) {
                        o.tap_tree = Some(tt);
                    }
                    "output-tap-fields"
                }
            })
        }
        _ => {
            let l = t.below(8);
            p.global.proprietary.insert(gp::gen_prop_key(t, 0), t.bytes(l));
            p.global.xpub.insert(gp::gen_xpub(t), gp::gen_key_source(t));
            Some("global-xpub-proprietary")
        }
    }
}

fn unique_id_histories(t: &mut Tape, ctx: &mut Ctx) -> R {
    uid_history(t, ctx, false)
}
/// the same check with (a) time-based and mixed lock-time requirements kept (a conflict must make unique_id fail and
/// is then repaired), (b) the operation table extended by `apply_op_ext`
fn unique_id_ext(t: &mut Tape, ctx: &mut Ctx) -> R {
    uid_history(t, ctx, true)
}

fn uid_history(t: &mut Tape, ctx: &mut Ctx, ext: bool) -> R {
    let uid = |p: &Pset| guard::guard("unique_id", 0, || p.unique_id().map(|x| x.to_byte_array()));
    let mut p = gp::gen_pset(t, &PsetOpts { extractable: !ext, ..PsetOpts::default() });
    // drop lock-time conflicts and keep it non-empty enough to be interesting
    if p.inputs().is_empty() {
        p.add_input(gp::gen_input(t, 60));
        if !ext {
            p.inputs_mut()[0].required_time_locktime = None;
        }
    }
    if ext {
        let fallback = p.global.tx_data.fallback_locktime.map(|l| l.to_consensus_u32());
        match ref_locktime(&pset_lock_reqs(&p), fallback) {
            RefLock::Conflict => {
                // no lock time satisfies every input: there is no unsigned transaction, hence no id
                let r = uid(&p)?;
                ctx.eval();
                ensure!(r.is_err(), "unique_id succeeds although the lock-time requirements {:?} conflict (no kind is supported by all)", pset_lock_reqs(&p));
                ctx.class("uid-ext:lock-conflict->error");
                for i in p.inputs_mut() {
                    i.required_time_locktime = None;
                }
            }
            RefLock::Ok(n) => {
                let constrained = p.inputs().iter().any(|i| i.required_time_locktime.is_some() || i.required_height_locktime.is_some());
                ctx.class(if !constrained {
                    "uid-ext:lock=fallback"
                } else if n >= 500_000_000 {
                    "uid-ext:lock=required-time"
                } else if p.inputs().iter().any(|i| i.required_time_locktime.is_some()) {
                    "uid-ext:lock=required-height(time also possible or offered)"
                } else {
                    "uid-ext:lock=required-height"
                });
            }
        }
    }
    let id0 = match uid(&p)? {
        Ok(i) => i,
        Err(e) => return Err(Failure::new(format!("unique_id failed on an extractable PSET: {}", e))),
    };
    ctx.eval();
    let check_ref = |p: &Pset, id: &[u8; 32], ctx: &mut Ctx, what: &str| -> R {
        match ref_unique_id(p) {
            Some(w) => {
                if &w != id {
                    // tolerate only the listed lock-time preference finding (the id commits to the lock time)
                    if both_kinds_possible(p) && ctx.is_known(KF_LOCKTIME_PREF) {
                        return Ok(());
                    }
                    let has_sig = p.inputs().iter().any(|i| i.final_script_sig.as_ref().map_or(false, |s| !s.is_empty()));
                    if has_sig && ctx.is_known(KF_UID_SCRIPTSIG) {
                        return Ok(());
                    }
                    return Err(Failure::new(format!(
                        "unique_id ({}) is not the id of the unsigned transaction: lib={} ref={}; lock-time requirements (time, height) {:?}, fallback {:?}, BIP370 lock time {:?}",
                        what, hex(id), hex(&w), pset_lock_reqs(p), p.global.tx_data.fallback_locktime.map(|l| l.to_consensus_u32()),
                        ref_locktime(&pset_lock_reqs(p), p.global.tx_data.fallback_locktime.map(|l| l.to_consensus_u32()))
                    )));
                }
                Ok(())
            }
            None => Err(Failure::new("reference extraction failed".to_string())),
        }
    };
    // a PSET from the generator may already carry a final_script_sig
    check_ref(&p, &id0, ctx, "initial")?;
    let steps = 1 + t.below(10);
    let mut trace: Vec<&'static str> = Vec::new();
    let mut finalizer = false;
    for _ in 0..steps {
        let op = if ext {
            // two thirds new operations, one third the first table
            if t.chance(170) { N_OPS + t.below(N_OPS_EXT - N_OPS) } else { t.below(N_OPS) }
        } else {
            t.below(N_OPS)
        };
        let applied = if op < N_OPS { apply_op(t, &mut p, op) } else { apply_op_ext(t, &mut p, op) };
        let Some(label) = applied else { continue };
        trace.push(label);
        if label.contains("finalizer") {
            finalizer = true;
        }
        let id = match uid(&p)? {
            Ok(i) => i,
            Err(e) => return Err(Failure::new(format!("unique_id failed after {:?}: {}", trace, e))),
        };
        ctx.eval();
        if id != id0 {
            let sig_step = label == "set-final-script-sig(finalizer)" || p.inputs().iter().any(|i| i.final_script_sig.is_some());
            if sig_step && ctx.is_known(KF_UID_SCRIPTSIG) {
                ctx.class("known:unique-id-script-sig");
                return Ok(());
            }
            return Err(Failure::new(format!("unique_id changed after `{}` (history {:?}): {} -> {}", label, trace, hex(&id0), hex(&id))));
        }
        check_ref(&p, &id, ctx, label)?;
        ctx.class(&format!("op:{}", label));
    }
    // controls: identifying data does change the id
    {
        let mut q = p.clone();
        let k = t.below(q.inputs().len());
        let mut a = q.inputs()[k].previous_txid.to_byte_array();
        a[t.below(32)] ^= 1;
        q.inputs_mut()[k].previous_txid = elements::Txid::from_byte_array(a);
        if let Ok(id) = uid(&q)? {
            ensure!(id != id0, "unique_id unchanged after changing a previous txid");
        }
        if !p.outputs().is_empty() {
            let mut q = p.clone();
            let k = t.below(q.outputs().len());
            let mut b = q.outputs()[k].script_pubkey.to_bytes();
            b.push(0x51);
            q.outputs_mut()[k].script_pubkey = Script::from(b);
            if let Ok(id) = uid(&q)? {
                ensure!(id != id0, "unique_id unchanged after changing an output script");
            }
        }
        let mut q = p.clone();
        let cur = q.global.tx_data.fallback_locktime.map_or(0, |l| l.to_consensus_u32());
        if q.inputs().iter().all(|i| i.required_height_locktime.is_none() && i.required_time_locktime.is_none()) {
            q.global.tx_data.fallback_locktime = Some(LockTime::from_consensus(cur ^ 1));
            if let Ok(id) = uid(&q)? {
                ensure!(id != id0, "unique_id unchanged after changing the lock time");
            }
        }
        ctx.evals_n(3);
    }
    if finalizer {
        ctx.class("history:with-finalizer-step");
        ctx.nontrivial(&(hex(&id0), trace.clone()));
    } else if ext && !trace.is_empty() {
        ctx.nontrivial(&(hex(&id0), trace.clone()));
    }
    if ctx.wants_sample("history") && finalizer {
        ctx.sample("history", || json!({"inputs": p.inputs().len(), "outputs": p.outputs().len(), "ops": trace, "unique_id": hex(&id0)}));
    }
    Ok(())
}

// ---- (e) PSETs assembled with the positional constructors -------------------------------------

/// what the harness expects an element to extract to when it was built by a constructor from known data
struct ShadowIn {
    map: Input,
    expect: Option<TxIn>,
    how: &'static str,
}
struct ShadowOut {
    map: Output,
    expect: Option<TxOut>,
    how: &'static str,
}

fn mk_input(t: &mut Tape, density: u32) -> Result<ShadowIn, Failure> {
    Ok(match t.below(4) {
        0 => {
            let op = OutPoint { txid: gen::gen_txid(t), vout: if t.chance(24) { u32::MAX } else { gen::gen_vout(t) } };
            let map = guard::guard("Input::from_prevout", 0, || Input::from_prevout(op))?;
            // "a psbt input from prevout without any issuance or pegins": spends `op`, final sequence, nothing else
            let expect = TxIn { previous_output: op, is_pegin: false, script_sig: Script::new(), sequence: Sequence::MAX, asset_issuance: AssetIssuance::null(), witness: TxInWitness::empty() };
            ShadowIn { map, expect: Some(expect), how: "from_prevout" }
        }
        1 => {
            let txin = gen::gen_txin(t, &TxOpts { big: false, wellformed: true, ..TxOpts::default() });
            let map = guard::guard("Input::from_txin", 0, || Input::from_txin(txin.clone()))?;
            ShadowIn { map, expect: Some(txin), how: "from_txin" }
        }
        _ => ShadowIn { map: gp::gen_input(t, density), expect: None, how: "fields" },
    })
}

fn mk_output(t: &mut Tape, density: u32, nin: usize, ctx: &mut Ctx) -> Result<ShadowOut, Failure> {
    Ok(match t.below(4) {
        0 => {
            let script = gen::gen_script(t, false);
            let amount = t.edgy_u64();
            let asset = gen::gen_asset_id(t);
            let key = if t.bool() { Some(gp::gen_btc_key(t)) } else { None };
            let (s2, k2) = (script.clone(), key);
            let map = guard::guard("Output::new_explicit", 0, || Output::new_explicit(s2, amount, asset, k2))?;
            // an explicit output; the receiver's blinding key is PSET metadata (extract_tx emits only an ECDH key)
            let expect = TxOut { asset: Asset::Explicit(asset), value: Value::Explicit(amount), nonce: Nonce::Null, script_pubkey: script, witness: TxOutWitness::empty() };
            ShadowOut { map, expect: Some(expect), how: "new_explicit" }
        }
        1 => {
            let txout = gen::gen_txout(t, &TxOpts { big: false, wellformed: true, ..TxOpts::default() });
            let map = guard::guard("Output::from_txout", 0, || Output::from_txout(txout.clone()))?;
            ShadowOut { map, expect: Some(txout), how: "from_txout" }
        }
        _ => {
            let mut map = gp::gen_output(t, density, nin);
            // insert_input shifts blinder indices up by one (`i + 1`): an index at the very top of u32 would overflow
            // there - not a subject of C08, excluded by construction and counted
            if let Some(b) = map.blinder_index {
                if b > u32::MAX - 64 {
                    map.blinder_index = Some(u32::MAX - 64);
                    ctx.exclude();
                }
            }
            if map.blinding_key.is_none() && t.chance(48) {
                // marked for blinding and only partly blinded so far (a blinder has stored the ECDH key, maybe more)
                map.blinding_key = Some(gp::gen_btc_key(t));
                map.ecdh_pubkey = Some(gp::gen_btc_key(t));
                map.blinder_index = Some(t.below(nin.max(1)) as u32);
            }
            ShadowOut { map, expect: None, how: "fields" }
        }
    })
}

fn without_blinder_index(o: &Output) -> Output {
    let mut o = o.clone();
    o.blinder_index = None;
    o
}

/// the PSET against the harness's shadow lists: same maps in the same order, declared counts, extraction ==
/// reference extraction of the SHADOW (never of `p.inputs()`), constructor-built elements extract to the data
/// they were built from, unique id == reference id
fn check_against_shadow(p: &Pset, sin: &[ShadowIn], sout: &[ShadowOut], trace: &[String], ctx: &mut Ctx) -> R {
    ensure!(p.inputs().len() == sin.len(), "after {:?}: the PSET holds {} inputs, the history {}", trace, p.inputs().len(), sin.len());
    ensure!(p.outputs().len() == sout.len(), "after {:?}: the PSET holds {} outputs, the history {}", trace, p.outputs().len(), sout.len());
    for (k, (a, b)) in p.inputs().iter().zip(sin.iter()).enumerate() {
        ensure!(a == &b.map, "after {:?}: input map {} of the PSET is not the map the history put there ({}): previous output {}:{:#x} vs {}:{:#x}", trace, k, b.how, a.previous_txid, a.previous_output_index, b.map.previous_txid, b.map.previous_output_index);
    }
    for (k, (a, b)) in p.outputs().iter().zip(sout.iter()).enumerate() {
        // (insert_input documents that it shifts blinder indices; they are no part of the extracted transaction)
        ensure!(without_blinder_index(a) == without_blinder_index(&b.map), "after {:?}: output map {} of the PSET is not the map the history put there ({})", trace, k, b.how);
    }
    let (ni, no) = guard::guard("n_inputs/n_outputs", 0, || (p.n_inputs(), p.n_outputs()))?;
    ensure!(ni == sin.len() && no == sout.len(), "after {:?}: the PSET declares {} inputs / {} outputs but holds {} / {}", trace, ni, no, sin.len(), sout.len());
    let ins: Vec<Input> = sin.iter().map(|x| x.map.clone()).collect();
    let outs: Vec<Output> = sout.iter().map(|x| x.map.clone()).collect();
    let fallback = p.global.tx_data.fallback_locktime.map(|l| l.to_consensus_u32());
    let want = ref_extract_parts(p.global.tx_data.version, fallback, &ins, &outs, false);
    let got = guard::guard("extract_tx", 0, || p.extract_tx())?;
    let id = guard::guard("unique_id", 0, || p.unique_id().map(|x| x.to_byte_array()))?;
    ctx.evals_n(2);
    match (&got, &want) {
        (Ok(x), Some(w)) => {
            if !same_extraction(x, w, ctx) {
                return Err(Failure::new(format!("after {:?}: extract_tx does not reflect the maps the history put into the PSET\n lib ={:?}\n want={:?}", trace, x, w)));
            }
            ensure!(x.input.len() == sin.len() && x.output.len() == sout.len(), "after {:?}: extracted {} inputs / {} outputs", trace, x.input.len(), x.output.len());
            for (k, sh) in sin.iter().enumerate() {
                if let Some(e) = &sh.expect {
                    ensure!(&x.input[k] == e, "after {:?}: input {} was built by Input::{} but extracts to {:?}, expected {:?}", trace, k, sh.how, x.input[k], e);
                }
            }
            for (k, sh) in sout.iter().enumerate() {
                if let Some(e) = &sh.expect {
                    let mut y = x.output[k].clone();
                    if y != *e && y.nonce == Nonce::Null && matches!(e.nonce, Nonce::Confidential(_)) && explicit_plain(e) && sh.how == "from_txout" && ctx.is_known(KF_NONCE_LOST) {
                        // the recorded finding: the key in the nonce of an unblinded output becomes the blinding key
                        y.nonce = e.nonce;
                    }
                    ensure!(&y == e, "after {:?}: output {} was built by Output::{} but extracts to {:?}, expected {:?}", trace, k, sh.how, x.output[k], e);
                }
            }
            match (&id, ref_extract_parts(p.global.tx_data.version, fallback, &ins, &outs, true)) {
                (Ok(i), Some(u)) => {
                    let w = sha256d(&enc::tx_stripped(&u));
                    ensure!(i == &w, "after {:?}: unique_id {} is not the id {} of the unsigned transaction of the history's maps", trace, hex(i), hex(&w));
                }
                (Err(e), _) => return Err(Failure::new(format!("after {:?}: unique_id fails ({}) on an extractable PSET", trace, e))),
                (Ok(_), None) => {}
            }
        }
        (Err(_), None) => {
            ensure!(id.is_err(), "after {:?}: unique_id succeeds where extraction is impossible (lock-time conflict)", trace);
            ctx.class("edit:lock-conflict");
        }
        (Ok(x), None) => return Err(Failure::new(format!("after {:?}: extract_tx succeeded on a lock-time conflict: {:?}", trace, x.lock_time))),
        (Err(e), Some(_)) => return Err(Failure::new(format!("after {:?}: extract_tx failed ({}) on a PSET whose maps determine a transaction", trace, e))),
    }
    Ok(())
}

fn edit_histories(t: &mut Tape, ctx: &mut Ctx) -> R {
    let density = t.choose(&[40u32, 100, 160]);
    let mut p = Pset::new_v2();
    p.global.tx_data.version = if t.bool() { t.edgy_u32() } else { 2 };
    p.global.tx_data.fallback_locktime = if t.bool() { Some(LockTime::from_consensus(t.edgy_u32())) } else { None };
    let mut sin: Vec<ShadowIn> = Vec::new();
    let mut sout: Vec<ShadowOut> = Vec::new();
    let mut trace: Vec<String> = Vec::new();
    let steps = 2 + t.below(9);
    let mut positional = false;
    for _ in 0..steps {
        let op = t.below(10);
        match op {
            0 => {
                let x = mk_input(t, density)?;
                let m = x.map.clone();
                guard::guard("add_input", 0, || p.add_input(m))?;
                trace.push(format!("add_input({})", x.how));
                ctx.class(&format!("edit:input-by-{}", x.how));
                sin.push(x);
            }
            1 | 2 => {
                let x = mk_input(t, density)?;
                let pos = t.below(sin.len() + 1);
                let m = x.map.clone();
                guard::guard("insert_input", 0, || p.insert_input(m, pos))?;
                trace.push(format!("insert_input({}, {})", x.how, pos));
                ctx.class(&format!("edit:input-by-{}", x.how));
                ctx.class(if pos == sin.len() { "edit:insert_input(end)" } else { "edit:insert_input(inside)" });
                sin.insert(pos, x);
                positional = true;
            }
            3 | 4 => {
                // a position beyond the end is documented to return None and leave the PSET alone
                // a position inside the list; one past the end now and then (always, while the list is empty)
                let beyond = usize::from(t.chance(48));
                let idx = if sin.is_empty() { 0 } else { t.below(sin.len() + beyond) };
                let r = guard::guard("remove_input", 0, || p.remove_input(idx))?;
                trace.push(format!("remove_input({})", idx));
                if idx < sin.len() {
                    let gone = sin.remove(idx);
                    ensure!(r.as_ref() == Some(&gone.map), "after {:?}: remove_input({}) did not return the input that was there", trace, idx);
                    ctx.class("edit:remove_input(hit)");
                    positional = true;
                } else {
                    ensure!(r.is_none(), "after {:?}: remove_input({}) returned an input although only {} exist", trace, idx, sin.len());
                    ctx.class("edit:remove_input(out of range)");
                }
            }
            5 => {
                let x = mk_output(t, density, sin.len(), ctx)?;
                let m = x.map.clone();
                guard::guard("add_output", 0, || p.add_output(m))?;
                trace.push(format!("add_output({})", x.how));
                ctx.class(&format!("edit:output-by-{}", x.how));
                sout.push(x);
            }
            6 | 7 => {
                let x = mk_output(t, density, sin.len(), ctx)?;
                let pos = t.below(sout.len() + 1);
                let m = x.map.clone();
                guard::guard("insert_output", 0, || p.insert_output(m, pos))?;
                trace.push(format!("insert_output({}, {})", x.how, pos));
                ctx.class(&format!("edit:output-by-{}", x.how));
                ctx.class(if pos == sout.len() { "edit:insert_output(end)" } else { "edit:insert_output(inside)" });
                sout.insert(pos, x);
                positional = true;
            }
            _ => {
                let beyond = usize::from(t.chance(48));
                let idx = if sout.is_empty() { 0 } else { t.below(sout.len() + beyond) };
                let r = guard::guard("remove_output", 0, || p.remove_output(idx))?;
                trace.push(format!("remove_output({})", idx));
                if idx < sout.len() {
                    let gone = sout.remove(idx);
                    ensure!(r.as_ref().map(without_blinder_index) == Some(without_blinder_index(&gone.map)), "after {:?}: remove_output({}) did not return the output that was there", trace, idx);
                    ctx.class("edit:remove_output(hit)");
                    positional = true;
                } else {
                    ensure!(r.is_none(), "after {:?}: remove_output({}) returned an output although only {} exist", trace, idx, sout.len());
                    ctx.class("edit:remove_output(out of range)");
                }
            }
        }
        check_against_shadow(&p, &sin, &sout, &trace, ctx)?;
    }
    // every output of the final PSET through the stand-alone conversion as well
    for (k, o) in p.outputs().iter().enumerate() {
        check_to_txout(o, k, ctx)?;
    }
    if positional {
        ctx.class("edit:history-with-insert-or-remove");
        let fin = guard::guard("extract_tx", 0, || p.extract_tx().ok())?;
        ctx.nontrivial(&(trace.clone(), fin.map(|x| enc::tx_full(&x))));
    }
    if ctx.wants_sample("edit-history") && positional && trace.len() >= 4 {
        ctx.sample("edit-history", || json!({"ops": trace, "inputs": sin.len(), "outputs": sout.len()}));
    }
    Ok(())
}

// ---- (d) lock-time selection, every kind assignment ------------------------------------------

/// index -> (number of inputs 0..=4, base-4 assignment of {none,time,height,both}); 341 assignments
fn decode_assignment(mut idx: u64) -> Vec<u8> {
    let mut n = 0usize;
    let mut count = 1u64;
    while idx >= count {
        idx -= count;
        n += 1;
        count *= 4;
    }
    (0..n).map(|k| ((idx >> (2 * k)) & 3) as u8).collect()
}

fn locktime_assignments(idx: u64, seed: u64, ctx: &mut Ctx) -> R {
    let assign = decode_assignment(idx % 341);
    let rounds = 40;
    let rnd = seeded_bytes(seed, idx, 64 * rounds);
    let mut t = Tape::new(&rnd);
    for _ in 0..rounds {
        let mut p = Pset::new_v2();
        let mut reqs = Vec::new();
        for kind in &assign {
            let mut i = Input::default();
            // (a value of the documented domain that the constructor rejects cannot be assigned at all: reported, not
            // silently replaced by another value)
            let time = ext_g6::gen_time_checked(&mut t).map_err(Failure::new)?;
            let height = ext_g6::gen_height_checked(&mut t).map_err(Failure::new)?;
            if kind & 1 != 0 {
                i.required_time_locktime = Some(time);
            }
            if kind & 2 != 0 {
                i.required_height_locktime = Some(height);
            }
            reqs.push((i.required_time_locktime.map(|x| x.to_consensus_u32()), i.required_height_locktime.map(|x| x.to_consensus_u32())));
            p.add_input(i);
        }
        let fallback = if t.bool() { Some(t.edgy_u32()) } else { None };
        p.global.tx_data.fallback_locktime = fallback.map(LockTime::from_consensus);
        let got = guard::guard("locktime", 0, || p.locktime())?;
        ctx.eval();
        let want = ref_locktime(&reqs, fallback);
        let both = !assign.is_empty() && assign.iter().filter(|k| **k != 0).all(|k| *k == 3) && assign.iter().any(|k| *k == 3);
        match (&got, want) {
            (Ok(l), RefLock::Ok(n)) => {
                if l.to_consensus_u32() != n {
                    if both && ctx.is_known(KF_LOCKTIME_PREF) {
                        ctx.class("known:locktime-preference");
                    } else {
                        return Err(Failure::new(format!(
                            "locktime() = {} but BIP370 prescribes {} for requirements (time, height) = {:?}, fallback {:?}",
                            l.to_consensus_u32(),
                            n,
                            reqs,
                            fallback
                        )));
                    }
                }
            }
            (Err(_), RefLock::Conflict) => {}
            (Ok(l), RefLock::Conflict) => return Err(Failure::new(format!("locktime() = {} although no kind is supported by all constraining inputs {:?}", l, reqs))),
            (Err(e), RefLock::Ok(n)) => return Err(Failure::new(format!("locktime() fails ({}) although BIP370 prescribes {} for {:?}", e, n, reqs))),
        }
        let kinds: std::collections::BTreeSet<u8> = assign.iter().copied().filter(|k| *k != 0).collect();
        if kinds.len() >= 2 {
            ctx.nontrivial(&(idx, hex(&rnd[..8]), reqs.clone(), fallback));
        }
    }
    ctx.class(&format!("inputs:{}", assign.len()));
    if ctx.wants_sample("assignment") && assign.len() >= 3 {
        ctx.sample("assignment", || json!({"kinds(1=time,2=height,3=both)": assign, "rounds": rounds}));
    }
    let _ = locktime::Height::ZERO;
    Ok(())
}

fn repro_nonce_lost() -> bool {
    let p = pool();
    let tx = Transaction {
        version: 2,
        lock_time: LockTime::ZERO,
        input: vec![],
        output: vec![TxOut { asset: Asset::Explicit(p.assets[0]), value: Value::Explicit(5), nonce: Nonce::Confidential(p.pubkeys[0]), script_pubkey: Script::new(), witness: TxOutWitness::empty() }],
    };
    Pset::from_tx(tx.clone()).extract_tx().map_or(true, |b| b != tx)
}
fn repro_coinbase_pegin() -> bool {
    let tx = Transaction { version: 2, lock_time: LockTime::ZERO, input: vec![TxIn::default()], output: vec![] };
    Pset::from_tx(tx.clone()).extract_tx().map_or(true, |b| b != tx)
}
fn repro_locktime_pref() -> bool {
    let mut p = Pset::new_v2();
    let mut i = Input::default();
    i.required_time_locktime = locktime::Time::from_consensus(600_000_000).ok();
    i.required_height_locktime = locktime::Height::from_consensus(7).ok();
    p.add_input(i);
    p.locktime().map_or(true, |l| l.to_consensus_u32() != 7)
}
fn repro_uid_scriptsig() -> bool {
    let mut p = Pset::new_v2();
    p.add_input(Input::default());
    let a = p.unique_id();
    p.inputs_mut()[0].final_script_sig = Some(Script::from(vec![0x51]));
    match (a, p.unique_id()) {
        (Ok(x), Ok(y)) => x != y,
        _ => true,
    }
}

pub fn property() -> Property {
    Property {
        id: "C08",
        rule: "tx_roundtrip: well-formed transactions (C01 generator constrained: pegin witness only on pegins, issuance proofs \
               only on issuances, non-null asset / value, nonce Null or key); oracle: extract_tx(from_tx(tx)) == tx, and per input \
               pset::Input::{is_pegin, has_issuance, asset_issuance, previous_txid} of the from_tx input == the TxIn's own data. \
               tx_roundtrip_big: the same oracle on transactions with 0xfc/0xfd/0xfe/0x100/0x101 inputs and / or outputs (up to 4 \
               distinct elements cycled, position stamped into sequence / value). extraction: generated PSETs; extract_tx twice \
               identical and equal to the harness's field-by-field reference extraction (flag bits stripped except on \
               0xffffffff, commitments preferred, defaults), Err exactly on lock-time conflicts; every output additionally \
               through Output::to_txout: deterministic, asset / value (commitment first, Null when absent) / script / both \
               witness proofs == reference, nonce Null or one of the output's two keys (ECDH key when completely blinded). \
               edit_histories: PSETs assembled by 2..10 add_ / insert_ / remove_ input / output operations (positions <= len, \
               removals also one past the end) from elements built by Input::from_prevout / from_txin / field generator and \
               Output::new_explicit / from_txout / field generator, against shadow lists kept by the harness: after EVERY step \
               same maps in the same order, declared counts, extract_tx == reference extraction of the shadow lists, \
               constructor-built elements extract to the data they were built from, unique_id == reference id (Err on a \
               lock-time conflict), remove_* return the removed map / None. unique_id: histories of 1..10 updater / signer / \
               finalizer operations from a table of 16 id-neutral field additions; after every step unique_id == initial == \
               harness txid of the reference unsigned transaction (sequences 0, empty scriptSigs, BIP370 lock time); controls: \
               prevout / output / lock-time changes change it. unique_id_ext: the same on PSETs that keep time-based and mixed \
               lock-time requirements (a conflict must make unique_id fail, then the time locks are dropped) with 7 further \
               id-neutral operations (explicit issuance amount / keys + blind proofs next to an existing commitment, input and \
               output witness-only proofs, pegin witness and metadata, preimages, proprietary / unknown pairs, global scalars \
               and modifiable flags). locktime: ALL 341 assignments of {none,time,height,both} to 0..4 inputs x 40 value draws \
               (incl. 0, 499999999, 500000000, 2^32-1; a constructor rejecting a value of its documented domain is reported) x \
               fallback present/absent against the BIP370 reference. Non-trivial: tx with pegin / issuance / confidential \
               output / witness or a count >= 0xfc; extractable PSET with a non-core feature; edit history with an insert or \
               remove; history with a finalizer step or any extended op; assignment with >=2 different constraining kinds; \
               distinct by encoding / extracted transaction / history / values.",
        assumptions: &["explicit 32-byte nonces are not sent through PSET conversions (the format has no field for them)"],
        subs: vec![
            Sub { name: "tx_roundtrip", kind: Kind::Tape { max_len: 3000, quick: 240_000, thorough: 3_000_000, f: tx_roundtrip } },
            Sub { name: "extraction", kind: Kind::Tape { max_len: 6000, quick: 96_000, thorough: 1_200_000, f: extraction } },
            Sub { name: "unique_id", kind: Kind::Tape { max_len: 7000, quick: 60_000, thorough: 750_000, f: unique_id_histories } },
            Sub { name: "tx_roundtrip_big", kind: Kind::Tape { max_len: 1500, quick: 4_000, thorough: 120_000, f: tx_roundtrip_big } },
            Sub { name: "edit_histories", kind: Kind::Tape { max_len: 7000, quick: 40_000, thorough: 800_000, f: edit_histories } },
            Sub { name: "unique_id_ext", kind: Kind::Tape { max_len: 7000, quick: 40_000, thorough: 600_000, f: unique_id_ext } },
            Sub { name: "locktime", kind: Kind::Index { count: |t| t.pick(341, 341 * 30), exhaustive: true, f: locktime_assignments } },
        ],
        known: vec![
            Known { key: KF_NONCE_LOST, what: "an explicit output carrying a receiver key in its nonce comes back from from_tx -> extract_tx with a Null nonce", repro: repro_nonce_lost },
            Known { key: KF_COINBASE_PEGIN, what: "an input with index 0xffffffff comes back from from_tx -> extract_tx with is_pegin = true", repro: repro_coinbase_pegin },
            Known { key: KF_LOCKTIME_PREF, what: "locktime() prefers the time lock when both kinds are possible (BIP370: height)", repro: repro_locktime_pref },
            Known { key: KF_UID_SCRIPTSIG, what: "unique_id changes when final_script_sig is set", repro: repro_uid_scriptsig },
        ],
    }
}
