use crate::engine::Property;

pub mod c01;
pub mod c18;

pub fn all() -> Vec<fn() -> Property> {
    vec![c01::property, c18::property]
}

pub fn by_id(id: &str) -> Option<Property> {
    all().into_iter().map(|f| f()).find(|p| p.id == id)
}
