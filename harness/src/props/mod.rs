use crate::engine::Property;

pub mod c01;
pub mod c02;
pub mod c03;
pub mod c11;
pub mod c12;
pub mod c13;
pub mod c19;
pub mod c18;

pub fn all() -> Vec<fn() -> Property> {
    vec![c01::property, c02::property, c03::property, c11::property, c12::property, c13::property, c18::property, c19::property]
}

pub fn by_id(id: &str) -> Option<Property> {
    all().into_iter().map(|f| f()).find(|p| p.id == id)
}
